#!/usr/bin/env python3
"""Derives the sub-agent prompts of the next seed round from those of the previous one: same task text, the round word and
the scratch paths replaced, and the descriptions of the previous round's confirmed changes appended to the list of changes
to avoid. usage: next_seed_round.py <prev n> <prev letters, e.g. ij> <ordinal of previous> <ordinal of next>
   e.g. next_seed_round.py 5 ij FIFTH SIXTH   ->  /tmp/seedout6/Cxx.prompt.txt"""
import sys,json,glob,os,re
n=int(sys.argv[1]); letters=sys.argv[2]; prev_word,next_word=sys.argv[3],sys.argv[4]
src='/tmp/seedout%d'%n; dst='/tmp/seedout%d'%(n+1)
descs=json.load(open('/verif/scripts/seed_descriptions.json'))
os.makedirs(dst,exist_ok=True)
for f in sorted(glob.glob(src+'/C*.prompt.txt')):
    pid=os.path.basename(f)[:3]
    s=open(f).read()
    s=s.replace(src,dst).replace('/tmp/w%d-'%n,'/tmp/w%d-'%(n+1)).replace('This is a %s round'%prev_word,'This is a %s round'%next_word)
    add=''.join('- %s\n'%descs[pid+'/'+l] for l in letters if pid+'/'+l in descs)
    # the list of earlier changes is the block of "- " lines after the round sentence; append to its end
    m=re.search(r'(This is a %s round[^\n]*\n(?:- [^\n]*\n)+)'%next_word,s)
    if not m: sys.exit('list not found in '+f)
    s=s[:m.end()]+add+s[m.end():]
    open(dst+'/'+os.path.basename(f),'w').write(s)
    print(pid,len(add.splitlines()),'descriptions added')
