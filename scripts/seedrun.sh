#!/bin/bash
# usage: seedrun.sh <patch.diff> <prop|all> [...]   applies the seeded patch to /repo, runs the quick checks, reverts.
P=$1; shift
if [ -n "$(git -C /repo status --porcelain)" ]; then echo "/repo not clean"; exit 2; fi
git -C /repo apply "$P" || { echo "patch does not apply"; exit 2; }
for prop in "$@"; do
  /verif/bin/galaxycheck -prop $prop -no-evidence 2>&1 | grep -v "^    " | tail -${TAILN:-12}
done
git -C /repo checkout -- .
git -C /repo status --porcelain
