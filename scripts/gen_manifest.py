#!/usr/bin/env python3
"""Generates /verif/MANIFEST.json from the table below (kept in one place so that it stays valid)."""
import json,subprocess,os
claimed = {
 "C01": ("lockset (must-hold) analysis over SSA + CFG dominance/reachability rules", "§4 C01"),
 "C02": ("CFG reachability/guard rules + data-dependence over SSA", "§4 C02"),
 "C03": ("CFG branch-effect rules per policy constant + exhaustiveness over declared constants", "§4 C03"),
 "C04": ("lockset analysis + CFG guard rules + field-sensitive freshness (dominating-store) analysis", "§4 C04"),
 "C05": ("CFG error-edge rules (store-first/rollback) + lockset + writer/reader field-set agreement", "§4 C05"),
 "C06": ("CFG guard rules + value-provenance (access path) rules", "§4 C06"),
 "C07": ("lockset analysis + phi-edge dominance rule for the conditional lock + CFG error-edge rules", "§4 C07"),
 "C08": ("CFG error-edge/rollback rules + guard rules in the candidate callback", "§4 C08"),
 "C09": ("value-origin rule (created objects come from the unallocated table) + lockset + CFG guards", "§4 C09"),
 "C10": ("CFG ordering/error-edge rules + freshness analysis of request fields", "§4 C10"),
 "C11": ("sibling-agreement rule over phi operands + constant folding of the conversion functions over their SSA + writer/reader constant tables", "§4 C11"),
 "C12": ("CFG ordering/rollback rules + interprocedural field-based alias taint of the shared configuration maps", "§4 C12"),
 "C13": ("writer/reader agreement tables over go/types (types, struct tags, constants) + data-dependence rules", "§4 C13"),
 "C15": ("CFG ordering rules (incl. flattened handler call sequences) + ownership guard rules + lockset", "§4 C15"),
 "C17": ("CFG classifier-edge rules (return true only via listed edges) + must-pass-through rules", "§4 C17"),
 "C14": ("CFG error-edge/cleanup rules + operand-provenance rules for iptables lines + lockset", "§4 C14"),
 "C18": ("nil-safety (dominating non-nil test) analysis + fixed-width loop/wrap rule + lock pairing/order analysis", "§4 C18"),
 "C20": ("CFG reject-edge rules + fixed-width arithmetic rule", "§4 C20"),
 "C19": ("lockset / guarded-by analysis (interprocedural requires-summaries) + shared-map taint", "§4 C19"),
}
desc = json.loads(subprocess.run(['/verif/bin/galaxycheck','-describe'],capture_output=True,text=True).stdout)
texts = {i:{"text":"Static analysis (no execution) of the type-checked SSA program of /repo's working tree. "+d["explanation"]+" Level 'other': the decided parts are structural necessary conditions of the property (breaking one breaks the behaviour); the behavioural property as a whole is not decided.",
            "note":"Trusted base: go/types, golang.org/x/tools v0.29.0 (go/packages, go/ssa, callgraph/vta in the thorough tier), the rule and guard tables in /verif/checker. Assumptions: "+"; ".join(d["assumptions"])+". Obligations that cannot be decided (unresolved anchor, unrecognised idiom, type error, analysis panic, failed engine self-test) fail the check."} for i,d in desc.items()}
ids=[json.loads(l)['id'] for l in open('/verif/properties.jsonl')]
na_reason = {
 "C16": "Semantic equivalence between the generated iptables/ipset program (under kernel matching semantics) and Kubernetes NetworkPolicy semantics for all clusters, policies and flows: needs a netfilter semantics and quantification over packets/label sets (symbolic or model-based reasoning, a different technique family). The only shape-of-code facts (pod chain ends in DROP, policy chains hold only ACCEPT lines) are far from the property and would be a brittle proxy; not claimed (DESIGN.md §6).",
}
checks=[]
for i in ids:
    if i not in claimed: continue
    tech,ref=claimed[i]
    t=texts.get(i,{})
    checks.append({
      "property_id": i,
      "quick_cmd": "./bin/galaxycheck -prop %s -tier quick"%i,
      "thorough_cmd": "python3 scripts/thorough.py %s"%i,
      "evidence_file": "evidence/%s.json"%i,
      "replay_cmd_template": "./bin/galaxycheck -explain {path}",
      "engine": "galaxycheck",
      "level_claimed": {"category":"other","text": t.get("text",("Static analysis of the type-checked SSA program of /repo: decides, for every path of every anchored function, the structural necessary conditions of the property listed in DESIGN.md %s (each breaking the behaviour if broken); it does not decide the behavioural property as a whole." % ref)), "design_ref": "DESIGN.md "+ref},
      "level_note": t.get("note","Trusted base: go/types, golang.org/x/tools v0.29.0 go/packages+go/ssa, the rule tables in /verif/checker. Paths are CFG paths (no feasibility reasoning); locks are identified by (struct type, field). The undecided remainder of the property is stated in DESIGN.md "+ref+" and in the evidence explanation."),
      "technique": tech,
    })
na=[{"property_id":i,"reason":na_reason.get(i,"check not built yet in this round (static rules designed in DESIGN.md §4, implementation pending)")} for i in ids if i not in claimed]
m={"version":1,
 "setup_cmd":"cd /verif/checker && GOFLAGS=-mod=mod GOPROXY=off GOSUMDB=off GOTOOLCHAIN=local GOWORK=off go build -o /verif/bin/galaxycheck .",
 "hooks":{"guard":"verif","enable":"none needed: static analysis reads the sources of /repo's working tree; nothing is built with hooks","baseline_off_cmd":"/verif/scripts/baseline.sh /repo","source_commits":[],"add_only":True},
 "engines":[{"name":"galaxycheck","path":"checker/","serves_properties":[c["property_id"] for c in checks],"kind_free_text":"custom static analyzer over go/types + go/ssa (x/tools v0.29.0): lockset/guarded-by engine, CFG path rules (dominance, error edges, guards), freshness/dataflow rules, writer/reader agreement tables"}],
 "checks":checks,
 "notes":"Every check re-loads and type-checks /repo's current working tree on each run (no cache). Exit 1 + VIOLATION line on any violated or undecided obligation, unresolved anchor, type error or analysis panic. Findings repaired in /repo are listed as fixed in known_findings.json.",
 "not_applicable":na}
json.dump(m,open('/verif/MANIFEST.json','w'),indent=1)
print("claimed",len(checks),"n/a",len(na))
