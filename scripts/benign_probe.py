#!/usr/bin/env python3
"""Applies each behaviour-preserving edit of mutants/benign.py in memory and runs ALL quick checks: every one must
stay silent (no false alarm). usage: benign_probe.py [name ...]"""
import json,os,subprocess,tempfile,sys
sys.path.insert(0,'/verif/mutants'); import benign
bad=0
for name,edits in benign.B.items():
    if sys.argv[1:] and name not in sys.argv[1:]: continue
    ov={}; stale=False
    for f,a,b in edits:
        p='/repo/'+f; s=ov.get(p) or open(p).read()
        if s.count(a)!=1: stale=True; break
        ov[p]=s.replace(a,b)
    if stale: print(name,'STALE'); continue
    fd,path=tempfile.mkstemp(suffix='.json',dir='/dev/shm'); os.write(fd,json.dumps(ov).encode()); os.close(fd)
    r=subprocess.run(['/verif/bin/galaxycheck','-prop','all','-no-evidence','-overlay',path],capture_output=True,text=True); os.unlink(path)
    alarms=[l[:220] for l in r.stdout.splitlines() if '[violated]' in l or '[undecided]' in l or 'cannot' in l]
    print(name,'silent' if r.returncode==0 else 'FALSE ALARM',len(alarms)); [print('   ',x) for x in alarms[:5]]
    bad+= r.returncode!=0
sys.exit(1 if bad else 0)
