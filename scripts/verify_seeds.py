#!/usr/bin/env python3
"""Confirms every sub-agent seeded change myself in scratch worktrees and stores it under /verif/seeded/<id>/<n>/.
For each seed: apply patch -> build -> demo must FAIL -> pinned baseline suite must still pass 98/98 (demo removed)
-> run all galaxycheck quick checks against the patched worktree (which fire?) -> revert -> demo must PASS.
usage: verify_seeds.py [Cxx/a ...]"""
import json,os,re,subprocess,sys,shutil,glob,concurrent.futures as cf
SRC=os.environ.get('SEED_SRC','/tmp/seedout')
NMAP={'/tmp/seedout':{'a':'a','b':'b'},'/tmp/seedout2':{'a':'c','b':'d'},'/tmp/seedout3':{'a':'e','b':'f'},'/tmp/seedout4':{'a':'g','b':'h'},'/tmp/seedout5':{'a':'i','b':'j'},'/tmp/seedout6':{'a':'k','b':'l'},'/tmp/seedout7':{'a':'m','b':'n'},'/tmp/seedout8':{'a':'o','b':'p'},'/tmp/seedout9':{'a':'q','b':'r'}}[SRC]
ROUND={'/tmp/seedout':1,'/tmp/seedout2':2,'/tmp/seedout3':3,'/tmp/seedout4':4,'/tmp/seedout5':5,'/tmp/seedout6':6,'/tmp/seedout7':7,'/tmp/seedout8':8,'/tmp/seedout9':9}[SRC]
ENV=dict(os.environ,GOFLAGS='-mod=mod',GOPROXY='off',GOSUMDB='off',GOTOOLCHAIN='local')
ENV.pop('GOWORK',None)
def sh(cmd,cwd=None,timeout=3000):
    r=subprocess.run(cmd,shell=True,cwd=cwd,env=ENV,capture_output=True,text=True,timeout=timeout)
    return r.returncode,(r.stdout+r.stderr)
def one(seed):
    pid,n=seed.split('/')
    d=f'{SRC}/{seed}'
    out=f'/verif/seeded/{pid}/{NMAP[n]}'
    os.makedirs(out,exist_ok=True)
    demos=glob.glob(d+'/*_test.go')
    notes=open(d+'/NOTES.md').read() if os.path.exists(d+'/NOTES.md') else ''
    meta={'property':pid,'seed':pid+'/'+NMAP[n],'round':ROUND,'ran':[]}
    wt=f'/tmp/vs-{pid}{NMAP[n]}'
    sh(f'git -C /repo worktree remove --force {wt}; git -C /repo worktree prune')
    rc,o=sh(f'git -C /repo worktree add -q --detach {wt} HEAD')
    try:
        rc,o=sh(f'git apply {d}/patch.diff',cwd=wt); meta['patch_applies']=rc==0
        if rc!=0: meta['error']=o[-500:]; return meta
        rc,o=sh('go build ./...',cwd=wt); meta['builds']=rc==0
        # demo paths
        placed=[]
        for demo in demos:
            base=os.path.basename(demo)
            m=re.findall(r'((?:pkg|cni)/[A-Za-z0-9_/.-]*?)'+re.escape(base),notes)
            pkgdir=m[0] if m else None
            if not pkgdir:
                m2=re.findall(r'((?:pkg|cni)/[A-Za-z0-9_/-]+/)',notes)
                pkgdir=m2[0] if m2 else None
            if not m:
                # "<pkg>_seed_x_test.go" stored under another name than the intended one
                for pre in ('floatingip_','schedulerplugin_','api_'):
                    if base.startswith(pre):
                        m3=re.findall(r'((?:pkg|cni)/[A-Za-z0-9_/.-]*?/'+pre[:-1]+r'/)'+re.escape(base[len(pre):]),notes)
                        if m3: pkgdir=m3[0]; base=base[len(pre):]
            placed.append((demo,pkgdir,base))
        meta['demo']=[{'file':b,'intended_path':(p or '')+b} for _,p,b in placed]
        def run_demo():
            res=[]
            for demo,pkgdir,base in placed:
                shutil.copy(demo,f'{wt}/{pkgdir}{base}')
                tests=re.findall(r'^func (Test\w+)\(',open(demo).read(),re.M)
                race='-race ' if 'race' in open(demo).read().lower() or '-race' in notes else ''
                cmd=f"go test {race}-vet=off -count=1 -timeout 600s -run '^({'|'.join(tests)})$' ./{pkgdir}"
                rc,o=sh(cmd,cwd=wt)
                res.append((cmd,rc,o[-1500:]))
            return res
        r1=run_demo()
        meta['demo_fails_with_patch']=all(rc!=0 for _,rc,_ in r1)
        meta['ran']+= [{'cmd':c,'exit':rc,'tail':o[-400:]} for c,rc,o in r1]
        for demo,pkgdir,base in placed: os.remove(f'{wt}/{pkgdir}{base}')
        rc,o=sh(f'/verif/scripts/baseline.sh {wt}'); meta['suite_passes_with_patch']=rc==0; meta['suite_summary']=o.strip()[-300:]
        meta['ran'].append({'cmd':f'/verif/scripts/baseline.sh <worktree with patch>','exit':rc})
        # my checks
        rc,o=sh(f'/verif/bin/galaxycheck -repo {wt} -prop all -no-evidence',timeout=600)
        fired={}
        for line in o.splitlines():
            m=re.match(r'^(\S+): (C\d+\.R\d+\w*) (.*?) \[(violated|undecided)\]: (.*)$',line)
            if m: fired.setdefault(m.group(2),[]).append(m.group(3)+': '+m.group(5)[:160])
        props=sorted(set(re.findall(r'VIOLATION property=(C\d+)',o)))
        meta['checks_that_fire']={'properties':props,'rules':{k:v[:2] for k,v in fired.items()}}
        meta['detected_by_own_property']=pid in props
        sh('git checkout -- .',cwd=wt)
        r2=run_demo()
        meta['demo_passes_without_patch']=all(rc==0 for _,rc,_ in r2)
        meta['ran']+= [{'cmd':c+'   (clean tree)','exit':rc,'tail':o[-300:]} for c,rc,o in r2]
        # what it needs to manifest: first paragraph mentioning 'need'
        need=[l.strip() for l in notes.splitlines() if re.search(r'need|manifest|trigger',l,re.I)]
        meta['needs_to_manifest']=' '.join(need[:4])[:900]
        for f in [d+'/patch.diff',d+'/NOTES.md']+demos:
            if os.path.exists(f): shutil.copy(f,out)
        meta['confirmed']=bool(meta.get('patch_applies') and meta.get('builds') and meta['demo_fails_with_patch'] and meta['suite_passes_with_patch'] and meta['demo_passes_without_patch'])
    except Exception as e:
        meta['error']=repr(e)
    finally:
        sh(f'git -C /repo worktree remove --force {wt}; git -C /repo worktree prune')
    json.dump(meta,open(out+'/meta.json','w'),indent=1)
    return meta
seeds=sys.argv[1:] or sorted(s[len(SRC)+1:] for s in glob.glob(SRC+'/C*/[ab]'))
with cf.ThreadPoolExecutor(4) as ex:
    for m in ex.map(one,seeds):
        print(m.get('seed'),'confirmed=',m.get('confirmed'),'fails_with=',m.get('demo_fails_with_patch'),'suite=',m.get('suite_passes_with_patch'),'passes_without=',m.get('demo_passes_without_patch'),'fired=',m.get('checks_that_fire',{}).get('properties'),m.get('error',''),flush=True)
