#!/bin/bash
# usage: bt.sh <binary> <patchdir> [prop...]   applies the patch to /repo, runs the binary on the properties (default all), reverts
BIN=$1; P=$2; shift; shift
git -C /repo apply $P/patch.diff || exit 2
for pr in ${@:-all}; do $BIN -prop $pr -no-evidence 2>&1 | grep -E "violated|undecided|quick:" | grep -v " 0 failing" | cut -c1-${BTW:-260}; done
git -C /repo checkout -- .
