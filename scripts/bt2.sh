#!/bin/bash
# usage: bt2.sh <patchdir> [prop...]  in-memory
python3 - "$@" <<'PY'
import sys,os,json,subprocess,tempfile,shutil
d=sys.argv[1]; props=sys.argv[2:] or ['all']
tmp=tempfile.mkdtemp(dir='/dev/shm')
files=[l[6:].strip() for l in open(d+'/patch.diff') if l.startswith('+++ b/')]
for f in files:
    os.makedirs(os.path.dirname(os.path.join(tmp,f)),exist_ok=True); shutil.copy('/repo/'+f,os.path.join(tmp,f))
pr=subprocess.run(['patch','-p1','-s','-d',tmp,'-i',d+'/patch.diff'])
ov={'/repo/'+f:open(os.path.join(tmp,f)).read() for f in files}; shutil.rmtree(tmp)
open('/dev/shm/bt2.json','w').write(json.dumps(ov))
for p in props:
    o=subprocess.run([os.environ.get('GALAXYCHECK','/tmp/gc-dev'),'-prop',p,'-no-evidence','-overlay','/dev/shm/bt2.json'],capture_output=True,text=True).stdout
    for l in o.splitlines():
        if ('violated' in l or 'undecided' in l or 'cannot' in l): print(l[:int(os.environ.get('BTW','260'))])
PY
