#!/usr/bin/env python3
"""Runs every hand-written mutant against every property it names (in memory) and prints a table."""
import json,os,subprocess,sys,tempfile,concurrent.futures as cf
sys.path.insert(0,'/verif/mutants'); import mutants
jobs=[]
for m in mutants.M:
    p=os.path.join('/repo',m['file']); s=open(p).read()
    ms=mutants.apply(m,s)
    if ms is None:
        print("STALE",m['id']); continue
    for prop in m['props']: jobs.append((m['id'],prop,{p:ms}))
def run(j):
    id,prop,ov=j
    fd,path=tempfile.mkstemp(suffix='.json',dir='/dev/shm'); os.write(fd,json.dumps(ov).encode()); os.close(fd)
    p=subprocess.run(['/verif/bin/galaxycheck','-prop',prop,'-no-evidence','-overlay',path],capture_output=True,text=True); os.unlink(path)
    if 'cannot analyse' in p.stdout: return id,prop,'NOCOMPILE',p.stdout[-400:]
    fired=sorted(set(l.split(': ')[1].split(' ')[0] for l in p.stdout.splitlines() if ('[violated]' in l or '[undecided]' in l) and ': ' in l))
    return id,prop,('detected' if p.returncode==1 else 'MISSED'),','.join(fired)
with cf.ThreadPoolExecutor(8) as ex:
    for r in ex.map(run,jobs): print(*r,flush=True)
