#!/bin/bash
# Runs the pinned baseline suite (guard off) on a tree (default /repo) and compares with BASELINE.json stable_pass.
# usage: baseline.sh [dir]
DIR=${1:-/repo}
export GOFLAGS=-mod=mod GOPROXY=off GOSUMDB=off GOTOOLCHAIN=local
unset GOWORK
OUT=$(mktemp /tmp/baseline.XXXXXX.json)
(cd "$DIR" && go test -mod=mod -json -vet=off -count=1 -timeout 25m ./... > "$OUT" 2>/dev/null)
python3 - "$OUT" <<'PY'
import json,sys
passed=set()
for l in open(sys.argv[1]):
    try: e=json.loads(l)
    except Exception: continue
    if e.get('Action')=='pass' and e.get('Test'):
        passed.add(e['Package']+'::'+e['Test'])
base=set(json.load(open('/root/.vp/BASELINE.json'))['stable_pass'])
missing=sorted(base-passed)
print("baseline stable:",len(base),"passed now:",len(base&passed),"missing:",len(missing))
for m in missing: print("  MISSING",m)
sys.exit(1 if missing else 0)
PY
rc=$?
rm -f "$OUT"
exit $rc
