#!/usr/bin/env python3
"""usage: mut.py <prop|all> <repo-relative-file> <find> <replace> [more triples of file find replace]
Runs galaxycheck on an in-memory variant (packages overlay) of /repo; nothing is written to /repo."""
import json,sys,subprocess,tempfile,os
prop=sys.argv[1]
args=sys.argv[2:]
ov={}
for i in range(0,len(args),3):
    f,find,rep=args[i:i+3]
    p=os.path.join('/repo',f)
    s=ov.get(p) or open(p).read()
    if s.count(find)!=1:
        print("STALE: find matches %d times in %s"%(s.count(find),f)); sys.exit(3)
    ov[p]=s.replace(find,rep)
fd,path=tempfile.mkstemp(prefix='ov',suffix='.json',dir='/dev/shm')
os.write(fd,json.dumps(ov).encode()); os.close(fd)
r=subprocess.run(['/verif/bin/galaxycheck','-prop',prop,'-no-evidence','-overlay',path],capture_output=True,text=True)
os.unlink(path)
print(r.stdout[-6000:]); print(r.stderr[-2000:]); print("exit",r.returncode)
