#!/usr/bin/env python3
"""Records, for the round-2 seeds, what the checker FROZEN before round 2 was read (binary given as argv[1]) detects.
Applies each patch to /repo, runs the frozen binary on all properties, reverts. Writes /verif/seeded/round2_frozen.json"""
import json,glob,subprocess,sys,re,os
frozen=sys.argv[1]
REPO=os.environ.get('FROZEN_REPO','/repo')  # a scratch worktree at the commit the seeds were made on, when /repo has moved on since
out_path=sys.argv[3] if len(sys.argv)>3 else '/verif/seeded/round2_frozen.json'
res=json.load(open(out_path)) if os.path.exists(out_path) else {}
for d in sorted(glob.glob((sys.argv[2] if len(sys.argv)>2 else '/tmp/seedout2')+'/C*/[ab]')):
    seed='/'.join(d.split('/')[-2:])
    if seed in res or not os.path.exists(d+'/patch.diff') or not os.path.exists(d+'/NOTES.md'): continue
    if subprocess.run(['git','-C',REPO,'status','--porcelain'],capture_output=True,text=True).stdout.strip(): sys.exit('/repo not clean')
    if subprocess.run(['git','-C',REPO,'apply',d+'/patch.diff']).returncode!=0: res[seed]={'error':'patch does not apply'}; continue
    try:
        o=subprocess.run([frozen,'-prop','all','-no-evidence','-repo',REPO],capture_output=True,text=True).stdout
    finally:
        subprocess.run(['git','-C',REPO,'checkout','--','.'])
    props=sorted(set(re.findall(r'VIOLATION property=(C\d+)',o)))
    rules=sorted(set(m.group(1) for m in re.finditer(r': (C\d+\.R\d+) .*\[(?:violated|undecided)\]',o)))
    res[seed]={'properties':props,'rules':rules,'own':seed.split('/')[0] in props}
    print(seed,res[seed])
json.dump(res,open(out_path,'w'),indent=1)
