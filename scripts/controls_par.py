#!/usr/bin/env python3
"""Runs every stored negative control (benign_patches/*/*/patch.diff) against all quick checks, in memory (packages overlay),
N at a time. Prints the controls that raise an alarm. usage: controls_par.py [binary] [workers]"""
import glob,json,os,subprocess,sys,tempfile,shutil
from concurrent.futures import ThreadPoolExecutor
BIN=sys.argv[1] if len(sys.argv)>1 else '/verif/bin/galaxycheck'
W=int(sys.argv[2]) if len(sys.argv)>2 else 8
def run(d):
    tmp=tempfile.mkdtemp(dir='/dev/shm')
    try:
        files=[l[6:].strip() for l in open(d+'/patch.diff') if l.startswith('+++ b/')]
        for f in files:
            os.makedirs(os.path.dirname(os.path.join(tmp,f)),exist_ok=True); shutil.copy('/repo/'+f,os.path.join(tmp,f))
        if subprocess.run(['patch','-p1','-s','-d',tmp,'-i',d+'/patch.diff'],capture_output=True).returncode: return d,['PATCH DOES NOT APPLY']
        ov={'/repo/'+f:open(os.path.join(tmp,f)).read() for f in files}
    finally: shutil.rmtree(tmp,ignore_errors=True)
    fd,path=tempfile.mkstemp(suffix='.json',dir='/dev/shm'); os.write(fd,json.dumps(ov).encode()); os.close(fd)
    o=subprocess.run([BIN,'-prop','all','-no-evidence','-overlay',path],capture_output=True,text=True).stdout; os.unlink(path)
    return d,[l[:240] for l in o.splitlines() if '[violated]' in l or '[undecided]' in l or 'cannot' in l]
ds=sorted(os.path.dirname(p) for p in glob.glob('/verif/benign_patches/*/*/patch.diff'))
bad=0
with ThreadPoolExecutor(W) as ex:
    for d,al in ex.map(run,ds):
        if al:
            bad+=1; print('ALARM','/'.join(d.split('/')[-2:]),len(al))
            for a in al[:4]: print('    ',a)
print(len(ds),'controls,',bad,'with alarms')
