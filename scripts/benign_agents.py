#!/usr/bin/env python3
"""Runs ALL quick checks on every behaviour-preserving refactoring delivered by a sub-agent (/tmp/benign/<area>/<n>/patch.diff):
apply to /repo -> build -> galaxycheck -prop all -> revert. A patch that keeps every check silent is stored under
/verif/benign_patches/<area>/<n>/ (patch.diff, NOTES.md, meta.json accepted=true) and becomes a negative control of the
thorough tier. An alarm is printed for triage (false alarm of a rule, or a refactoring that is not behaviour-preserving).
usage: benign_agents.py [area ...]"""
import glob,json,os,re,shutil,subprocess,sys
ENV=dict(os.environ,GOFLAGS='-mod=mod',GOPROXY='off',GOSUMDB='off',GOTOOLCHAIN='local'); ENV.pop('GOWORK',None)
SRC=os.environ.get('BENIGN_SRC','/tmp/benign')
import tempfile
BIN=os.environ.get('GALAXYCHECK','/verif/bin/galaxycheck')
for d in sorted(glob.glob(SRC+'/*/*/patch.diff')):
    d=os.path.dirname(d); area,n=d.split('/')[-2:]
    if sys.argv[1:] and area not in sys.argv[1:]: continue
    # in memory: the patched files go into a packages overlay, /repo is not touched
    tmp=tempfile.mkdtemp(dir='/dev/shm')
    try:
        files=[l[6:].strip() for l in open(d+'/patch.diff') if l.startswith('+++ b/')]
        for f in files:
            os.makedirs(os.path.dirname(os.path.join(tmp,f)),exist_ok=True)
            shutil.copy(os.path.join('/repo',f),os.path.join(tmp,f))
        pr=subprocess.run(['patch','-p1','-s','-d',tmp,'-i',d+'/patch.diff'],capture_output=True,text=True)
        if pr.returncode!=0:
            print(area,n,'PATCH DOES NOT APPLY'); continue
        ov={os.path.join('/repo',f):open(os.path.join(tmp,f)).read() for f in files}
    finally:
        shutil.rmtree(tmp,ignore_errors=True)
    fd,path=tempfile.mkstemp(suffix='.json',dir='/dev/shm'); os.write(fd,json.dumps(ov).encode()); os.close(fd)
    o=subprocess.run([BIN,'-prop','all','-no-evidence','-overlay',path],capture_output=True,text=True).stdout; os.unlink(path)
    alarms=[l[:260] for l in o.splitlines() if '[violated]' in l or '[undecided]' in l or 'cannot' in l]
    tag=os.environ.get('BENIGN_TAG','')
    out='/verif/benign_patches/%s%s/%s'%(area,tag,n)
    meta={'id':area+tag+'/'+n,'alarms':alarms,'accepted':not alarms}
    try:
        prev=json.load(open(out+'/meta.json'))
        if 'rebased' in prev: meta['rebased']=prev['rebased']
    except Exception: pass
    if os.path.exists(d+'/REBASED'): meta['rebased']=open(d+'/REBASED').read().strip()
    if not alarms:
        os.makedirs(out,exist_ok=True)
        if os.path.realpath(d)!=os.path.realpath(out): shutil.copy(d+'/patch.diff',out+'/patch.diff')
        if os.path.exists(d+'/NOTES.md') and os.path.realpath(d)!=os.path.realpath(out): shutil.copy(d+'/NOTES.md',out+'/NOTES.md')
        json.dump(meta,open(out+'/meta.json','w'),indent=1)
    print(area,n,'silent' if not alarms else 'ALARM %d'%len(alarms))
    for a in alarms[:6]: print('    ',a)
