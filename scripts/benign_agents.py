#!/usr/bin/env python3
"""Runs ALL quick checks on every behaviour-preserving refactoring delivered by a sub-agent (/tmp/benign/<area>/<n>/patch.diff):
apply to /repo -> build -> galaxycheck -prop all -> revert. A patch that keeps every check silent is stored under
/verif/benign_patches/<area>/<n>/ (patch.diff, NOTES.md, meta.json accepted=true) and becomes a negative control of the
thorough tier. An alarm is printed for triage (false alarm of a rule, or a refactoring that is not behaviour-preserving).
usage: benign_agents.py [area ...]"""
import glob,json,os,re,shutil,subprocess,sys
ENV=dict(os.environ,GOFLAGS='-mod=mod',GOPROXY='off',GOSUMDB='off',GOTOOLCHAIN='local'); ENV.pop('GOWORK',None)
SRC=os.environ.get('BENIGN_SRC','/tmp/benign')
for d in sorted(glob.glob(SRC+'/*/*/patch.diff')):
    d=os.path.dirname(d); area,n=d.split('/')[-2:]
    if sys.argv[1:] and area not in sys.argv[1:]: continue
    if subprocess.run(['git','-C','/repo','status','--porcelain'],capture_output=True,text=True).stdout.strip(): sys.exit('/repo not clean')
    if subprocess.run(['git','-C','/repo','apply',d+'/patch.diff']).returncode!=0:
        print(area,n,'PATCH DOES NOT APPLY'); continue
    try:
        b=subprocess.run('go build ./...',shell=True,cwd='/repo',env=ENV,capture_output=True,text=True)
        o=subprocess.run(['/verif/bin/galaxycheck','-prop','all','-no-evidence'],capture_output=True,text=True).stdout if b.returncode==0 else 'BUILD FAILED '+b.stderr[-300:]
    finally:
        subprocess.run(['git','-C','/repo','checkout','--','.'])
    alarms=[l[:260] for l in o.splitlines() if '[violated]' in l or '[undecided]' in l or 'BUILD FAILED' in l or 'cannot' in l]
    out='/verif/benign_patches/%s/%s'%(area,n)
    meta={'id':area+'/'+n,'alarms':alarms,'accepted':not alarms}
    if not alarms:
        os.makedirs(out,exist_ok=True)
        shutil.copy(d+'/patch.diff',out+'/patch.diff')
        if os.path.exists(d+'/NOTES.md'): shutil.copy(d+'/NOTES.md',out+'/NOTES.md')
        json.dump(meta,open(out+'/meta.json','w'),indent=1)
    print(area,n,'silent' if not alarms else 'ALARM %d'%len(alarms))
    for a in alarms[:6]: print('    ',a)
