#!/usr/bin/env python3
"""Assembles DESIGN.md from scripts/design_head.md + the engine/convention sections and the appendix of the
design-round text (scripts/design_parts.json) + scripts/design_tail.md + the seed table computed from seeded/*/meta.json."""
import json,glob,os
parts=json.load(open('/verif/scripts/design_parts.json'))
descs=json.load(open('/verif/scripts/seed_descriptions.json'))
frozen=json.load(open('/verif/seeded/round2_frozen.json')) if os.path.exists('/verif/seeded/round2_frozen.json') else {}
def table(pattern):
    r2=any(x in pattern for x in ('[cd]','[ef]','[gh]','[ij]','[kl]','[mn]','[op]','[qr]'))
    t="| seed | change (needs a specific interleaving / fault / history / input to manifest) | "+("frozen checker (before round 2 was read) | " if r2 else "")+"caught by (properties) | rules that fire |\n|---|---|---|---|"+("---|" if r2 else "")+"\n"
    n=d=0
    for f in sorted(glob.glob(pattern)):
        m=json.load(open(f))
        if not m.get('confirmed'): continue
        n+=1; d+=bool(m.get('detected_by_own_property'))
        props=m['checks_that_fire']['properties']; rules=sorted(m['checks_that_fire']['rules'].keys())
        if r2:
            f=frozen.get(m['seed'],{})
            t+="| %s | %s | %s | %s | %s |\n"%(m['seed'],descs.get(m['seed'],''),(', '.join(f.get('properties',[])) or 'missed')+(' (own)' if f.get('own') else ''),', '.join(props) or '**missed**',', '.join(rules) or '—')
        else:
            t+="| %s | %s | %s | %s |\n"%(m['seed'],descs.get(m['seed'],''),', '.join(props) or '**missed**',', '.join(rules) or '—')
    return t,n,d
t1,n1,d1=table('/verif/seeded/*/[ab]/meta.json')
t2,n2,d2=table('/verif/seeded/*/[cd]/meta.json')
frozen=json.load(open('/verif/seeded/round3_frozen.json')) if os.path.exists('/verif/seeded/round3_frozen.json') else {}
frozen={k.split('/')[0]+'/'+{'a':'e','b':'f'}[k.split('/')[1]]:v for k,v in frozen.items()}
t3,n3,d3=table('/verif/seeded/*/[ef]/meta.json'); f3o=sum(1 for v in frozen.values() if v.get('own')); f3a=sum(1 for v in frozen.values() if v.get('properties')); f3n=len(frozen)
frozen=json.load(open('/verif/seeded/round4_frozen.json')) if os.path.exists('/verif/seeded/round4_frozen.json') else {}
frozen={k.split('/')[0]+'/'+{'a':'g','b':'h'}[k.split('/')[1]]:v for k,v in frozen.items()}
t4,n4,d4=table('/verif/seeded/*/[gh]/meta.json'); f4o=sum(1 for v in frozen.values() if v.get('own')); f4a=sum(1 for v in frozen.values() if v.get('properties')); f4n=len(frozen)
frozen=json.load(open('/verif/seeded/round5_frozen.json')) if os.path.exists('/verif/seeded/round5_frozen.json') else {}
frozen={k.split('/')[0]+'/'+{'a':'i','b':'j'}[k.split('/')[1]]:v for k,v in frozen.items()}
t5,n5,d5=table('/verif/seeded/*/[ij]/meta.json'); f5o=sum(1 for v in frozen.values() if v.get('own')); f5a=sum(1 for v in frozen.values() if v.get('properties')); f5n=len(frozen)
frozen=json.load(open('/verif/seeded/round6_frozen.json')) if os.path.exists('/verif/seeded/round6_frozen.json') else {}
frozen={k.split('/')[0]+'/'+{'a':'k','b':'l'}[k.split('/')[1]]:v for k,v in frozen.items()}
t6,n6,d6=table('/verif/seeded/*/[kl]/meta.json'); f6o=sum(1 for v in frozen.values() if v.get('own')); f6a=sum(1 for v in frozen.values() if v.get('properties')); f6n=len(frozen)
frozen=json.load(open('/verif/seeded/round7_frozen.json')) if os.path.exists('/verif/seeded/round7_frozen.json') else {}
frozen={k.split('/')[0]+'/'+{'a':'m','b':'n'}[k.split('/')[1]]:v for k,v in frozen.items()}
t7,n7,d7=table('/verif/seeded/*/[mn]/meta.json'); f7o=sum(1 for v in frozen.values() if v.get('own')); f7a=sum(1 for v in frozen.values() if v.get('properties')); f7n=len(frozen)
frozen=json.load(open('/verif/seeded/round8_frozen.json')) if os.path.exists('/verif/seeded/round8_frozen.json') else {}
frozen={k.split('/')[0]+'/'+{'a':'o','b':'p'}[k.split('/')[1]]:v for k,v in frozen.items()}
t8,n8,d8=table('/verif/seeded/*/[op]/meta.json'); f8o=sum(1 for v in frozen.values() if v.get('own')); f8a=sum(1 for v in frozen.values() if v.get('properties')); f8n=len(frozen)
frozen=json.load(open('/verif/seeded/round9_frozen.json')) if os.path.exists('/verif/seeded/round9_frozen.json') else {}
frozen={k.split('/')[0]+'/'+{'a':'q','b':'r'}[k.split('/')[1]]:v for k,v in frozen.items()}
t9,n9,d9=table('/verif/seeded/*/[qr]/meta.json'); f9o=sum(1 for v in frozen.values() if v.get('own')); f9a=sum(1 for v in frozen.values() if v.get('properties')); f9n=len(frozen)
frozen=json.load(open('/verif/seeded/round2_frozen.json')) if os.path.exists('/verif/seeded/round2_frozen.json') else {}
head=open('/verif/scripts/design_head.md').read(); tail=open('/verif/scripts/design_tail.md').read()
r2=open('/verif/scripts/design_round2.md').read() if os.path.exists('/verif/scripts/design_round2.md') else ''
fo=sum(1 for v in frozen.values() if v.get('own')); fa=sum(1 for v in frozen.values() if v.get('properties'))
r2=r2.replace('@@SEEDTABLE2@@',t2).replace('@@N2@@',str(n2)).replace('@@D2@@',str(d2)).replace('@@FO@@',str(fo)).replace('@@FA@@',str(fa)).replace('@@FN@@',str(len(frozen)))
r3=open('/verif/scripts/design_round3.md').read() if os.path.exists('/verif/scripts/design_round3.md') else ''
r3=r3.replace('@@SEEDTABLE3@@',t3).replace('@@N3@@',str(n3)).replace('@@D3@@',str(d3)).replace('@@F3O@@',str(f3o)).replace('@@F3A@@',str(f3a)).replace('@@F3N@@',str(f3n))
r4=open('/verif/scripts/design_round4.md').read() if os.path.exists('/verif/scripts/design_round4.md') else ''
r4=r4.replace('@@SEEDTABLE4@@',t4).replace('@@N4@@',str(n4)).replace('@@D4@@',str(d4)).replace('@@F4O@@',str(f4o)).replace('@@F4A@@',str(f4a)).replace('@@F4N@@',str(f4n))
r5=open('/verif/scripts/design_round5.md').read() if os.path.exists('/verif/scripts/design_round5.md') else ''
r5=r5.replace('@@SEEDTABLE5@@',t5).replace('@@N5@@',str(n5)).replace('@@D5@@',str(d5)).replace('@@F5O@@',str(f5o)).replace('@@F5A@@',str(f5a)).replace('@@F5N@@',str(f5n))
r6=open('/verif/scripts/design_round6.md').read() if os.path.exists('/verif/scripts/design_round6.md') else ''
r6=r6.replace('@@SEEDTABLE6@@',t6).replace('@@N6@@',str(n6)).replace('@@D6@@',str(d6)).replace('@@F6O@@',str(f6o)).replace('@@F6A@@',str(f6a)).replace('@@F6N@@',str(f6n))
r7=open('/verif/scripts/design_round7.md').read() if os.path.exists('/verif/scripts/design_round7.md') else ''
r7=r7.replace('@@SEEDTABLE7@@',t7).replace('@@N7@@',str(n7)).replace('@@D7@@',str(d7)).replace('@@F7O@@',str(f7o)).replace('@@F7A@@',str(f7a)).replace('@@F7N@@',str(f7n))
r8=open('/verif/scripts/design_round8.md').read() if os.path.exists('/verif/scripts/design_round8.md') else ''
r8=r8.replace('@@SEEDTABLE8@@',t8).replace('@@N8@@',str(n8)).replace('@@D8@@',str(d8)).replace('@@F8O@@',str(f8o)).replace('@@F8A@@',str(f8a)).replace('@@F8N@@',str(f8n))
r9=open('/verif/scripts/design_round9.md').read() if os.path.exists('/verif/scripts/design_round9.md') else ''
r9=r9.replace('@@SEEDTABLE9@@',t9).replace('@@N9@@',str(n9)).replace('@@D9@@',str(d9)).replace('@@F9O@@',str(f9o)).replace('@@F9A@@',str(f9a)).replace('@@F9N@@',str(f9n))
r2=r2+r3+r4+r5+r6+r7+r8+r9
rt=''
for f in sorted(glob.glob('/verif/evidence/C*.json')):
    e=json.load(open(f)); c=e['coverage']
    rt+="**%s** — %d obligations, %d discharged, %d exempt\n\n| rule | decides | instances | minimum |\n|---|---|---|---|\n"%(e['property_id'],c['obligations'],c['discharged'],c['exempt'])
    for r in c['rules']: rt+="| %s | %s | %d | %d |\n"%(r['rule'],r['decides'],r['instances'],r['min_instances'])
    rt+="\n"
out=head+parts['sec2']+parts['sec3']+tail.replace('@@SEEDTABLE@@',t1).replace('@@ROUND2@@',r2).replace('@@RULETABLE@@',rt).replace('@@SEC6@@',parts['sec6']).replace('@@SEC8@@',parts['sec8']).replace('@@SEC4@@',parts['sec4'].replace('## 4. Per-property design','## 11. Appendix — per-property design as written before the code (kept for the reasoning; §4 is authoritative for what is checked)'))
open('/verif/DESIGN.md','w').write(out); print(len(out),'bytes; round1',d1,'/',n1,'round2',d2,'/',n2)
