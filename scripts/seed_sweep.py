#!/usr/bin/env python3
"""Fast regression sweep: every stored seeded change (own property) and every hand mutant (its properties), in memory, in
parallel. Prints only what is NOT detected. usage: seed_sweep.py [binary]"""
import json,os,subprocess,sys,tempfile,shutil,glob,concurrent.futures as cf
BIN=sys.argv[1] if len(sys.argv)>1 else '/verif/bin/galaxycheck'
sys.path.insert(0,'/verif/mutants'); import mutants
jobs=[]
for meta in sorted(glob.glob('/verif/seeded/*/*/meta.json')):
    md=json.load(open(meta))
    if not md.get('confirmed'): continue
    d=os.path.dirname(meta)
    tmp=tempfile.mkdtemp(dir='/dev/shm')
    try:
        files=[l[6:].strip() for l in open(d+'/patch.diff') if l.startswith('+++ b/')]
        for f in files:
            os.makedirs(os.path.dirname(os.path.join(tmp,f)),exist_ok=True); shutil.copy('/repo/'+f,os.path.join(tmp,f))
        pr=subprocess.run(['patch','-p1','-s','-d',tmp,'-i',d+'/patch.diff'],capture_output=True,text=True)
        if pr.returncode!=0: print('STALE seed',md['seed']); continue
        jobs.append(('seed:'+md['seed'],md['property'],{'/repo/'+f:open(os.path.join(tmp,f)).read() for f in files}))
    finally: shutil.rmtree(tmp,ignore_errors=True)
for m in mutants.M:
    p='/repo/'+m['file']; ms=mutants.apply(m,open(p).read())
    if ms is None: print('STALE mutant',m['id']); continue
    for prop in m['props']: jobs.append(('mutant:'+m['id'],prop,{p:ms}))
def run(j):
    name,prop,ov=j
    fd,path=tempfile.mkstemp(suffix='.json',dir='/dev/shm'); os.write(fd,json.dumps(ov).encode()); os.close(fd)
    try: r=subprocess.run([BIN,'-prop',prop,'-no-evidence','-overlay',path],capture_output=True,text=True,timeout=900)
    finally: os.unlink(path)
    st='detected' if r.returncode==1 else ('does-not-compile' if 'cannot analyse' in r.stdout else 'MISSED')
    und=sum(1 for l in r.stdout.splitlines() if '[undecided]' in l); vio=sum(1 for l in r.stdout.splitlines() if '[violated]' in l)
    return name,prop,st,vio,und
n=0;bad=0;onlyund=[]
with cf.ThreadPoolExecutor(8) as ex:
    for name,prop,st,vio,und in ex.map(run,jobs):
        n+=1
        if st!='detected': bad+=1; print(st,name,prop)
        elif vio==0: onlyund.append(name+' '+prop)
print('%d variants, %d not detected; detected only through undecided/vacuity: %d'%(n,bad,len(onlyund)))
for x in onlyund: print('  only-undecided:',x)
