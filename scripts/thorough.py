#!/usr/bin/env python3
"""thorough tier of one property:
 1. galaxycheck -tier thorough (whole program from source + VTA call graph) -> verdict + evidence
 2. liveness sweep: every hand-written mutant (mutants/mutants.py) and every stored seeded change (seeded/<id>/*/patch.diff)
    that names this property is applied IN MEMORY (packages overlay; /repo is not touched) and the property's rules are
    re-run; the rule set must fire. Results are recorded in the evidence (mutants_total / detected / stale / missed);
    they never change the exit status (a stale mutant only means the tree was edited).
usage: thorough.py Cxx"""
import json,os,subprocess,sys,tempfile,shutil,glob,time,concurrent.futures as cf
prop=sys.argv[1]
V='/verif'; REPO=os.environ.get('GALAXY_REPO','/repo')
t0=time.time()
r=subprocess.run([V+'/bin/galaxycheck','-prop',prop,'-tier','thorough','-repo',REPO],capture_output=True,text=True)
sys.stdout.write(r.stdout); sys.stderr.write(r.stderr)
rc=r.returncode
sys.path.insert(0,V+'/mutants')
import mutants
jobs=[]
for m in mutants.M:
    if prop in m['props']:
        p=os.path.join(REPO,m['file'])
        try: s=open(p).read()
        except Exception: jobs.append((m['id'],None,'stale: file missing')); continue
        ms=mutants.apply(m,s)
        if ms is None: jobs.append((m['id'],None,'stale: find does not match exactly once')); continue
        jobs.append((m['id'],{p:ms},''))
for meta in sorted(glob.glob(V+'/seeded/*/*/meta.json')):
    md=json.load(open(meta))
    if not md.get('confirmed'): continue
    d=os.path.dirname(meta)
    # a seed is swept under its own property and under every property whose check is recorded to catch it
    if prop!=md['property'] and prop not in md.get('checks_that_fire',{}).get('properties',[]): continue
    name='seed:'+md['seed']
    tmp=tempfile.mkdtemp(dir='/dev/shm')
    try:
        files=[l[6:].strip() for l in open(d+'/patch.diff') if l.startswith('+++ b/')]
        for f in files:
            os.makedirs(os.path.dirname(os.path.join(tmp,f)),exist_ok=True)
            shutil.copy(os.path.join(REPO,f),os.path.join(tmp,f))
        pr=subprocess.run(['patch','-p1','-s','-d',tmp,'-i',d+'/patch.diff'],capture_output=True,text=True)
        if pr.returncode!=0: jobs.append((name,None,'stale: patch does not apply')); continue
        jobs.append((name,{os.path.join(REPO,f):open(os.path.join(tmp,f)).read() for f in files},''))
    finally:
        shutil.rmtree(tmp,ignore_errors=True)
# negative controls: behaviour-preserving edits must keep this property's check silent
import benign
bjobs=[]
for name,edits in benign.B.items():
    ov={}; ok=True
    for f,a,b in edits:
        p=os.path.join(REPO,f)
        try: s0=ov.get(p) or open(p).read()
        except Exception: ok=False; break
        if s0.count(a)!=1: ok=False; break
        ov[p]=s0.replace(a,b)
    bjobs.append(('benign:'+name,ov if ok else None,'' if ok else 'stale: find does not match once'))
# behaviour-preserving refactorings produced by sub-agents (benign_patches/<area>/<n>/patch.diff), confirmed by their package tests
for meta in sorted(glob.glob(V+'/benign_patches/*/*/meta.json')):
    md=json.load(open(meta))
    if not md.get('accepted'): continue
    d=os.path.dirname(meta)
    name='benign-patch:'+md['id']
    tmp=tempfile.mkdtemp(dir='/dev/shm')
    try:
        files=[l[6:].strip() for l in open(d+'/patch.diff') if l.startswith('+++ b/')]
        for f in files:
            os.makedirs(os.path.dirname(os.path.join(tmp,f)),exist_ok=True)
            shutil.copy(os.path.join(REPO,f),os.path.join(tmp,f))
        pr=subprocess.run(['patch','-p1','-s','-d',tmp,'-i',d+'/patch.diff'],capture_output=True,text=True)
        if pr.returncode!=0: bjobs.append((name,None,'stale: patch does not apply')); continue
        bjobs.append((name,{os.path.join(REPO,f):open(os.path.join(tmp,f)).read() for f in files},''))
    finally:
        shutil.rmtree(tmp,ignore_errors=True)
# a control is swept for this property when it touches a file in which the property has obligations; the others can change
# an obligation of this property only through a helper in another file, and all controls are run against
# ALL properties by scripts/benign_probe.py / scripts/benign_agents.py whenever a rule changes
try:
    dirs=set(json.load(open(V+'/evidence/%s.json'%prop))['coverage'].get('files_with_obligations',[]))
except Exception:
    dirs=set()
def touches(ov):
    if ov is None or not dirs: return True
    return any(os.path.relpath(f,REPO) in dirs for f in ov)
b_all=len(bjobs)
bjobs=[j for j in bjobs if touches(j[1])]
b_na=b_all-len(bjobs)
def run(job):
    name,ov,why=job
    if ov is None: return name,'stale',why
    fd,path=tempfile.mkstemp(prefix='ov',suffix='.json',dir='/dev/shm'); os.write(fd,json.dumps(ov).encode()); os.close(fd)
    try:
        p=subprocess.run([V+'/bin/galaxycheck','-prop',prop,'-no-evidence','-overlay',path,'-repo',REPO],capture_output=True,text=True,timeout=900)
    finally:
        os.unlink(path)
    out=p.stdout
    if 'cannot analyse' in out: return name,'does-not-compile',out[-300:]
    fired=sorted(set(l.split(': ')[1].split(' ')[0] for l in out.splitlines() if ('[violated]' in l or '[undecided]' in l) and ': ' in l))
    return name,('detected' if p.returncode==1 else 'missed'),','.join(fired)
res=[]
with cf.ThreadPoolExecutor(12) as ex:
    for x in ex.map(run,jobs): res.append(x)
bres=[]
with cf.ThreadPoolExecutor(12) as ex:
    for x in ex.map(run,bjobs): bres.append(x)
bsilent=[x for x in bres if x[1]=='missed']; balarm=[x for x in bres if x[1]=='detected']; bstale=[x for x in bres if x[1] in('stale','does-not-compile')]
print("%s negative controls: %d behaviour-preserving variants touching the property's files (%d others not swept), %d silent, %d FALSE ALARMS"%(prop,len(bres),b_na,len(bsilent),len(balarm)))
for x in balarm: print("  FALSE ALARM on behaviour-preserving edit:",x[0],x[2])
det=[x for x in res if x[1]=='detected']; missed=[x for x in res if x[1]=='missed']; stale=[x for x in res if x[1] in('stale','does-not-compile')]
print("%s sweep: %d variants, %d detected, %d missed, %d stale"%(prop,len(res),len(det),len(missed),len(stale)))
for x in missed: print("  MISSED (not an alarm; recorded in evidence):",x[0])
for x in stale: print("  stale:",x[0],x[2])
ev_path=V+'/evidence/%s.json'%prop
try:
    ev=json.load(open(ev_path))
    ev['coverage'].update({'mutants_total':len(res),'mutants_detected':len(det),'mutants_missed':[x[0] for x in missed],'mutants_stale':[x[0]+' ('+x[2]+')' for x in stale],
       'mutants':[{'variant':x[0],'result':x[1],'rules_fired':x[2]} for x in res],
       'benign_total':len(bres),'benign_not_touching_the_propertys_files':b_na,'benign_silent':len(bsilent),'benign_false_alarms':[x[0]+' ('+x[2]+')' for x in balarm],
       'mutant_rule':'each variant is the current tree of /repo with one breaking edit applied in memory (find/replace from mutants/mutants.py, or a stored sub-agent change from seeded/); detected = the property check exits 1 on the variant'})
    ev['wall_s']=round(time.time()-t0,1)
    json.dump(ev,open(ev_path,'w'),indent=1)
except Exception as e:
    print("could not merge sweep results into evidence:",e)
sys.exit(rc)
