package main

func init() {
	register(&propDef{ID: "C14", Title: "Host-port mappings are set up, held and removed completely",
		Explanation: "Decides: (R1) a failed openLocalPort closes every socket opened so far in a loop, records nothing and fails; in the request handler a failed port-mapping setup is cleaned up, mappings are set up only after a successful ADD and removed only after a successful DEL; (R2) setup, cleanup and full sync compute the chain name with hostportChainName(port, port.PodName); (R3) every `-X` line names a hostportChainName result or is behind HasPrefix(chain, KUBE-HP-) and the not-active test; (R4) podPortMap is accessed only under the handler mutex, and CloseHostports closes the sockets and deletes the entry inside the critical section of its lookup; (R5) the full sync writes a chain line (flush), the jump rule and the chain rules for every given port on every path, and restores without flushing the table. (R6) the failure clean-up closes only sockets this call opened, the port file is removed only after a successful clean; (R7) the port file is saved before any iptables rule is written, and setup, full sync and clean rewrite the same set of k8s.Port fields before deriving the rule text (the remover re-derives the exact rule). (R8) cleanupPortMapping closes the pod's sockets on every path, and the restart sync (setupIPtables) skips a pod only on conditions over Status.PodIP, Spec.HostNetwork, the annotations or a decode error. Does not decide inverse/convergence laws over arbitrary NAT tables nor port distinctness (kernel behaviour). (R9) no success return of SetupPortMappingForAllPods is reachable without RestoreAll (empty port set included). (R10) the annotation update reports success only after Pods().Update or through `annotation == new data`. (R11) package portmapping opens sockets with plain net.Listen* calls only: no ListenConfig, no setsockopt. (R12) every OpenHostports / CloseHostports call of the daemon passes k8s.GetPodFullName(..). (R13) an edge that leaves the per-port loop of OpenHostports other than to the code after it passes the closing of what was opened (a closing loop or helper) before any return. (R14 = C08.R14 for portmapping / galaxy / gc / policy) no escaping closure over a per-iteration variable. (R15) in withRetry (and its poll closure) every return reachable from the err != nil edge of the attempt carries an error or is (false, nil). (R16) every MakeChainLine of SetupPortMapping / CleanPortMapping is built from hostportChainName (or is KUBE-MARK-MASQ).",
		Assumptions: []string{"CFG paths; iptables lines are identified by their constant words and the provenance of the chain operand"},
		Run: func(c *Ctx) {
			c.Rule("C14.R15", "a failed attempt never ends the retry as success", 1)
			ruleRetryKeepsError(c, "C14.R15")
			c.Rule("C14.R16", "a per-pod --noflush restore declares only the pod's own chains", 2)
			rulePerPodRestoreDeclaresOwnChainsOnly(c, "C14.R16")
			c.Rule("C14.R1", "open/close pairing, chain naming, -X ownership, full sync completeness", 5)
			ruleHostPorts(c, "C14.R1")
			c.Rule("C14.R6", "failure clean-up closes only own sockets; port file removed only after a successful clean", 1)
			ruleHostPortOwnership(c, "C14.R6")
			c.Rule("C14.R7", "port file before iptables; producers and remover of KUBE-HOSTPORTS rules agree on the port fields", 1)
			rulePortRecordFirst(c, "C14.R7")
			c.Rule("C14.R9", "a full sync succeeds only after the restore (empty port set included)", 1)
			ruleFullSyncAlwaysRestores(c, "C14.R9")
			c.Rule("C14.R13", "no return from inside the per-port loop of OpenHostports", 1)
			ruleNoReturnInsidePortLoop(c, "C14.R13")
			c.Rule("C14.R14", "closures over per-iteration variables do not outlive the iteration (port cleanup)", 1)
			ruleLoopVarClosureEscapesPorts(c, "C14.R14")
			c.Rule("C14.R11", "host-port sockets are bound exclusively (plain listen calls, no socket options)", 2)
			ruleExclusiveListen(c, "C14.R11")
			c.Rule("C14.R12", "one pod key function at every OpenHostports / CloseHostports site", 2)
			rulePortKeyCodec(c, "C14.R12")
			c.Rule("C14.R10", "the port-mapping annotation is rewritten for every sandbox", 1)
			ruleAnnotationPublished(c, "C14.R10")
			c.Rule("C14.R8", "teardown always closes the sockets; the restart sync covers every pod with an ip", 1)
			rulePortTeardownAndResync(c, "C14.R8")
			c.Rule("C14.R2", "port mapping pairing in the request handler", 1)
			ruleRequestPortMapping(c, "C14.R2")
			c.Rule("C14.R4", "podPortMap only under the handler mutex", 2)
			ruleGuardedBy(c, "C14.R4", []string{"PortMappingHandler.Mutex"}, 2)
		}})
}
