package main

import (
	"fmt"
	"go/token"
	"go/types"
	"sort"
	"strings"

	"golang.org/x/tools/go/ssa"
)

// ---------- small helpers of this file ----------

// lastInstr: the terminator of a block (nil for an empty block)
func lastInstr(b *ssa.BasicBlock) ssa.Instruction {
	if len(b.Instrs) == 0 {
		return nil
	}
	return b.Instrs[len(b.Instrs)-1]
}

// isLoopHeader: b has a back edge (a predecessor it dominates)
func isLoopHeader(b *ssa.BasicBlock) bool {
	for _, p := range b.Preds {
		if b.Dominates(p) {
			return true
		}
	}
	return false
}

// controllingIfs: the branches of target's function on which target is control dependent in the simple sense used here:
// exactly one successor of the branch can reach target without passing the branch again. Loop conditions are left out
// (every loop body is control dependent on its header).
func controllingIfs(target ssa.Instruction) []*ssa.If {
	fn := target.Parent()
	var out []*ssa.If
	for _, b := range fn.Blocks {
		iff, ok := lastInstr(b).(*ssa.If)
		if !ok || isLoopHeader(b) {
			continue
		}
		n := 0
		for k := range b.Succs {
			if reachFromEdge(edge{b, k}, newCut().instr(iff)).has(target) {
				n++
			}
		}
		if n == 1 {
			out = append(out, iff)
		}
	}
	return out
}

// isNilTest: cond is `x == nil` / `x != nil`
func isNilTest(cond ssa.Value) bool {
	bo, ok := cond.(*ssa.BinOp)
	if !ok || (bo.Op != token.EQL && bo.Op != token.NEQ) {
		return false
	}
	return isNilConst(bo.X) || isNilConst(bo.Y)
}

// condShape: a position-free description of a branch condition (operator and the field paths / callee names involved)
func condShape(v ssa.Value) string {
	var parts []string
	seen := map[ssa.Value]bool{}
	var walk func(x ssa.Value, d int)
	walk = func(x ssa.Value, d int) {
		if x == nil || seen[x] || d > 6 {
			return
		}
		seen[x] = true
		switch y := x.(type) {
		case *ssa.BinOp:
			parts = append(parts, y.Op.String())
		case *ssa.Call:
			parts = append(parts, "call:"+calleeName(y))
		case *ssa.FieldAddr:
			parts = append(parts, "."+fieldName(y.X.Type(), y.Field))
		case *ssa.Field:
			parts = append(parts, "."+fieldName(y.X.Type(), y.Field))
		case *ssa.Const:
			parts = append(parts, y.String())
		}
		for _, o := range operandsOf(x) {
			walk(o, d+1)
		}
	}
	walk(v, 0)
	sort.Strings(parts)
	return strings.Join(parts, " ")
}

// reachedPhiInputs: the values a (possibly nested) phi can carry when its block is entered during the walk r that began on
// edge from under cut c: only incoming edges whose predecessor was reached and which are not removed by the cut count.
func reachedPhiInputs(v ssa.Value, r *reachSet, from edge, c *cut, depth int) []ssa.Value {
	ph, ok := v.(*ssa.Phi)
	if !ok || depth > 4 {
		return []ssa.Value{v}
	}
	var out []ssa.Value
	for i, pred := range ph.Block().Preds {
		k := -1
		for j, s := range pred.Succs {
			if s == ph.Block() {
				k = j
			}
		}
		if c != nil && k >= 0 && c.edges[edge{pred, k}] {
			continue
		}
		reached := (pred == from.from && k == from.succ)
		if li := lastInstr(pred); li != nil && r.has(li) {
			reached = true
		}
		if !reached {
			continue
		}
		out = append(out, reachedPhiInputs(ph.Edges[i], r, from, c, depth+1)...)
	}
	return out
}

// retCertainlyErr: the error slot of ret certainly carries a non-nil error: a constructed error, or the tested error of a
// call whose ok edge cannot reach this return (`if err := f(); err != nil { return err }`).
func retCertainlyErr(ret *ssa.Return, ei int) bool {
	if ei < 0 || ei >= len(ret.Results) {
		return false
	}
	var one func(v ssa.Value, d int) bool
	one = func(v ssa.Value, d int) bool {
		if nonNilErrOperand(v, nil) {
			return true
		}
		if ph, ok := v.(*ssa.Phi); ok && d < 3 {
			for _, e := range ph.Edges {
				if !one(e, d+1) {
					return false
				}
			}
			return true
		}
		call, _ := callOf(v)
		if call == nil {
			// a load of the variable the error was stored into
			if ld, ok := v.(*ssa.UnOp); ok && ld.Op == token.MUL {
				for _, ref := range *ld.X.Referrers() {
					if st, ok := ref.(*ssa.Store); ok && st.Addr == ld.X {
						if c2, _ := callOf(st.Val); c2 != nil {
							call = c2
						}
					}
				}
			}
		}
		if call == nil {
			return false
		}
		ts := errTests(call)
		if len(ts) == 0 {
			return false
		}
		for _, t := range ts {
			if reachFromEdge(t.OkEdge, nil).has(ret) {
				return false
			}
		}
		return true
	}
	return one(retVal(ret, ei), 0)
}

// dependsOnLocal: like dependsOn, but inside one function only (operands and local cells): no step from a helper's parameter
// to the arguments at its call sites, which is context-insensitive.
func dependsOnLocal(v ssa.Value, target func(ssa.Value) bool) bool {
	seen := map[ssa.Value]bool{}
	var rec func(v ssa.Value, d int) bool
	rec = func(v ssa.Value, d int) bool {
		if v == nil || seen[v] || d > 40 {
			return false
		}
		seen[v] = true
		if target(v) {
			return true
		}
		if ld, ok := v.(*ssa.UnOp); ok && ld.Op == token.MUL {
			if a, ok := ld.X.(*ssa.Alloc); ok {
				for _, ref := range *a.Referrers() {
					if st, ok := ref.(*ssa.Store); ok && st.Addr == a && rec(st.Val, d+1) {
						return true
					}
				}
			}
		}
		if a, isAlloc := v.(*ssa.Alloc); isAlloc {
			// a composite built in a local cell (struct literal, varargs array): what is stored into its parts
			for _, ref := range *a.Referrers() {
				var addr ssa.Value
				switch x := ref.(type) {
				case *ssa.IndexAddr:
					addr = x
				case *ssa.FieldAddr:
					addr = x
				case *ssa.Store:
					// the whole value assigned at once (`temp = f(..)`)
					if x.Addr == ssa.Value(a) && rec(x.Val, d+1) {
						return true
					}
				}
				if addr == nil {
					continue
				}
				for _, r2 := range *addr.Referrers() {
					if st, ok := r2.(*ssa.Store); ok && st.Addr == addr && rec(st.Val, d+1) {
						return true
					}
				}
			}
			return false
		}
		for _, o := range operandsOf(v) {
			if rec(o, d+1) {
				return true
			}
		}
		return false
	}
	return rec(v, 0)
}

// fnsAround: fn, its closures, and the same-package helpers (and their closures) they call, to the given depth
func fnsAround(fn *ssa.Function, depth int) []*ssa.Function {
	seen := map[*ssa.Function]bool{}
	var out []*ssa.Function
	var rec func(f *ssa.Function, d int)
	rec = func(f *ssa.Function, d int) {
		if f == nil || seen[f] {
			return
		}
		seen[f] = true
		out = append(out, f)
		for _, a := range f.AnonFuncs {
			rec(a, d)
		}
		if d == 0 {
			return
		}
		allInstrs(f, func(in ssa.Instruction) {
			if h := helperOf(in, nil); h != nil {
				rec(h, d-1)
			}
			// go p.helper(x) / defer p.helper(x)
			if ci, ok := in.(ssa.CallInstruction); ok {
				if _, isCall := in.(*ssa.Call); !isCall {
					if g := ci.Common().StaticCallee(); g != nil && g.Pkg == f.Pkg && len(g.Blocks) > 0 {
						rec(g, d-1)
					}
				}
			}
		})
	}
	rec(fn, depth)
	return out
}

// isBuiltinCall: call of the named builtin (append, delete, len, ...)
func isBuiltinCall(in ssa.Instruction, name string) (*ssa.Call, bool) {
	call, ok := in.(*ssa.Call)
	if !ok {
		return nil, false
	}
	b, ok := call.Call.Value.(*ssa.Builtin)
	if !ok || b.Name() != name {
		return nil, false
	}
	return call, true
}

// namedStruct: the named struct type behind t (pointers removed), or ""
func namedStructName(t types.Type) string {
	t = deref(t)
	if n, ok := t.(*types.Named); ok {
		return n.Obj().Name()
	}
	return ""
}

// ---------- C04.R14 / C10.R8 / C01.R15 ----------

// ruleEventKeepsItsPod — a queued release event carries the pod object of the delete / finish event it was created for until
// it is handled: the uid guard of unbind compares the stored uid with THAT pod's uid. The pod field of the event type is
// written only when the event is constructed (composite literal), never on an event that came out of the queue.
func ruleEventKeepsItsPod(c *Ctx, rule string) {
	// the event type: element of the channel field `unreleased`
	var evT types.Type
	for _, fn := range c.SrcFns {
		if fn.Pkg == nil || !strings.HasSuffix(fn.Pkg.Pkg.Path(), spPkg) {
			continue
		}
		allInstrs(fn, func(in ssa.Instruction) {
			if s, ok := in.(*ssa.Send); ok && pathEndsWith(s.Chan, "unreleased") {
				evT = deref(s.X.Type())
			}
		})
	}
	if evT == nil {
		c.undecided(rule, nil, "release event type", nil, "no send on the unreleased channel found")
		return
	}
	st, ok := evT.Underlying().(*types.Struct)
	if !ok {
		c.undecided(rule, nil, "release event type", nil, "the queued value is not a struct")
		return
	}
	podField := -1
	for i := 0; i < st.NumFields(); i++ {
		if namedStructName(st.Field(i).Type()) == "Pod" {
			podField = i
		}
	}
	if podField < 0 {
		c.undecided(rule, nil, "release event type", nil, "the queued struct has no *Pod field")
		return
	}
	n := 0
	for _, fn := range c.SrcFns {
		if fn.Pkg == nil || !strings.HasSuffix(fn.Pkg.Pkg.Path(), spPkg) {
			continue
		}
		allInstrs(fn, func(in ssa.Instruction) {
			s, ok := in.(*ssa.Store)
			if !ok {
				return
			}
			fa, ok := s.Addr.(*ssa.FieldAddr)
			if !ok || fa.Field != podField || !types.Identical(deref(fa.X.Type()), evT) {
				return
			}
			n++
			_, fresh := fa.X.(*ssa.Alloc)
			c.ob(rule, fn, "the pod of a release event is set at construction only", s, fresh,
				"store to <event>.pod on a freshly allocated event (composite literal): an event taken from the queue keeps the object (and uid) of the deleted incarnation, so a retry cannot turn into an unbind of a same-named successor")
		})
	}
	if n == 0 {
		c.undecided(rule, nil, "release event construction", nil, "no store to the pod field of the event type found")
	}
	// and the handler hands exactly that field to unbind
	if fn := c.MustFn(rule, spPkg, "(*FloatingIPPlugin).loop"); fn != nil {
		m := 0
		for _, f := range fnsAround(fn, 2) {
			for _, u := range callsLocal(f, "(*FloatingIPPlugin).unbind") {
				m++
				arg := callArgs(u)[0]
				okA := false
				if ld, isLd := arg.(*ssa.UnOp); isLd && ld.Op == token.MUL {
					if fa, isFa := ld.X.(*ssa.FieldAddr); isFa && fa.Field == podField && types.Identical(deref(fa.X.Type()), evT) {
						okA = true
					}
				}
				c.ob(rule, f, "unbind receives the pod of the dequeued event", u, okA, "p.unbind(<event>.pod): the object whose uid the guard compares is the one the delete / finish event carried")
			}
		}
		if m == 0 {
			c.undecided(rule, fn, "unbind call of the release loop", nil, "no call of unbind in loop or its closures")
		}
	}
}

// ---------- C04.R15 / C10.R9 ----------

// ruleAttrWrittenOnlyOnBind — the node name and pod uid recorded for an allocated ip are (re)written only by a bind, which
// runs for the incarnation the scheduler is placing: the event-driven and periodic paths (pod-ip sync, resync, unbind, the
// release loop) see pod objects that may belong to an earlier incarnation and never call UpdateAttr.
func ruleAttrWrittenOnlyOnBind(c *Ctx, rule string) {
	roots := []string{"(*FloatingIPPlugin).syncPodIP", "(*FloatingIPPlugin).syncIP", "(*FloatingIPPlugin).syncPodIPsIntoDB", "(*FloatingIPPlugin).resyncPod",
		"(*FloatingIPPlugin).UpdatePod", "(*FloatingIPPlugin).DeletePod", "(*FloatingIPPlugin).unbind", "(*FloatingIPPlugin).loop"}
	n := 0
	for _, name := range roots {
		fn := c.Fn(spPkg, name)
		if fn == nil {
			continue
		}
		n++
		var bad ssa.CallInstruction
		seen := map[*ssa.Function]bool{}
		var rec func(f *ssa.Function, d int)
		rec = func(f *ssa.Function, d int) {
			if f == nil || seen[f] || d > 4 {
				return
			}
			seen[f] = true
			for _, g := range withAnon(f) {
				for _, u := range callsLocal(g, "IPAM).UpdateAttr") {
					bad = u
				}
				allInstrs(g, func(in ssa.Instruction) {
					if h := helperOf(in, nil); h != nil {
						rec(h, d+1)
					}
				})
			}
		}
		rec(fn, 0)
		var at ssa.Instruction
		if bad != nil {
			at = bad
		}
		c.ob(rule, fn, "owner attributes are not rewritten from an event / resync pod object", at, bad == nil,
			"no IPAM.UpdateAttr reachable (same-package helpers and closures followed): uid and node of an allocated ip are set by Bind only; a stale object of an earlier incarnation cannot overwrite the record of its live successor")
	}
	if n < 4 {
		c.undecided(rule, nil, "event / resync entry points", nil, fmt.Sprintf("only %d of the expected entry points found", n))
	}
	// positive side: the bind path does record them
	if fn := c.MustFn(rule, spPkg, "(*FloatingIPPlugin).allocateIP"); fn != nil {
		c.ob(rule, fn, "bind records uid and node", nil, len(calls(fn, "IPAM).UpdateAttr")) > 0, "allocateIP calls IPAM.UpdateAttr")
	}
}

// ---------- C08.R11 ----------

// ruleStoreDeleteUnconditional — the store primitive that deletes a FloatingIP object deletes it whenever it is called: the
// rollback of a partly created multi-ip allocation (memory not yet updated) and the release paths rely on it; a precondition
// evaluated against the in-memory tables would refuse exactly the rollback deletes.
func ruleStoreDeleteUnconditional(c *Ctx, rule string) {
	fn := c.MustFn(rule, fipPkg, "(*crdIpam).deleteFloatingIP")
	if fn == nil {
		return
	}
	del := calls(fn, "FloatingIPInterface).Delete")
	if len(del) == 0 {
		c.undecided(rule, fn, "client Delete", nil, "no FloatingIPs().Delete call found")
		return
	}
	r := reachFromEntry(fn, newCut().callInstrs(del))
	ok := true
	for _, ret := range returns(fn) {
		if r.has(ret) {
			ok = false
		}
	}
	c.ob(rule, fn, "every call deletes the object", del[0], ok, "no return of deleteFloatingIP is reachable without passing the client's Delete: the primitive has no precondition (in particular none on the in-memory tables, which a rollback has not updated yet)")
	tables := 0
	allInstrsX(fn, func(in ssa.Instruction) {
		if fa, ok := in.(*ssa.FieldAddr); ok {
			if n := fieldName(fa.X.Type(), fa.Field); n == "allocatedFIPs" || n == "unallocatedFIPs" {
				tables++
			}
		}
	})
	c.ob(rule, fn, "the delete primitive does not consult the tables", nil, tables == 0, fmt.Sprintf("%d accesses of allocatedFIPs / unallocatedFIPs in deleteFloatingIP", tables))
}

// ---------- C01.R14 ----------

// ruleBindAnnotationFromLookupOnly — the ip list bind writes into the pod's annotation is built from the ipam lookup alone: the
// IPInfos the pod's own (user-writable) annotation may already carry never flow into it.
func ruleBindAnnotationFromLookupOnly(c *Ctx, rule string) {
	fn := c.MustFn(rule, spPkg, "(*FloatingIPPlugin).allocateIP")
	if fn == nil {
		return
	}
	isIPInfosAddr := func(v ssa.Value) bool {
		fa, ok := v.(*ssa.FieldAddr)
		return ok && fieldName(fa.X.Type(), fa.Field) == "IPInfos"
	}
	n := 0
	allInstrsX(fn, func(in ssa.Instruction) {
		s, ok := in.(*ssa.Store)
		if !ok || !isIPInfosAddr(s.Addr) {
			return
		}
		n++
		tainted := dependsOn(s.Val, func(x ssa.Value) bool {
			ld, ok := x.(*ssa.UnOp)
			return ok && ld.Op == token.MUL && isIPInfosAddr(ld.X)
		})
		c.ob(rule, fn, "the bound ip list does not contain what the pod's annotation carried", s, !tainted,
			"the value stored to <args>.Common.IPInfos does not derive from a read of that field (which was decoded from the pod's own annotation): a pod created from a copy of a running pod's manifest is not bound with the other pod's ip")
	})
	if n == 0 {
		c.undecided(rule, fn, "IPInfos of the bind annotation", nil, "no store to the IPInfos field found in allocateIP")
	}
}

// ---------- C06.R10 ----------

// ruleCacheResetAfterReconfigure — the node -> subnet cache is derived from the configured pools; it is dropped AFTER the
// pools were reconfigured. Dropped before, a request running between the reset and ConfigurePool refills it from the old
// pools and nothing clears it afterwards.
func ruleCacheResetAfterReconfigure(c *Ctx, rule string) {
	type site struct {
		st *ssa.Store
		fn *ssa.Function
	}
	var resets []site
	for _, fn := range c.SrcFns {
		if fn.Pkg == nil || !strings.HasSuffix(fn.Pkg.Pkg.Path(), spPkg) {
			continue
		}
		allInstrs(fn, func(in ssa.Instruction) {
			s, ok := in.(*ssa.Store)
			if !ok {
				return
			}
			fa, ok := s.Addr.(*ssa.FieldAddr)
			if !ok || fieldName(fa.X.Type(), fa.Field) != "nodeSubnet" {
				return
			}
			if _, fresh := fa.X.(*ssa.Alloc); fresh {
				return // the constructor's literal
			}
			resets = append(resets, site{s, fn})
		})
	}
	if len(resets) == 0 {
		c.ob(rule, nil, "the node-subnet cache is dropped on a configuration change", nil, false, "no assignment to the nodeSubnet field outside the constructor")
		return
	}
	cpIn := func(f *ssa.Function) []ssa.CallInstruction {
		var out []ssa.CallInstruction
		for _, g := range withAnon(f) {
			out = append(out, callsAllX(g, "IPAM).ConfigurePool")...)
		}
		return out
	}
	for _, rs := range resets {
		// the named function the reset belongs to
		top := rs.fn
		for top.Parent() != nil {
			top = top.Parent()
		}
		ok := true
		why := ""
		// 1. nothing reconfigures after the reset inside its own function
		if m := c.reachAfter(rs.st, nil).anyCall(cpIn(rs.fn)); m != nil {
			ok, why = false, "ConfigurePool is reachable after the reset ("+c.instrPos(m)+")"
		}
		// 2. a reset inside a helper: nothing reconfigures after the helper returns
		if rs.fn.Parent() == nil {
			for _, cs := range staticSites[rs.fn] {
				caller := cs.Parent()
				if m := c.reachAfter(cs, nil).anyCall(cpIn(caller)); m != nil {
					ok, why = false, "ConfigurePool is reachable after the call of "+rs.fn.Name()+" ("+c.instrPos(m)+")"
				}
			}
		} else {
			// a closure: it must be deferred (runs when the enclosing function returns) or plainly called; a reconfiguration
			// reachable after the point where it runs is an error
			for _, ref := range closureUses(rs.fn) {
				switch u := ref.(type) {
				case *ssa.Defer:
					// runs at function exit: every ConfigurePool of the parent precedes it
				case *ssa.Call:
					if m := c.reachAfter(u, nil).anyCall(cpIn(u.Parent())); m != nil {
						ok, why = false, "ConfigurePool is reachable after the closure ran ("+c.instrPos(m)+")"
					}
				default:
					ok, why = false, "the resetting closure escapes"
				}
			}
		}
		// 3. the function that resets does reconfigure (the reset belongs to a reload)
		if len(cpIn(top)) == 0 {
			// a reset without a reconfiguration in reach is harmless for this rule
			continue
		}
		c.ob(rule, top, "the node-subnet cache is dropped after ConfigurePool, never before", rs.st, ok,
			"no ConfigurePool call is reachable after the reset of p.nodeSubnet: a request between reset and reconfiguration would refill the cache from the old pools for good. "+why)
	}
}

// closureUses: the instructions that use the MakeClosure of anonymous function f (directly or through one local cell)
func closureUses(f *ssa.Function) []ssa.Instruction {
	var out []ssa.Instruction
	p := f.Parent()
	if p == nil {
		return nil
	}
	allInstrs(p, func(in ssa.Instruction) {
		mc, ok := in.(*ssa.MakeClosure)
		if !ok || mc.Fn != ssa.Value(f) {
			return
		}
		for _, ref := range *mc.Referrers() {
			out = append(out, ref)
		}
	})
	if len(out) == 0 {
		// a closure without free variables is referenced as a plain function value
		allInstrs(p, func(in ssa.Instruction) {
			if ci, ok := in.(ssa.CallInstruction); ok && ci.Common().Value == ssa.Value(f) {
				out = append(out, in)
			}
		})
	}
	return out
}

// ---------- C02.R12 ----------

// ruleReserveDefinesAnswer — when the app / pool holds an ip in reserve, filter answers with the node subnets of the reserved
// ips, whatever else is free: the set returned on the `reserved.Len() > 0` edge is the very set the reserved entries were
// collected into, with reserve=true and no error, and no other return is reachable from that edge.
func ruleReserveDefinesAnswer(c *Ctx, rule string) {
	fn := c.MustFn(rule, spPkg, "(*FloatingIPPlugin).getAvailableSubnet")
	if fn == nil {
		return
	}
	ins := calls(fn, "sets.String).Insert")
	if len(ins) == 0 {
		c.undecided(rule, fn, "collection of reserved subnets", nil, "no Insert into the reserved-subnet set found")
		return
	}
	set := recvOf(ins[0])
	if h := ins[0].Parent(); h != fn {
		// the collecting loop lives in a helper: the set is the helper's result
		set = nil
		for _, cs := range staticSites[h] {
			if cs.Parent() != fn {
				continue
			}
			for _, ret := range returns(h) {
				for i := range ret.Results {
					if rv := retVal(ret, i); rv == recvOf(ins[0]) || sameAccessOrValue(unspill(rv), recvOf(ins[0])) {
						if len(ret.Results) == 1 {
							set = cs
						} else {
							for _, ref := range *cs.Referrers() {
								if ex, ok := ref.(*ssa.Extract); ok && ex.Index == i {
									set = ex
								}
							}
						}
					}
				}
			}
		}
		if set == nil {
			c.undecided(rule, fn, "collection of reserved subnets", ins[0], "the set filled in "+h.Name()+" does not come back as a result of its call")
			return
		}
	}
	some := guardEdges(fn, func(v ssa.Value) (bool, int) {
		bo, ok := v.(*ssa.BinOp)
		if !ok {
			return false, 0
		}
		call, ok := bo.X.(*ssa.Call)
		if !ok || !nameMatch(calleeName(call), "sets.String).Len") || !sameAccessOrValue(recvOf(call), set) {
			return false, 0
		}
		k, isC := constIntVal(bo.Y)
		if !isC || k != 0 {
			return false, 0
		}
		switch bo.Op {
		case token.GTR, token.NEQ:
			return true, 0
		case token.EQL, token.LEQ:
			return true, 1
		}
		return false, 0
	})
	if len(some) == 0 {
		c.ob(rule, fn, "a reserved ip decides the answer", ins[0], false, "no test `<reserved subnets>.Len() > 0` found")
		return
	}
	ei := errResultIndex(fn)
	for _, e := range some {
		r := reachFromEdge(e, nil)
		n, ok := 0, true
		why := ""
		for _, ret := range returns(fn) {
			if !r.has(ret) {
				continue
			}
			n++
			for _, v := range reachedPhiInputs(retVal(ret, 0), r, e, nil, 0) {
				if !sameAccessOrValue(unspill(v), set) && v != set {
					ok, why = false, "a return reachable from the edge gives another set"
				}
			}
			for _, v := range reachedPhiInputs(retVal(ret, 1), r, e, nil, 0) {
				if b, isC := constBoolVal(v); !isC || !b {
					ok, why = false, "reserve is not true"
				}
			}
			for _, v := range reachedPhiInputs(retVal(ret, ei), r, e, nil, 0) {
				if !isNilConst(v) {
					ok, why = false, "an error may be returned"
				}
			}
		}
		c.ob(rule, fn, "with an ip in reserve the reserved subnets are the answer", lastInstr(e.from), ok && n > 0,
			"from the `reserved.Len() > 0` edge every return is (the set the reserved entries were inserted into, true, nil): free capacity elsewhere, or the lack of it in the reserved ip's subnet, does not make filter skip the reservation. "+why)
	}
}

// ---------- C03.R10 ----------

// ruleAppLookupErrorsKeep — the owner lookups behind the immutable policy report "the app is gone" only for NotFound: any other
// lookup error is returned (the unbind is retried, the ip stays) — for statefulsets and for scalable custom resources alike.
func ruleAppLookupErrorsKeep(c *Ctx, rule string) {
	n := 0
	for _, name := range []string{"(*FloatingIPPlugin).checkAppAndReplicas", "(*FloatingIPPlugin).getStsReplicas"} {
		fn := c.Fn(spPkg, name)
		if fn == nil {
			continue
		}
		ei := errResultIndex(fn)
		nf := guardEdges(fn, predCall("errors.IsNotFound", nil))
		for _, g := range callsLocal(fn, "GetReplicas", "StatefulSetNamespaceLister).Get", "DeploymentNamespaceLister).Get") {
			ts := errTests(g)
			if len(ts) == 0 {
				c.undecided(rule, fn, "error test of "+shortCallee(g), g, "the lookup's error is not tested")
				continue
			}
			n++
			ok, why := true, ""
			evs := errValues(g)
			for _, t := range ts {
				cu := newCut().edge(nf...)
				r := reachFromEdge(t.ErrEdge, cu)
				m := 0
				for _, ret := range returns(fn) {
					if !r.has(ret) {
						continue
					}
					m++
					for _, v := range reachedPhiInputs(retVal(ret, ei), r, t.ErrEdge, cu, 0) {
						if !nonNilErrOperand(v, evs) {
							ok, why = false, "a return reachable from the error edge (NotFound removed) may carry a nil error"
						}
					}
				}
				if m == 0 {
					ok, why = false, "no return reachable from the error edge"
				}
			}
			c.ob(rule, fn, "a failed lookup of the owner other than NotFound keeps the ip", g, ok && len(nf) > 0,
				"from the err != nil edge of "+shortCallee(g)+", with the IsNotFound edge removed, every return carries the error: 'app does not exist' (which releases an immutable ip for good) is concluded from NotFound only. "+why)
		}
	}
	if n < 2 {
		c.undecided(rule, nil, "owner lookups", nil, fmt.Sprintf("expected the statefulset and the custom-resource lookup, found %d", n))
	}
}

// ---------- C07.R5 ----------

// ruleSizedPoolCountsAll — with a Pool object defining the size, the number compared with it counts every ip of the pool that
// is not in reserve: inside the counting loop, an iteration for an ip keyed differently from the pool prefix can skip the
// increment only on the `!isPoolSizeDefined` side (the per-deployment filter is for unsized shared pools).
func ruleSizedPoolCountsAll(c *Ctx, rule string) {
	fn := c.MustFn(rule, spPkg, "(*FloatingIPPlugin).getAvailableSubnet")
	if fn == nil {
		return
	}
	var sized *ssa.Parameter
	for _, p := range fn.Params {
		if b, ok := p.Type().Underlying().(*types.Basic); ok && b.Kind() == types.Bool {
			sized = p
		}
	}
	if sized == nil {
		c.undecided(rule, fn, "isPoolSizeDefined", nil, "no bool parameter")
		return
	}
	// the limit comparison and the counter
	var counter ssa.Value
	allInstrs(fn, func(in ssa.Instruction) {
		bo, ok := in.(*ssa.BinOp)
		if !ok {
			return
		}
		switch bo.Op {
		case token.GEQ, token.LSS:
			if sameParam(bo.Y, pAt(fn, 3)) {
				counter = bo.X
			}
		case token.LEQ, token.GTR:
			if sameParam(bo.X, pAt(fn, 3)) {
				counter = bo.Y
			}
		}
	})
	if counter == nil {
		c.undecided(rule, fn, "usedCount >= replicas", nil, "limit comparison not found")
		return
	}
	var incs []ssa.Instruction
	allInstrsX(fn, func(in ssa.Instruction) {
		bo, ok := in.(*ssa.BinOp)
		if !ok || bo.Op != token.ADD {
			return
		}
		if k, isC := constIntVal(bo.Y); !isC || k != 1 {
			return
		}
		if loopHeaderOf(bo) == nil {
			return
		}
		if dependsOn(counter, func(x ssa.Value) bool { return x == ssa.Value(bo) }) {
			incs = append(incs, bo)
		}
	})
	if len(incs) == 0 {
		c.undecided(rule, fn, "usedCount++", nil, "no increment feeding the limit comparison found inside a loop")
		return
	}
	hdr := loopHeaderOf(incs[0])
	host := incs[0].Parent() // getAvailableSubnet, or the helper the counting loop was moved into
	// the edge on which the entry is NOT a reserved one (key != pool prefix)
	inUse := guardEdges(host, predNeq(func(v ssa.Value) bool { return pathEndsWith(v, "Key") }, func(v ssa.Value) bool {
		return dependsOn(v, func(x ssa.Value) bool { return isResultOf(x, 0, "(*KeyObj).PoolPrefix") })
	}))
	if len(inUse) == 0 {
		c.undecided(rule, fn, "ip.Key != poolPrefix", nil, "the test that separates reserved from used ips was not found")
		return
	}
	// values that are true whenever isPoolSizeDefined is: the parameter itself, or `isPoolSizeDefined || x` kept in a variable
	// (a phi that is the constant true on the parameter's true edge and otherwise comes from blocks behind its false edge)
	var impliedBySized func(v ssa.Value) bool
	impliedBySized = func(v ssa.Value) bool {
		if v == ssa.Value(sized) {
			return true
		}
		// a bool parameter of the helper that holds the loop: what the call sites pass
		if q, isP := v.(*ssa.Parameter); isP && q.Parent() != fn {
			acts := actualsOf(q)
			if len(acts) == 0 {
				return false
			}
			for _, a := range acts {
				if !impliedBySized(a) {
					return false
				}
			}
			return true
		}
		ph, ok := v.(*ssa.Phi)
		if !ok {
			return false
		}
		var test *ssa.BasicBlock
		for i, pred := range ph.Block().Preds {
			if b, isC := constBoolVal(ph.Edges[i]); isC && b {
				if iff, isIf := lastInstr(pred).(*ssa.If); isIf && iff.Cond == ssa.Value(sized) && pred.Succs[0] == ph.Block() {
					test = pred
				}
			}
		}
		if test == nil {
			return false
		}
		for _, pred := range ph.Block().Preds {
			if pred != test && !test.Succs[1].Dominates(pred) {
				return false
			}
		}
		return true
	}
	notSized := guardEdges(host, negate(predBool(impliedBySized)))
	for _, e := range inUse {
		r := reachFromEdge(e, newCut().instr(incs...).edge(notSized...))
		skipped := r.has(hdr.Instrs[0])
		c.ob(rule, fn, "with a sized pool every used ip of the pool is counted", lastInstr(e.from), !skipped,
			"from the `ip.Key != poolPrefix` edge the next iteration is reached without the increment only through the `!isPoolSizeDefined` edge: the per-deployment prefix filter never applies to a pool whose Pool object defines the size")
	}
}

// ---------- C07.R6 ----------

// rulePreallocBoundCarries — pre-allocation asks for at most `size - held` ips in total: the counter that bounds the loop
// around AllocateInSubnet is initialised once, outside every loop that contains the allocation (a fail-over to the next
// subnet continues the count, it does not restart it).
func rulePreallocBoundCarries(c *Ctx, rule string) {
	fn := c.MustFn(rule, "pkg/ipam/api", "(*PoolController).preAllocateIP")
	if fn == nil {
		return
	}
	al := calls(fn, "IPAM).AllocateInSubnet")
	if len(al) == 0 {
		c.undecided(rule, fn, "AllocateInSubnet", nil, "no allocation call")
		return
	}
	for _, a := range al {
		f := a.Parent()
		hdr := loopHeaderOf(a)
		if hdr == nil {
			c.undecided(rule, f, "allocation loop", a, "the allocation is not inside a loop")
			continue
		}
		// walk outwards to the loop whose header tests a counter
		var cnt *ssa.Phi
		for h := hdr; h != nil && cnt == nil; h = outerLoopHeader(h) {
			if iff, ok := lastInstr(h).(*ssa.If); ok {
				if bo, ok := iff.Cond.(*ssa.BinOp); ok {
					for _, side := range []ssa.Value{bo.X, bo.Y} {
						if ph, ok := side.(*ssa.Phi); ok && ph.Block() == h {
							cnt = ph
						}
					}
				}
			}
		}
		if cnt == nil {
			c.undecided(rule, f, "loop bound", a, "no enclosing loop of the allocation is bounded by a counter comparison")
			continue
		}
		r := c.reachAfter(a, nil)
		ok := true
		for i, pred := range cnt.Block().Preds {
			if cnt.Block().Dominates(pred) {
				continue // the latch
			}
			_ = i
			if li := lastInstr(pred); li != nil && r.has(li) {
				ok = false
			}
		}
		c.ob(rule, f, "the allocation counter is not restarted after an allocation", a, ok,
			"the counter compared in the loop condition around AllocateInSubnet gets its initial value on an edge that cannot be reached again after an allocation: moving on to the next subnet keeps what was already allocated in the count, the total never exceeds size - held")
	}
}

// outerLoopHeader: the header of the innermost loop that strictly contains loop header h
func outerLoopHeader(h *ssa.BasicBlock) *ssa.BasicBlock {
	var best *ssa.BasicBlock
	for _, b := range h.Parent().Blocks {
		if b == h || !isLoopHeader(b) || !b.Dominates(h) {
			continue
		}
		if !naturalLoop(b)[h] {
			continue
		}
		if best == nil || best.Dominates(b) {
			best = b
		}
	}
	return best
}

// ---------- C11.R7 / C11.R8 ----------

// ruleListedOnce — a listing function puts a table entry into its result at most once: inside a loop, no append to the result
// can be followed by another one in the same iteration.
func ruleListedOnce(c *Ctx, rule string) {
	n := 0
	for _, it := range []struct{ pkg, name string }{{fipPkg, "(*crdIpam).ByKeyword"}, {fipPkg, "(*crdIpam).ByPrefix"}, {"pkg/ipam/api", "listIPs"}} {
		fn := c.MustFn(rule, it.pkg, it.name)
		if fn == nil {
			continue
		}
		if fn.Signature.Results().Len() == 0 {
			continue
		}
		resT := fn.Signature.Results().At(0).Type()
		var apps []ssa.Instruction
		allInstrsX(fn, func(in ssa.Instruction) {
			if call, ok := isBuiltinCall(in, "append"); ok && types.Identical(call.Type(), resT) && loopHeaderOf(call) != nil {
				apps = append(apps, call)
			}
		})
		if len(apps) == 0 {
			// a pre-sized result filled by index: one slot per iteration as long as the index varies with the loop
			m := 0
			allInstrsX(fn, func(in ssa.Instruction) {
				st, ok := in.(*ssa.Store)
				if !ok || loopHeaderOf(st) == nil {
					return
				}
				ia, ok := st.Addr.(*ssa.IndexAddr)
				if !ok || !types.Identical(ia.X.Type(), resT) {
					return
				}
				m++
				_, isConst := ia.Index.(*ssa.Const)
				c.ob(rule, fn, "an entry is listed at most once", st, !isConst, "the result is filled by index assignment with the loop's own index: one slot per entry")
			})
			if m == 0 {
				c.undecided(rule, fn, "result appends", nil, "neither an append to the result nor an index assignment into it inside a loop")
			}
			continue
		}
		for _, a := range apps {
			n++
			hdr := loopHeaderOf(a)
			r := c.reachAfter(a, newCut().instr(hdr.Instrs[0]))
			var again ssa.Instruction
			for _, b := range apps {
				if r.has(b) {
					again = b
				}
			}
			c.ob(rule, fn, "an entry is listed at most once", a, again == nil, "after an append to the result no second append is reachable within the same iteration: paging over the sorted list shows every ip exactly once")
		}
	}
	_ = n
}

// ruleConvertShowsKeyParts — the list side shows exactly the parts of the parsed key: namespace, app name, pod name and pool
// name of a listed entry are the fields of ParseKey(key), the app type is GetAppType(<its prefix>), unconditionally — the
// release side rebuilds the key from these and must arrive at the same key for every owner kind.
func ruleConvertShowsKeyParts(c *Ctx, rule string) {
	fn := c.MustFn(rule, "pkg/ipam/api", "convert")
	if fn == nil {
		return
	}
	fromParse := func(v ssa.Value) bool {
		return dependsOn(v, func(x ssa.Value) bool { return isResultOf(x, 0, "util.ParseKey") })
	}
	want := map[string]string{"Namespace": "Namespace", "AppName": "AppName", "PodName": "PodName", "PoolName": "PoolName"}
	seen := map[string]bool{}
	allInstrsX(fn, func(in ssa.Instruction) {
		s, ok := in.(*ssa.Store)
		if !ok {
			return
		}
		fa, ok := s.Addr.(*ssa.FieldAddr)
		if !ok || namedStructName(fa.X.Type()) != "FloatingIP" {
			return
		}
		f := fieldName(fa.X.Type(), fa.Field)
		if src, isKeyPart := want[f]; isKeyPart {
			seen[f] = true
			_, name, isLd := fieldLoad(stripConv(s.Val))
			c.ob(rule, fn, "listed "+f+" is the key's "+src, s, isLd && name == src && fromParse(s.Val),
				"the field is a plain read of ParseKey(fip.Key)."+src+" (no case distinction on the owner kind): posting the entry back rebuilds the same key")
		}
		if f == "AppType" {
			seen[f] = true
			call, _ := callOf(s.Val)
			okT := call != nil && nameMatch(calleeName(call), "util.GetAppType")
			if okT {
				_, name, isLd := fieldLoad(stripConv(call.Call.Args[0]))
				okT = isLd && name == "AppTypePrefix" && fromParse(call.Call.Args[0])
			}
			c.ob(rule, fn, "listed AppType is the type of the key's prefix", s, okT, "AppType = GetAppType(ParseKey(fip.Key).AppTypePrefix) unconditionally")
		}
	})
	for _, f := range []string{"Namespace", "AppName", "PodName", "PoolName", "AppType"} {
		if !seen[f] {
			c.undecided(rule, fn, "listed "+f, nil, "no store to the field found in convert")
		}
	}
}

// ---------- C12.R7 ----------

// ruleStateFilePerContainer — every file the state functions write, read, rename or remove is named after the container the
// request is for: two concurrent requests for different containers never touch the same path.
func ruleStateFilePerContainer(c *Ctx, rule string) {
	n := 0
	for _, name := range []string{"saveNetworkInfo", "consumeNetworkInfo"} {
		fn := c.MustFn(rule, cniutilPkg, name)
		if fn == nil {
			continue
		}
		id := pAt(fn, 0)
		if id == nil {
			c.undecided(rule, fn, "container id", nil, "no parameter")
			continue
		}
		for _, f := range withAnon(fn) {
			for _, call := range callsLocal(f, "ioutil.WriteFile", "ioutil.ReadFile", "os.WriteFile", "os.ReadFile", "os.Remove", "os.RemoveAll", "os.Rename", "os.OpenFile", "os.Create", "os.Open", "os.Link", "os.Symlink", "ioutil.TempFile", "os.CreateTemp") {
				nPath := 1
				if cn := calleeName(call); strings.HasSuffix(cn, ".Rename") || strings.HasSuffix(cn, ".Link") || strings.HasSuffix(cn, ".Symlink") {
					nPath = 2
				}
				args := callArgs(call)
				for k := 0; k < nPath && k < len(args); k++ {
					n++
					dep := dependsOn(args[k], func(x ssa.Value) bool {
						if x == ssa.Value(id) {
							return true
						}
						// a closure sees the parameter through a free variable / cell
						if fv, ok := x.(*ssa.FreeVar); ok && fv.Name() == id.Name() {
							return true
						}
						return false
					})
					c.ob(rule, fn, "state file path contains the container id", call, dep, fmt.Sprintf("path argument %d of %s derives from the containerID parameter: requests for different containers use different files (no shared temporary)", k, shortCallee(call)))
				}
			}
		}
	}
	if n < 3 {
		c.undecided(rule, nil, "state file accesses", nil, fmt.Sprintf("expected write, read and remove of the state file, found %d path arguments", n))
	}
}

// ---------- C13.R10 / C13.R11 ----------

// ruleAddReadsPodFromAPI — the pod whose annotation an ADD hands to the plugins is read from the API server in that request:
// getPod has no success return that does not pass the (polled) Get — a copy remembered under the pod's name would be the
// previous incarnation's for a re-created pod.
func ruleAddReadsPodFromAPI(c *Ctx, rule string) {
	fn := c.MustFn(rule, galaxyPkg, "(*Galaxy).getPod")
	if fn == nil {
		return
	}
	var fetch []ssa.CallInstruction
	fetch = append(fetch, callsLocal(fn, "PodInterface).Get")...)
	for _, call := range callsLocal(fn, "wait.PollImmediate", "wait.Poll", "wait.PollImmediateUntil", "wait.ExponentialBackoff") {
		// the polled closure is one of fn's own and it does the Get
		for _, a := range fn.AnonFuncs {
			if len(callsLocal(a, "PodInterface).Get")) > 0 {
				fetch = append(fetch, call)
				break
			}
		}
	}
	for _, h := range helperFns(fn, 2) {
		if len(callsDeep(h, "PodInterface).Get")) > 0 {
			for _, cs := range staticSites[h] {
				if cs.Parent() == fn {
					fetch = append(fetch, cs)
				}
			}
		}
	}
	if len(fetch) == 0 {
		c.ob(rule, fn, "the pod is fetched from the API server", nil, false, "no Pods().Get (direct, polled or in a helper) in getPod")
		return
	}
	ei := errResultIndex(fn)
	r := reachFromEntry(fn, newCut().callInstrs(fetch))
	ok := true
	for _, ret := range returns(fn) {
		if r.has(ret) && !retCertainlyErr(ret, ei) {
			ok = false
		}
	}
	c.ob(rule, fn, "every pod handed to an ADD was fetched in that request", fetch[0], ok, "no return without an error is reachable from the entry of getPod without passing the Get: the ip list given to the plugins is the one in the pod object of this incarnation")
}

// ruleIPInfosTakePrecedence — on the plugin side, ipinfos present in the CNI args are what is configured: the only condition for
// decoding them is that the argument is non-empty (a configured third-party ipam type is the fallback, not an override).
func ruleIPInfosTakePrecedence(c *Ctx, rule string) {
	fn := c.MustFn(rule, "cni/ipam", "Allocate")
	if fn == nil {
		return
	}
	um := calls(fn, "json.Unmarshal")
	ex := calls(fn, "ipam.ExecAdd")
	if len(um) == 0 {
		c.undecided(rule, fn, "decode of ipinfos", nil, "no json.Unmarshal in Allocate")
		return
	}
	nonEmpty := guardEdgesX(fn, func(v ssa.Value) (bool, int) {
		bo, ok := v.(*ssa.BinOp)
		if !ok || (bo.Op != token.NEQ && bo.Op != token.EQL) {
			return false, 0
		}
		isLookup := func(x ssa.Value) bool {
			return dependsOn(x, func(y ssa.Value) bool { _, ok := y.(*ssa.Lookup); return ok })
		}
		isEmpty := func(x ssa.Value) bool { s, ok := constStringVal(x); return ok && s == "" }
		if !(isLookup(bo.X) && isEmpty(bo.Y)) && !(isLookup(bo.Y) && isEmpty(bo.X)) {
			return false, 0
		}
		if bo.Op == token.NEQ {
			return true, 0
		}
		return true, 1
	})
	if len(nonEmpty) == 0 {
		c.ob(rule, fn, "ipinfos are decoded whenever present", um[0], false, "no test `<ipinfos argument> != \"\"` found")
		return
	}
	for _, e := range nonEmpty {
		r := reachFromEdge(e, newCut().callInstrs(um))
		ok := r.anyCall(ex) == nil
		for _, ret := range returns(fn) {
			if r.has(ret) {
				ok = false
			}
		}
		c.ob(rule, fn, "present ipinfos are always decoded", lastInstr(e.from), ok, "from the `ipinfos != \"\"` edge every path reaches the decode; neither a return nor the third-party ipam plugin is reachable without it (no second condition such as the netconf's ipam type)")
	}
}

// ---------- C14.R9 / C14.R10 ----------

// ruleFullSyncAlwaysRestores — the full sync succeeds only after the restore that flushes the hostport chain and deletes the
// stale chains — also for an empty port set (the last host-port pod left while galaxy was down).
func ruleFullSyncAlwaysRestores(c *Ctx, rule string) {
	fn := c.MustFn(rule, pmPkg, "(*PortMappingHandler).SetupPortMappingForAllPods")
	if fn == nil {
		return
	}
	restore := calls(fn, "Interface).RestoreAll")
	if len(restore) == 0 {
		c.undecided(rule, fn, "RestoreAll", nil, "no restore call")
		return
	}
	ei := errResultIndex(fn)
	r := reachFromEntry(fn, newCut().callInstrs(restore))
	ok := true
	for _, ret := range returns(fn) {
		if r.has(ret) && !retCertainlyErr(ret, ei) {
			ok = false
		}
	}
	c.ob(rule, fn, "a full sync succeeds only after the restore", restore[0], ok, "no `return nil` of SetupPortMappingForAllPods is reachable without RestoreAll: stale chains and jump rules are removed whatever the given port set is, the empty one included")
}

// ruleAnnotationPublished — the port-mapping annotation (the only record a restarted daemon has of random host ports) is
// written for every sandbox: the update closure reports success only after Pods().Update, or when the annotation already
// equals the new data.
func ruleAnnotationPublished(c *Ctx, rule string) {
	fn := c.MustFn(rule, galaxyPkg, "(*Galaxy).updatePortMappingAnnotation")
	if fn == nil {
		return
	}
	n := 0
	for _, f := range fnsAround(fn, 2) {
		up := callsLocal(f, "PodInterface).Update", "PodInterface).Patch")
		if len(up) == 0 {
			continue
		}
		n++
		// skip-if-equal edges: a comparison with something derived from the data parameter
		same := guardEdges(f, predEq(func(v ssa.Value) bool { return true }, func(v ssa.Value) bool {
			return dependsOn(v, func(x ssa.Value) bool {
				if fv, ok := x.(*ssa.FreeVar); ok && fv.Name() == "data" {
					return true
				}
				return isParamNamed(x, "data")
			})
		}))
		r := reachFromEntry(f, newCut().callInstrs(up).edge(same...))
		ok := true
		for _, ret := range returns(f) {
			if !r.has(ret) {
				continue
			}
			if len(ret.Results) == 2 {
				if b, isC := constBoolVal(retVal(ret, 0)); isC && !b {
					continue // (false, ..): poll again or fail
				}
				if retCertainlyErr(ret, 1) {
					continue
				}
			} else if ei := errResultIndex(f); ei >= 0 && retCertainlyErr(ret, ei) {
				continue
			}
			ok = false
		}
		c.ob(rule, f, "the annotation is published before success is reported", up[0], ok, "no success return of the update is reachable without Pods().Update (other than through `annotation == new data`): a re-created sandbox's random ports replace the earlier sandbox's in the record the restart sync reads")
	}
	if n == 0 {
		c.undecided(rule, fn, "Pods().Update", nil, "no update call in updatePortMappingAnnotation or its closures")
	}
}

// ---------- C15.R8 ----------

// ruleSetRegistrationAgrees — sibling agreement between the two walks over a policy's peer tables: the walk that registers the
// wanted sets (initIPSetMap) and the walk that references sets by name in the rules (the policy chain writer) decide on the
// same conditions. Today both skip a table only when it is nil; a condition on one side that the other side does not have
// makes a rule reference a set that was never created (or a created set nobody references).
func ruleSetRegistrationAgrees(c *Ctx, rule string) {
	reg := c.MustFn(rule, polPkg, "initIPSetMap")
	if reg == nil {
		return
	}
	condsOf := func(in ssa.Instruction, top *ssa.Function) []string {
		var out []string
		for _, iff := range controllingIfs(in) {
			if !isNilTest(iff.Cond) {
				out = append(out, condShape(iff.Cond))
			}
		}
		// inside a helper: what decides at its call sites in top counts as well
		if f := in.Parent(); f != top && f.Parent() == nil {
			for _, cs := range staticSites[f] {
				if cs.Parent() != top {
					continue
				}
				for _, iff := range controllingIfs(cs) {
					if !isNilTest(iff.Cond) {
						out = append(out, condShape(iff.Cond))
					}
				}
			}
		}
		return out
	}
	var regConds []string
	nReg := 0
	allInstrsX(reg, func(in ssa.Instruction) {
		mu, ok := in.(*ssa.MapUpdate)
		if !ok || namedStructName(mu.Value.Type()) != "ipsetTable" {
			return
		}
		nReg++
		regConds = append(regConds, condsOf(mu, reg)...)
	})
	// the referencing side: appends of a table's Name to a string slice, in the function that calls writePolicyChainRules
	var ref *ssa.Function
	for _, fn := range c.SrcFns {
		if fn.Pkg != nil && strings.HasSuffix(fn.Pkg.Pkg.Path(), polPkg) && fn.Parent() == nil && len(callsLocal(fn, polPkg+".writePolicyChainRules")) > 0 {
			ref = fn
		}
	}
	if ref == nil || nReg == 0 {
		c.undecided(rule, reg, "set registration / reference walks", nil, fmt.Sprintf("registrations found: %d, referencing function found: %v", nReg, ref != nil))
		return
	}
	var refConds []string
	nRef := 0
	scan := func(in ssa.Instruction) {
		call, ok := isBuiltinCall(in, "append")
		if !ok || len(call.Call.Args) < 2 {
			return
		}
		if nameMatch(fnNameForMatch(call.Parent()), polPkg+".writePolicyChainRules") {
			return // the rule writer sees the names through its parameters
		}
		isName := dependsOn(call.Call.Args[1], func(x ssa.Value) bool {
			b, name, isLd := fieldLoad(x)
			return isLd && name == "Name" && b != nil && (namedStructName(b.Type()) == "ipsetTable" || namedStructName(b.Type()) == "IPSet")
		})
		if !isName {
			return
		}
		nRef++
		refConds = append(refConds, condsOf(call, ref)...)
	}
	allInstrs(ref, scan)
	if nRef == 0 {
		allInstrsX(ref, scan)
	}
	sort.Strings(regConds)
	sort.Strings(refConds)
	uniq := func(xs []string) []string {
		var out []string
		for i, x := range xs {
			if i == 0 || xs[i-1] != x {
				out = append(out, x)
			}
		}
		return out
	}
	a, b := strings.Join(uniq(regConds), " | "), strings.Join(uniq(refConds), " | ")
	c.ob(rule, reg, "registered sets = referenced sets (same skip conditions on both walks)", nil, a == b && nRef > 0,
		fmt.Sprintf("%d registrations, %d by-name references of peer tables; conditions other than nil tests that decide a registration: [%s]; that decide a reference: [%s]", nReg, nRef, a, b))
}

// ---------- C17.R6 ----------

// ruleGCDirsFromConfig — the directories the collector walks each round are the configured ones: the constructor derives the
// lists from the flags without looking at the file system (a directory that does not exist yet is skipped by the round
// that finds it missing, and collected once the CNI plugins have created it).
func ruleGCDirsFromConfig(c *Ctx, rule string) {
	fn := c.MustFn(rule, "pkg/gc", "NewFlannelGC")
	if fn == nil {
		return
	}
	var bad ssa.CallInstruction
	fsCalls := []string{"os.Stat", "os.Lstat", "ioutil.ReadDir", "os.ReadDir", "os.Open", "os.OpenFile", "filepath.Glob", "filepath.Walk", "filepath.EvalSymlinks", "os.Readlink"}
	for _, f := range append(withAnon(fn), helperFns(fn, 3)...) {
		for _, call := range callsLocal(f, fsCalls...) {
			bad = call
		}
	}
	var at ssa.Instruction
	if bad != nil {
		at = bad
	}
	c.ob(rule, fn, "the directory lists are a function of the configuration only", at, bad == nil, "NewFlannelGC (and the helpers it calls) performs no file-system query: which configured directories exist is decided anew in every round, not frozen at daemon start")
	// the fields are set from the flags
	n := 0
	allInstrs(fn, func(in ssa.Instruction) {
		s, ok := in.(*ssa.Store)
		if !ok {
			return
		}
		fa, ok := s.Addr.(*ssa.FieldAddr)
		if !ok {
			return
		}
		if f := fieldName(fa.X.Type(), fa.Field); f == "allocatedIPDir" || f == "gcDirs" {
			n++
			fromFlag := dependsOn(s.Val, func(x ssa.Value) bool {
				g, ok := x.(*ssa.Global)
				return ok && strings.HasPrefix(g.Name(), "flag")
			})
			c.ob(rule, fn, f+" comes from its flag", s, fromFlag, "the stored list derives from the package's flag variable")
		}
	})
	if n < 2 {
		c.undecided(rule, fn, "directory list fields", nil, fmt.Sprintf("expected stores to allocatedIPDir and gcDirs, found %d", n))
	}
}

// ---------- C18.R14 ----------

// ruleRecursionSharesVisited — the augmenting-path search of the range -> ip matching terminates: every recursive call of the
// closure hands on the visited set it received (the same value), and that set has grown (Insert) since the closure was
// entered. A fresh set per level makes two ranges displace each other for ever (stack overflow, not recoverable).
func ruleRecursionSharesVisited(c *Ctx, rule string) {
	n := 0
	for _, fn := range c.SrcFns {
		if fn.Pkg == nil || !strings.HasSuffix(fn.Pkg.Pkg.Path(), fipPkg) {
			continue
		}
		// self calls: of a closure through the cell the closure is stored in, of a named function / method directly
		var self []*ssa.Call
		allInstrs(fn, func(in ssa.Instruction) {
			call, ok := in.(*ssa.Call)
			if !ok {
				return
			}
			if fn.Parent() == nil {
				if call.Call.StaticCallee() == fn {
					self = append(self, call)
				}
				return
			}
			ld, ok := call.Call.Value.(*ssa.UnOp)
			if !ok || ld.Op != token.MUL {
				return
			}
			fv, ok := ld.X.(*ssa.FreeVar)
			if !ok {
				return
			}
			if cellHoldsClosure(fn, fv) {
				self = append(self, call)
			}
		})
		for _, call := range self {
			n++
			ok := false
			why := "no parameter of set type is handed on unchanged"
			for k, p := range fn.Params {
				if !strings.HasSuffix(typeNameOf(p.Type()), "String") || k >= len(call.Call.Args) {
					continue
				}
				if call.Call.Args[k] != ssa.Value(p) {
					why = "the visited set given to the recursive call is not the one received"
					continue
				}
				// grown before the call
				var grows []ssa.Instruction
				for _, ins := range callsLocal(fn, "sets.String).Insert") {
					if recvOf(ins) == ssa.Value(p) {
						grows = append(grows, ins)
					}
				}
				if len(grows) > 0 && precedes(fn, grows, call) {
					ok = true
				} else {
					why = "no Insert into the visited set precedes the recursive call on every path"
				}
			}
			c.ob(rule, fn, "the recursive search hands on one growing visited set", call, ok, "the recursive call receives the caller's own visited-set parameter, and an Insert into it precedes the call on every path: the depth is bounded by the number of candidate ips. "+why)
		}
	}
	if n == 0 {
		c.undecided(rule, nil, "recursive closures of the ipam", nil, "no self-recursive closure or function found in pkg/ipam/floatingip (the range matching of ByKeyAndIPRanges is expected)")
	}
}

// cellHoldsClosure: free variable fv of closure fn is the cell its own MakeClosure is stored in
func cellHoldsClosure(fn *ssa.Function, fv *ssa.FreeVar) bool {
	p := fn.Parent()
	if p == nil {
		return false
	}
	idx := -1
	for i, x := range fn.FreeVars {
		if x == fv {
			idx = i
		}
	}
	found := false
	allInstrs(p, func(in ssa.Instruction) {
		mc, ok := in.(*ssa.MakeClosure)
		if !ok || mc.Fn != ssa.Value(fn) || idx < 0 || idx >= len(mc.Bindings) {
			return
		}
		cell := mc.Bindings[idx]
		for _, ref := range *mc.Referrers() {
			if st, ok := ref.(*ssa.Store); ok && st.Addr == cell {
				found = true
			}
		}
	})
	return found
}

// ---------- C19.R10 ----------

// ruleLabelMapsReplaced — the Labels map of a table entry is shared with every value copy of the entry that lookups have handed
// out (the API reads it after the ipam lock was released): it is only ever replaced (field assignment), never mutated in
// place (index assignment / delete).
func ruleLabelMapsReplaced(c *Ctx, rule string) {
	n := 0
	for _, fn := range c.SrcFns {
		if fn.Pkg == nil || !(strings.HasSuffix(fn.Pkg.Pkg.Path(), fipPkg) || strings.HasSuffix(fn.Pkg.Pkg.Path(), "pkg/ipam/api") || strings.HasSuffix(fn.Pkg.Pkg.Path(), spPkg)) {
			continue
		}
		allInstrs(fn, func(in ssa.Instruction) {
			var m ssa.Value
			if mu, ok := in.(*ssa.MapUpdate); ok {
				m = mu.Map
			} else if call, ok := isBuiltinCall(in, "delete"); ok {
				m = call.Call.Args[0]
			}
			if m == nil {
				return
			}
			mt, ok := m.Type().Underlying().(*types.Map)
			if !ok {
				return
			}
			if b, isB := mt.Elem().Underlying().(*types.Basic); !isB || b.Kind() != types.String {
				return
			}
			if b, isB := mt.Key().Underlying().(*types.Basic); !isB || b.Kind() != types.String {
				return
			}
			n++
			shared := dependsOn(m, func(x ssa.Value) bool {
				b, name, isLd := fieldLoad(x)
				return isLd && name == "Labels" && b != nil && namedStructName(b.Type()) == "FloatingIP"
			})
			c.ob(rule, fn, "label maps of ipam entries are not mutated in place", in, !shared, "the map written is not one read from <FloatingIP>.Labels: copies of the entry handed out earlier share that map and read it without the ipam lock")
		})
	}
	if n == 0 {
		c.undecided(rule, nil, "string map writes", nil, "no map[string]string write found in the ipam packages")
	}
}

// ---------- C20.R7 ----------

// ruleRangeSizeFormula — the size of a range is Last - First + 1 wherever the range is non-empty (it must agree with the
// inclusive enumeration First..Last and with Contains): every return of IPRange.Size is that expression, or the constant 0
// behind the `len(First) == 0 || len(Last) == 0` test.
func ruleRangeSizeFormula(c *Ctx, rule string) {
	fn := c.MustFn(rule, "pkg/utils/nets", "(IPRange).Size")
	if fn == nil {
		return
	}
	dep := func(v ssa.Value, field string) bool {
		return dependsOnLocal(v, func(x ssa.Value) bool {
			if fa, ok := x.(*ssa.FieldAddr); ok && fieldName(fa.X.Type(), fa.Field) == field {
				return true
			}
			if f, ok := x.(*ssa.Field); ok && fieldName(f.X.Type(), f.Field) == field {
				return true
			}
			return false
		})
	}
	empty := guardEdges(fn, func(v ssa.Value) (bool, int) {
		bo, ok := v.(*ssa.BinOp)
		if !ok || (bo.Op != token.EQL && bo.Op != token.NEQ) {
			return false, 0
		}
		if call, isB := bo.X.(*ssa.Call); isB {
			if b, ok := call.Call.Value.(*ssa.Builtin); ok && b.Name() == "len" {
				if k, isC := constIntVal(bo.Y); isC && k == 0 {
					if bo.Op == token.EQL {
						return true, 0
					}
					return true, 1
				}
			}
		}
		return false, 0
	})
	rNonEmpty := reachFromEntry(fn, newCut().edge(empty...))
	n := 0
	for _, ret := range returns(fn) {
		vals := []ssa.Value{retVal(ret, 0)}
		if ph, ok := vals[0].(*ssa.Phi); ok {
			vals = ph.Edges
		}
		for _, v := range vals {
			n++
			v = stripConv(v)
			if k, isC := constIntVal(v); isC && k == 0 {
				c.ob(rule, fn, "size 0 only for an empty range", ret, len(empty) > 0 && !(rNonEmpty.has(ret) && len(vals) == 1), "the constant 0 is returned only behind the len(First)==0 / len(Last)==0 test")
				continue
			}
			ok := false
			if add, isB := v.(*ssa.BinOp); isB && add.Op == token.ADD {
				x, y := stripConv(add.X), stripConv(add.Y)
				if k, isC := constIntVal(x); isC && k == 1 {
					x, y = y, x
				}
				if k, isC := constIntVal(y); isC && k == 1 {
					if sub, isS := x.(*ssa.BinOp); isS && sub.Op == token.SUB {
						ok = dep(sub.X, "Last") && !dep(sub.X, "First") && dep(sub.Y, "First") && !dep(sub.Y, "Last")
					}
				}
			}
			c.ob(rule, fn, "size = Last - First + 1", ret, ok, "the returned value is (f(Last) - f(First)) + 1 with no case distinction on the operands: size, inclusive enumeration and membership agree for every range, the one ending at 255.255.255.255 included")
		}
	}
	if n == 0 {
		c.undecided(rule, fn, "returns of Size", nil, "none found")
	}
}
