// Package cases holds tiny positive and negative examples for every engine of galaxycheck. On every run each Bad*
// function must be flagged and each Good* function must stay silent; otherwise the checker itself is broken.
package cases

import (
	"encoding/json"
	"errors"
	"sync"
)

type Obj struct {
	Key string
	id  int
}

type Store struct {
	mu   sync.RWMutex
	m    map[string]*Obj
	list []int
}

// ---- E1 lockset ----

func (s *Store) GoodRead(k string) string {
	s.mu.RLock()
	defer s.mu.RUnlock()
	if o, ok := s.m[k]; ok {
		return o.Key
	}
	return ""
}

func (s *Store) BadRead(k string) string {
	o := s.m[k]
	if o == nil {
		return ""
	}
	return o.Key
}

func (s *Store) BadWriteUnderR(k string) {
	s.mu.RLock()
	defer s.mu.RUnlock()
	if o, ok := s.m[k]; ok {
		o.Key = "x"
	}
}

func (s *Store) BadDeferOrder() {
	defer func() {
		_ = len(s.m)
	}()
	s.mu.Lock()
	defer s.mu.Unlock()
	s.m["a"] = &Obj{Key: "a"}
}

func (s *Store) GoodHelper() {
	s.mu.Lock()
	defer s.mu.Unlock()
	s.put("a")
}

func (s *Store) put(k string) { s.m[k] = &Obj{Key: k} }

func (s *Store) BadLeakLock(b bool) error {
	s.mu.Lock()
	if b {
		return errors.New("x")
	}
	s.mu.Unlock()
	return nil
}

func (s *Store) BadSliceReuse(v int) {
	s.mu.Lock()
	defer s.mu.Unlock()
	s.list = append(s.list[:0], v)
}

func (s *Store) GoodSliceReplace(v int) {
	n := []int{v}
	s.mu.Lock()
	s.list = n
	s.mu.Unlock()
}

// ---- E2 path rules ----

var saved int

func save() error {
	if saved > 3 {
		return errors.New("full")
	}
	saved++
	return nil
}

func use() { saved-- }

func GoodOrder() error {
	if err := save(); err != nil {
		return err
	}
	use()
	return nil
}

func BadOrder() error {
	use()
	if err := save(); err != nil {
		return err
	}
	return nil
}

func BadSwallow() error {
	if err := save(); err != nil {
		saved = 0
	}
	use()
	return nil
}

func GoodGuard(k string, m map[string]int) {
	if v, ok := m[k]; ok && v > 0 {
		use()
	}
}

func BadGuard(k string, m map[string]int) {
	if v := m[k]; v > 0 {
		saved = v
	}
	use()
}

// ---- E3 nil ----

func find(k string) (*Obj, error) {
	if k == "" {
		return nil, nil
	}
	return &Obj{Key: k}, nil
}

func GoodNil(k string) string {
	o, err := find(k)
	if err != nil || o == nil {
		return ""
	}
	return o.Key
}

func GoodNilDefault(k string) string {
	o, _ := find(k)
	if o == nil {
		o = &Obj{}
	}
	return o.Key
}

func BadNil(k string) string {
	o, err := find(k)
	if err != nil {
		return ""
	}
	return o.Key
}

// ---- E4 wrap ----

func BadLoop(first, last uint32, f func(uint32)) {
	for ; first <= last; first++ {
		f(first)
	}
}

func GoodLoop(first, last uint32, f func(uint32)) {
	if first > last {
		return
	}
	for {
		f(first)
		if first == last {
			break
		}
		first++
	}
}

func GoodConstLoop(f func(uint8)) {
	for i := uint8(0); i <= 10; i++ {
		f(i)
	}
}

func BadWrapCmp(a, b uint32) bool  { return a <= b+1 }
func GoodWrapCmp(a, b uint32) bool { return uint64(a) <= uint64(b)+1 }

// ---- E5 shared-map taint ----

type Srv struct {
	conf map[string]map[string]interface{}
}

func (s *Srv) BadGet(n string) map[string]interface{} { return s.conf[n] }

func (s *Srv) GoodGet(n string) map[string]interface{} {
	c := make(map[string]interface{})
	for k, v := range s.conf[n] {
		c[k] = v
	}
	return c
}

type holder struct{ Conf map[string]interface{} }

func BadUse(s *Srv) {
	h := &holder{Conf: s.BadGet("a")}
	h.Conf["x"] = 1
}

// the taint is field-based (all objects of one struct type share a field's taint), hence a second holder type
type holder2 struct{ Conf map[string]interface{} }

func GoodUse(s *Srv) {
	h := &holder2{Conf: s.GoodGet("a")}
	h.Conf["x"] = 1
}

// ---- constant folding ----

func ToPrefix(kind string) string {
	if kind == "NULL" {
		return "NULL_"
	}
	return lower(kind) + "_"
}

func lower(s string) string { return s }

// ---- E1: a table-resident pointer handed out of the critical section ----

func (s *Store) lookup(k string) *Obj {
	s.mu.RLock()
	defer s.mu.RUnlock()
	return s.m[k]
}

func (s *Store) BadEscape(k string) string {
	o := s.lookup(k)
	if o == nil {
		return ""
	}
	return o.Key
}

// ---- E3b: pointers a JSON null leaves nil ----

type Item struct {
	Name string
	Sub  *Item
}

func BadDecodeElems(data []byte) (string, error) {
	var items []*Item
	if err := json.Unmarshal(data, &items); err != nil {
		return "", err
	}
	return joinNames(items), nil
}

func GoodDecodeElems(data []byte) (string, error) {
	var items []*Item
	if err := json.Unmarshal(data, &items); err != nil {
		return "", err
	}
	for i := range items {
		if items[i] == nil {
			return "", errors.New("null item")
		}
	}
	return joinNames2(items), nil
}

func joinNames(items []*Item) string {
	s := ""
	for _, it := range items {
		s += it.Name
	}
	return s
}

func joinNames2(items []*Item) string {
	s := ""
	for _, it := range items {
		s += it.Name
	}
	return s
}

func BadDecodePtr(data []byte) string {
	it := new(Item)
	_ = json.Unmarshal(data, &it)
	return it.Name
}

func GoodDecodePtr(data []byte) string {
	it := new(Item)
	_ = json.Unmarshal(data, it)
	if it.Sub != nil {
		return it.Sub.Name
	}
	return it.Name
}

func BadDecodeField(data []byte) string {
	it := new(Item)
	_ = json.Unmarshal(data, it)
	return it.Sub.Name
}

// ---- stepped index ----

func BadStep(s []int, j int) int {
	if j == len(s) {
		return 0
	}
	j++
	return s[j]
}

func GoodStep(s []int, j int) int {
	j++
	if j == len(s) {
		return 0
	}
	return s[j]
}

// ---- E2 through same-package helpers, return-value correlation, value-form || ----

func lookupChecked(m map[string]int, k string, want int) (int, error) {
	v, ok := m[k]
	if !ok {
		return 0, errors.New("missing")
	}
	if v != want {
		return 0, errors.New("mismatch")
	}
	return v, nil
}

func effect(int) {}

func GoodHelperGuard(m map[string]int, k string) error {
	v, err := lookupChecked(m, k, 1)
	if err != nil {
		return err
	}
	effect(v)
	return nil
}

func BadHelperGuard(m map[string]int, k string) error {
	v, _ := lookupChecked(m, k, 1)
	effect(v)
	return nil
}

func GoodSwitchOr(a int, b bool) int {
	switch {
	case a == 0 || b:
		effect(a)
		return 1
	default:
		return 0
	}
}

// ---- round 5 helpers: control dependence, reached phi inputs, recursion with a visited set, in-place map mutation ----

type tbl struct {
	Name    string
	entries []string
}

func GoodRegister(m map[string]*tbl, ts []*tbl) {
	for _, t := range ts {
		if t != nil {
			m[t.Name] = t
		}
	}
}

func BadRegister(m map[string]*tbl, ts []*tbl) {
	for _, t := range ts {
		if t == nil || len(t.entries) == 0 {
			continue
		}
		m[t.Name] = t
	}
}

func isMissing(err error) bool { return err != nil && err.Error() == "missing" }

func GoodLookupErr(m map[string]int, k string) (found bool, n int, retErr error) {
	v, err := lookupChecked(m, k, 1)
	if err != nil {
		if !isMissing(err) {
			retErr = err
		}
	} else {
		found = true
		n = v
	}
	return
}

func BadLookupErr(m map[string]int, k string) (found bool, n int, retErr error) {
	v, err := lookupChecked(m, k, 1)
	if err != nil {
		return false, 0, nil
	}
	return true, v, nil
}

func GoodSearch(adj map[int][]int, start int) bool {
	var visit func(i int, seen map[int]bool) bool
	visit = func(i int, seen map[int]bool) bool {
		for _, j := range adj[i] {
			if seen[j] {
				continue
			}
			seen[j] = true
			if j == 0 || visit(j, seen) {
				return true
			}
		}
		return false
	}
	return visit(start, map[int]bool{})
}

type labelled struct {
	Labels map[string]string
}

func GoodRelabel(l *labelled) { l.Labels = nil }
func BadRelabel(l *labelled)  { delete(l.Labels, "x") }

func GoodListOnce(in []string, k string) []string {
	var out []string
	for _, s := range in {
		if s == k {
			out = append(out, s)
		}
	}
	return out
}

func BadListTwice(in []string, k string) []string {
	var out []string
	for _, s := range in {
		if s == k {
			out = append(out, s)
		}
		if len(s) > len(k) {
			out = append(out, s)
		}
	}
	return out
}

// a position-by-position comparison decides on both sides of every position
func GoodLexLess(a, b []byte) bool {
	for i := range a {
		if a[i] < b[i] {
			return true
		}
		if a[i] > b[i] {
			return false
		}
	}
	return false
}

func GoodLexLessNeq(a, b []byte) bool {
	for i := range a {
		if a[i] != b[i] {
			return a[i] < b[i]
		}
	}
	return false
}

func BadLexLess(a, b []byte) bool {
	for i := range a {
		if a[i] < b[i] {
			return true
		}
	}
	return false
}

// a bool flag set on one branch of a loop body and tested after the loop
func FlagConst(xs []int) int {
	seen := false
	n := 0
	for _, x := range xs {
		if x > 0 {
			seen = true
			n += x
		}
	}
	if seen {
		return n
	}
	return -1
}

// not a flag: the tested value is computed
func FlagComputed(xs []int) int {
	seen := false
	for _, x := range xs {
		seen = x > 0
	}
	if seen {
		return 1
	}
	return -1
}

func litA(x string) []string { return []string{"-d", x, "-j"} }
func LitPair(x string) ([]string, []string, []string) {
	a := []string{"-d", x, "-j"}
	b := []string{"-d", x, "-j"}
	c := []string{"-s", x, "-j"}
	return a, b, c
}
