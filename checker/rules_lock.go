package main

import (
	"fmt"
	"go/types"
	"sort"
	"strings"

	"golang.org/x/tools/go/ssa"
)

// ipamMutators: IPAM interface methods that change allocation state.
var ipamMutators = []string{"IPAM).AllocateSpecificIP", "IPAM).AllocateInSubnet", "IPAM).AllocateInSubnetWithKey",
	"IPAM).AllocateInSubnetsAndIPRange", "IPAM).Release", "IPAM).ReleaseIPs", "IPAM).ReserveIP", "IPAM).UpdateAttr"}

const podLockID = "FloatingIPPlugin.podLockPool"
const dpLockID = "FloatingIPPlugin.dpLockPool"
const cacheLockID = "crdIpam.cacheLock"

func init() {
	builtinExtraNeed = func(fn *ssa.Function, call ssa.CallInstruction) (string, lockMode, string, bool) {
		if fn.Pkg == nil || fn.Pkg.Pkg.Path() != modPath+"pkg/ipam/schedulerplugin" {
			return "", 0, "", false
		}
		n := calleeName(call)
		if matchAny(n, ipamMutators) {
			return podLockID, modeW, "IPAM mutator call " + n, true
		}
		return "", 0, "", false
	}
}

// ruleGuardedBy: every entry point reaches the guarded accesses of the given locks only with the lock held.
func ruleGuardedBy(c *Ctx, rule string, lockIDs []string, min int) {
	la := c.locks()
	la.reportRoots(rule, lockIDs, nil)
	n := 0
	for _, l := range lockIDs {
		n += la.accessN[l]
	}
	c.note("%s: %d guarded accesses found for %s (minimum confirmed by reading: %d)", rule, n, strings.Join(lockIDs, ","), min)
	if n < min {
		c.add(&Obligation{Rule: rule, Func: "-", Construct: "vacuity guard (accesses)", Status: Undecided,
			Detail: fmt.Sprintf("only %d guarded accesses found, %d confirmed by reading", n, min)})
	}
}

// rulePairing: no function returns with a lock it acquired still held without a deferred release.
func rulePairing(c *Ctx, rule string) {
	la := c.locks()
	n := 0
	for _, fn := range c.SrcFns {
		fi := la.info[fn]
		hasAcq := false
		allInstrs(fn, func(in ssa.Instruction) {
			if ci, ok := in.(*ssa.Call); ok {
				if op, ok := classifyLockCall(ci); ok && op.kind == "acq" {
					hasAcq = true
				}
			}
		})
		if !hasAcq {
			continue
		}
		n++
		if len(fi.kept) > 0 {
			c.ob(rule, fn, "lock released on every return", nil, false, strings.Join(fi.kept, "; "))
		} else {
			d := "every acquisition is released explicitly or by defer on every path to a return"
			if fi.wrapper != "" {
				d = "lock wrapper: returns with " + fi.wrapper + " held and a closure that releases it"
			}
			c.ob(rule, fn, "lock released on every return", nil, true, d)
		}
	}
}

// ruleWrapperDeferred: the releaser returned by a lock wrapper is deferred immediately.
func ruleWrapperDeferred(c *Ctx, rule string) {
	la := c.locks()
	for _, fn := range c.SrcFns {
		allInstrs(fn, func(in ssa.Instruction) {
			ci, ok := in.(*ssa.Call)
			if !ok {
				return
			}
			w := ""
			for _, g := range la.calleesOf(ci) {
				if la.info[g].wrapper != "" {
					w = la.info[g].wrapper
				}
			}
			if w == "" {
				return
			}
			ok2 := false
			for _, ref := range *ci.Referrers() {
				if d, ok := ref.(*ssa.Defer); ok && d.Call.Value == ci {
					// the defer must follow in the same block with nothing but the call in between
					if d.Block() == ci.Block() && c.instrIndex(d) == c.instrIndex(ci)+1 {
						ok2 = true
					}
				}
			}
			c.ob(rule, fn, "releaser of "+w+" deferred immediately", ci, ok2, "result of the lock wrapper must be the operand of the next defer")
		})
	}
}

// ruleLockOrder: the lock-order graph is acyclic and no lock class is acquired while it is held.
func ruleLockOrder(c *Ctx, rule string) {
	la := c.locks()
	adj := map[string]map[string]orderEdge{}
	// the must-hold analysis drops a lock that is taken on one branch only (`if dp { defer LockDpPool(..)() }`); for the ORDER
	// of acquisitions a lock that MAY be held counts: inside one function, an acquisition that reaches another one without
	// passing an explicit release of the first lock is an edge as well
	order := append([]orderEdge{}, la.order...)
	for _, fn := range c.SrcFns {
		fi := la.info[fn]
		if fi == nil || isGenerated(fn) {
			continue
		}
		type acqSite struct {
			at   *ssa.Call
			lock string
		}
		var acqs []acqSite
		rels := map[string][]ssa.Instruction{}
		allInstrs(fn, func(in ssa.Instruction) {
			ci, ok := in.(ssa.CallInstruction)
			if !ok {
				return
			}
			if op, ok := classifyLockCall(ci); ok {
				if _, isDefer := in.(*ssa.Defer); op.kind == "rel" && !isDefer {
					rels[op.lock] = append(rels[op.lock], in)
				}
				if call, isCall := in.(*ssa.Call); op.kind == "acq" && isCall {
					acqs = append(acqs, acqSite{call, op.lock})
				}
				return
			}
			if call, isCall := in.(*ssa.Call); isCall {
				for _, g := range fi.callees[in] {
					if gi := la.info[g]; gi != nil && gi.wrapper != "" {
						acqs = append(acqs, acqSite{call, gi.wrapper})
					}
				}
			}
		})
		if len(acqs) < 2 {
			continue
		}
		for _, a := range acqs {
			r := c.reachAfter(a.at, newCut().instr(rels[a.lock]...))
			for _, b := range acqs {
				if b.at != a.at && b.lock != a.lock && r.has(b.at) {
					order = append(order, orderEdge{a: a.lock, b: b.lock, at: b.at, fn: fn, via: "acquired on a path on which " + a.lock + " may still be held"})
				}
			}
		}
	}
	for _, e := range order {
		if adj[e.a] == nil {
			adj[e.a] = map[string]orderEdge{}
		}
		if _, ok := adj[e.a][e.b]; !ok {
			adj[e.a][e.b] = e
		}
	}
	var keys []string
	for a := range adj {
		keys = append(keys, a)
	}
	sort.Strings(keys)
	for _, a := range keys {
		var bs []string
		for b := range adj[a] {
			bs = append(bs, b)
		}
		sort.Strings(bs)
		for _, b := range bs {
			e := adj[a][b]
			if a == b {
				c.ob(rule, e.fn, "acquire "+b+" while "+a+" held", e.at, false,
					"the same lock (class) is acquired while already held ("+e.via+"): self-deadlock; hashed key mutexes alias across keys")
				continue
			}
			// cycle: path b ->* a
			if path := findPath(adj, b, a); path != nil {
				c.ob(rule, e.fn, "order "+a+" -> "+b, e.at, false, "lock-order cycle: "+a+" -> "+strings.Join(path, " -> "))
			} else {
				c.ob(rule, e.fn, "order "+a+" -> "+b, e.at, true, "no path back from "+b+" to "+a+" in the lock-order graph ("+e.via+")")
			}
		}
	}
}

func findPath(adj map[string]map[string]orderEdge, from, to string) []string {
	seen := map[string]bool{}
	var rec func(x string) []string
	rec = func(x string) []string {
		if x == to {
			return []string{x}
		}
		if seen[x] {
			return nil
		}
		seen[x] = true
		for y := range adj[x] {
			if p := rec(y); p != nil {
				return append([]string{x}, p...)
			}
		}
		return nil
	}
	return rec(from)
}

// ruleNoInPlaceSliceReuse: slices held in guarded fields are replaced wholesale; readers snapshot the slice header
// under the lock and iterate after unlocking, so re-slicing / appending to / storing into the loaded backing array
// races even when every access to the field itself is locked.
func ruleNoInPlaceSliceReuse(c *Ctx, rule string) {
	la := c.locks()
	n := 0
	for _, fn := range c.SrcFns {
		allInstrs(fn, func(in ssa.Instruction) {
			ld, ok := in.(*ssa.UnOp)
			if !ok {
				return
			}
			fa, ok := ld.X.(*ssa.FieldAddr)
			if !ok {
				return
			}
			gs := la.specOfFieldAddr(fa)
			if gs == nil {
				return
			}
			if _, isSlice := ld.Type().Underlying().(*types.Slice); !isSlice {
				return
			}
			if la.isFresh(fa.X) {
				return
			}
			n++
			bad := ""
			for _, ref := range *ld.Referrers() {
				switch x := ref.(type) {
				case *ssa.Slice:
					if x.X == ssa.Value(ld) {
						bad = "re-sliced"
					}
				case *ssa.Call:
					if b, ok := x.Call.Value.(*ssa.Builtin); ok && b.Name() == "append" && len(x.Call.Args) > 0 && x.Call.Args[0] == ssa.Value(ld) {
						bad = "appended to"
					}
				case *ssa.IndexAddr:
					for _, r2 := range *x.Referrers() {
						if st, ok := r2.(*ssa.Store); ok && st.Addr == ssa.Value(x) {
							bad = "element stored in place"
						}
					}
				}
			}
			c.ob(rule, fn, "slice in "+gs.Type+"."+fieldName(fa.X.Type(), fa.Field)+" is never modified in place", ld, bad == "",
				"the loaded slice value is only read / copied / replaced wholesale (snapshot readers iterate it after unlocking) "+bad)
		})
	}
	if n == 0 {
		c.undecided(rule, nil, "guarded slice fields", nil, "no load of a guarded slice field found")
	}
}

// rulePoolSetsImmutable: the node-subnet set of a configured pool is shared by every request; it is installed by
// ConfigurePool and afterwards only read — values handed out (FloatingIPInfo.NodeSubnets) are copies.
func rulePoolSetsImmutable(c *Ctx, rule string) {
	res := runSharedMapTaint(c, []taintSrc{{Type: "FloatingIPPool", Field: "nodeSubnets", Whole: true}})
	c.note("%s: %d values may alias a pool's node-subnet set", rule, len(res.vals))
	if len(res.vals) < 5 {
		c.undecided(rule, nil, "reads of FloatingIPPool.nodeSubnets", nil, "fewer than 5 values alias the pool's node-subnet set: the rule no longer sees how it is used")
	}
	for _, s := range res.sinks {
		c.ob(rule, s.Parent(), "in-place modification of a set aliasing FloatingIPPool.nodeSubnets", s, false, "a pool's node-subnet set is shared by all requests; modifying a value that may alias it changes routing for every pod until the next ConfigurePool")
	}
	if len(res.sinks) == 0 {
		c.ob(rule, nil, "no write to a set aliasing a pool's node-subnet set", nil, true, "alias taint from FloatingIPPool.nodeSubnets reaches no Insert/Delete/map update")
	}
	// the set handed out in FloatingIPInfo is a fresh copy
	if fn := c.MustFn(rule, fipPkg, "(*crdIpam).toFloatingIPInfo"); fn != nil {
		n := 0
		allInstrs(fn, func(in ssa.Instruction) {
			st, ok := in.(*ssa.Store)
			if !ok {
				return
			}
			fa, ok := st.Addr.(*ssa.FieldAddr)
			if !ok || fieldName(fa.X.Type(), fa.Field) != "NodeSubnets" {
				return
			}
			n++
			_, tainted := res.vals[st.Val]
			c.ob(rule, fn, "FloatingIPInfo.NodeSubnets is a copy of the pool's set", st, !tainted && isResultOf(st.Val, 0, "sets.NewString"), "sets.NewString(pool.nodeSubnets.UnsortedList()...) — the caller may intersect / extend it freely")
		})
		if n == 0 {
			c.undecided(rule, fn, "NodeSubnets", nil, "no store to FloatingIPInfo.NodeSubnets found")
		}
	}
}

// rulePodLockKey: the per-pod lock is taken with (pod name, namespace) in that order at every call site, so that
// every path of one pod contends on the same key.
func rulePodLockKey(c *Ctx, rule string) {
	n := 0
	for _, fn := range c.SrcFns {
		for _, call := range callsLocal(fn, "(*FloatingIPPlugin).lockPod") {
			n++
			a := callArgs(call)
			okN := pathEndsWith(a[0], "Name") || pathEndsWith(a[0], "PodName")
			okS := pathEndsWith(a[1], "Namespace")
			c.ob(rule, fn, "lockPod(name, namespace)", call, okN && okS, "first argument is a pod name (.Name/.PodName), second a namespace (.Namespace): the key is namespace_name for every caller")
		}
	}
	if n < 5 {
		c.undecided(rule, nil, "lockPod call sites", nil, fmt.Sprintf("expected at least 5 lockPod call sites, found %d", n))
	}
}

// ruleTablesOnlyThroughHelpers: an ip is in exactly one of the two tables because single entries are moved only by
// the paired helpers (insert into allocated + delete from unallocated, and vice versa); wholesale replacement happens
// only in ConfigurePool.
func ruleTablesOnlyThroughHelpers(c *Ctx, rule string) {
	allowed := map[string]map[string]bool{
		"allocatedFIPs":   {"syncCacheAfterCreate": true, "syncCacheAfterDel": true},
		"unallocatedFIPs": {"syncCacheAfterCreate": true, "syncCacheAfterDel": true},
	}
	n := 0
	for _, fn := range c.SrcFns {
		if fn.Pkg.Pkg.Path() != modPath+fipPkg {
			continue
		}
		allInstrs(fn, func(in ssa.Instruction) {
			var m ssa.Value
			switch x := in.(type) {
			case *ssa.MapUpdate:
				m = x.Map
			case ssa.CallInstruction:
				if b, ok := x.Common().Value.(*ssa.Builtin); ok && b.Name() == "delete" {
					m = x.Common().Args[0]
				}
			}
			if m == nil {
				return
			}
			_, f, ok := fieldLoad(m)
			if !ok || allowed[f] == nil {
				return
			}
			n++
			root := fn
			for root.Parent() != nil {
				root = root.Parent()
			}
			c.ob(rule, fn, "entry of "+f+" changed only by the paired move helpers", in, allowed[f][bareName(root)], "single entries move between the tables only in syncCacheAfterCreate / syncCacheAfterDel (each inserts into one table and deletes from the other)")
		})
	}
	// each helper does both halves
	for _, h := range []string{"(*crdIpam).syncCacheAfterCreate", "(*crdIpam).syncCacheAfterDel"} {
		fn := c.MustFn(rule, fipPkg, h)
		if fn == nil {
			continue
		}
		ins, del := "", ""
		allInstrs(fn, func(in ssa.Instruction) {
			switch x := in.(type) {
			case *ssa.MapUpdate:
				_, ins, _ = fieldLoad(x.Map)
			case ssa.CallInstruction:
				if b, ok := x.Common().Value.(*ssa.Builtin); ok && b.Name() == "delete" {
					_, del, _ = fieldLoad(x.Common().Args[0])
				}
			}
		})
		c.ob(rule, fn, "move = insert into one table and delete from the other", nil, ins != "" && del != "" && ins != del, "inserts into "+ins+", deletes from "+del)
	}
	if n < 4 {
		c.undecided(rule, nil, "table entry mutations", nil, fmt.Sprintf("expected at least 4 single-entry mutations of the tables, found %d", n))
	}
}

// ruleWhoMayUnbind: the functions that free / reserve an ip after a pod is gone are entered only from the paths that
// first unassign it from the cloud provider (unbind, the release API, the resync closure).
func ruleWhoMayUnbind(c *Ctx, rule string) {
	allowedCallers := map[string]bool{"unbind": true, "resyncAllocatedIPs": true, "Release": true}
	n := 0
	for _, fn := range c.SrcFns {
		if fn.Pkg.Pkg.Path() != modPath+spPkg {
			continue
		}
		for _, call := range callsLocal(fn, "(*FloatingIPPlugin).unbindDpPod", "(*FloatingIPPlugin).unbindNoneDpPod", "IPAM).Release") {
			n++
			root := fn
			for root.Parent() != nil {
				root = root.Parent()
			}
			// an unexported helper all of whose call sites lie in those paths is part of them
			var okRoot func(f *ssa.Function, d int) bool
			okRoot = func(f *ssa.Function, d int) bool {
				for f.Parent() != nil {
					f = f.Parent()
				}
				if allowedCallers[bareName(f)] {
					return true
				}
				if d == 0 || len(staticSites[f]) == 0 || f.Object() == nil || f.Object().Exported() {
					return false
				}
				for _, cs := range staticSites[f] {
					if !okRoot(cs.Parent(), d-1) {
						return false
					}
				}
				return true
			}
			c.ob(rule, fn, shortCallee(call)+" called only from the unassign-first paths", call, okRoot(root, 2), "callers are unbind / Release / the resync closure (each unassigns from the provider before deciding to free or reserve), or an unexported helper called only from them")
		}
	}
	if n < 5 {
		c.undecided(rule, nil, "unbind*Pod / IPAM.Release call sites", nil, fmt.Sprintf("expected at least 5, found %d", n))
	}
}
