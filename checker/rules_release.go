package main

import (
	"fmt"
	"go/token"
	"strings"

	"golang.org/x/tools/go/ssa"
)

// the two asynchronous releasers: the release API and the resync closure
func releasers(c *Ctx, rule string) []*ssa.Function {
	var out []*ssa.Function
	if f := c.MustFn(rule, spPkg, "(*FloatingIPPlugin).Release"); f != nil {
		out = append(out, f)
	}
	rs := c.MustFn(rule, spPkg, "(*FloatingIPPlugin).resyncAllocatedIPs")
	if rs != nil {
		var cl *ssa.Function
		for _, a := range rs.AnonFuncs {
			if len(calls(a, "IPAM).ByIP")) > 0 {
				cl = a
			}
		}
		if cl == nil {
			c.undecided(rule, rs, "per-ip closure", nil, "no closure calling IPAM.ByIP found in resyncAllocatedIPs")
		} else {
			out = append(out, cl)
		}
	}
	return out
}

var freeingCalls = []string{"(*FloatingIPPlugin).cloudProviderUnAssignIP", "(*FloatingIPPlugin).reserveIP", "(*FloatingIPPlugin).releaseIP",
	"(*FloatingIPPlugin).unbindDpPod", "(*FloatingIPPlugin).unbindNoneDpPod", "IPAM).Release", "IPAM).ReleaseIPs", "IPAM).ReserveIP"}

// cellPath: address expression -> (base cell, field path) for FieldAddr chains rooted at an Alloc or FreeVar/Param pointer
func cellPath(addr ssa.Value) (ssa.Value, []string) {
	var path []string
	for {
		fa, ok := addr.(*ssa.FieldAddr)
		if !ok {
			return addr, path
		}
		path = append([]string{fieldName(fa.X.Type(), fa.Field)}, path...)
		addr = fa.X
	}
}

func isPrefix(a, b []string) bool {
	if len(a) > len(b) {
		return false
	}
	for i := range a {
		if a[i] != b[i] {
			return false
		}
	}
	return true
}

// derivesOnlyFrom: every source of v is the value src (a re-read record), possibly through a memory cell into which
// src (or a part of it) was stored by a store that dominates `use` and is the only store to that cell region in fn.
func (c *Ctx) derivesOnlyFrom(fn *ssa.Function, v ssa.Value, src ssa.Value, use ssa.Instruction) (bool, string) {
	seen := map[ssa.Value]bool{}
	var rec func(v ssa.Value, depth int) (bool, string)
	rec = func(v ssa.Value, depth int) (bool, string) {
		if v == src {
			return true, ""
		}
		if depth > 40 || seen[v] {
			return true, ""
		}
		seen[v] = true
		switch x := v.(type) {
		case *ssa.Const:
			return false, "constant " + x.String()
		case *ssa.Field:
			return rec(x.X, depth+1)
		case *ssa.ChangeType:
			return rec(x.X, depth+1)
		case *ssa.Convert:
			return rec(x.X, depth+1)
		case *ssa.MakeInterface:
			return rec(x.X, depth+1)
		case *ssa.Call:
			// value-preserving accessors such as net.IP.String()
			n := calleeName(x)
			if strings.HasSuffix(n, ".String") && len(x.Call.Args) == 1 {
				return rec(x.Call.Args[0], depth+1)
			}
			return false, "result of " + n
		case *ssa.Phi:
			for _, e := range x.Edges {
				if ok, why := rec(e, depth+1); !ok {
					return false, why
				}
			}
			return true, ""
		case *ssa.UnOp:
			if x.Op != token.MUL {
				return false, "operator"
			}
			base, path := cellPath(x.X)
			// stores in fn to an overlapping region of the same cell
			var stores []*ssa.Store
			allInstrs(fn, func(in ssa.Instruction) {
				if st, ok := in.(*ssa.Store); ok {
					b2, p2 := cellPath(st.Addr)
					if b2 == base && (isPrefix(p2, path) || isPrefix(path, p2)) {
						stores = append(stores, st)
					}
				}
			})
			if len(stores) == 0 {
				return false, "read of ." + strings.Join(path, ".") + " that is never refreshed in this function (stale snapshot)"
			}
			for _, st := range stores {
				if !precedes(fn, []ssa.Instruction{st}, use) {
					return false, "read of ." + strings.Join(path, ".") + ": the refreshing store at " + c.instrPos(st) + " does not precede the use on every path"
				}
				if ok, why := rec(st.Val, depth+1); !ok {
					return false, "stored value: " + why
				}
			}
			return true, ""
		case *ssa.Extract:
			return false, "component of " + calleeName(x.Tuple.(ssa.CallInstruction))
		case *ssa.Parameter:
			return false, "parameter " + x.Name()
		case *ssa.FreeVar:
			return false, "captured variable " + x.Name()
		}
		return false, fmt.Sprintf("%T", v)
	}
	return rec(v, 0)
}

// C04.R1/R2/R5, C10.R1/R4 — the asynchronous releasers.
func ruleReleasers(c *Ctx, rule string, part string) {
	for _, fn := range releasers(c, rule) {
		byip := calls(fn, "IPAM).ByIP")
		if len(byip) != 1 {
			c.undecided(rule, fn, "re-read of the ip", nil, fmt.Sprintf("expected exactly one IPAM.ByIP call, found %d", len(byip)))
			continue
		}
		var rec ssa.Value // the FloatingIP record returned by ByIP
		for _, ref := range *byip[0].Value().Referrers() {
			if ex, ok := ref.(*ssa.Extract); ok && ex.Index == 0 {
				rec = ex
			}
		}
		if rec == nil {
			c.undecided(rule, fn, "re-read of the ip", byip[0], "result of ByIP is not used")
			continue
		}
		running := calls(fn, "(*FloatingIPPlugin).podRunning")
		if len(running) != 1 {
			c.undecided(rule, fn, "liveness test", nil, "expected exactly one podRunning call")
			continue
		}
		var runVal ssa.Value
		for _, ref := range *running[0].Value().Referrers() {
			if ex, ok := ref.(*ssa.Extract); ok && ex.Index == 0 {
				runVal = ex
			}
		}
		frees := calls(fn, freeingCalls...)
		switch part {
		case "reread":
			ok, held := heldAt(c, fn, byip[0], podLockID)
			c.ob(rule, fn, "ip re-read under the pod lock", byip[0], ok, "IPAM.ByIP is called with the pod key-mutex held; held "+held)
		case "guards":
			notRunning := guardEdges(fn, negate(predBool(func(v ssa.Value) bool { return v == runVal })))
			keySame := guardEdges(fn, predEq(func(v ssa.Value) bool {
				b, n, ok := fieldLoad(v)
				return ok && n == "Key" && (b == rec || unspill(b) == rec || allocHolds(b, rec))
			}, func(v ssa.Value) bool {
				_, isC := v.(*ssa.Const)
				return !isC && pathEndsWith(v, "Key") || pathEndsWith(v, "KeyInDB")
			}))
			if len(frees) == 0 {
				c.undecided(rule, fn, "freeing calls", nil, "no unassign/reserve/release/unbind call found")
			}
			for _, m := range frees {
				c.ob(rule, fn, shortCallee(m)+" only if the pod is not running", m, guardedBy(fn, m, notRunning), "reachable only through the false edge of the `running` result of podRunning")
				c.ob(rule, fn, shortCallee(m)+" only if the re-read key is unchanged", m, guardedBy(fn, m, keySame), "reachable only through the equal edge of <re-read>.Key == <request key>")
			}
			// podRunning comes after the re-read
			c.ob(rule, fn, "liveness test after the re-read", running[0], precedes(fn, []ssa.Instruction{byip[0]}, running[0]), "ByIP precedes podRunning on every path")
		case "fresh":
			// inputs of the decision come from the re-read record
			uid := callArgs(running[0])[2]
			ok, why := c.derivesOnlyFrom(fn, uid, rec, running[0])
			c.ob(rule, fn, "uid given to the liveness test is the re-read PodUid", running[0], ok && pathEndsWith(uid, "PodUid"), "podRunning(.., uid): "+why)
			for _, u := range calls(fn, "(*FloatingIPPlugin).cloudProviderUnAssignIP") {
				req := callArgs(u)[0]
				allInstrs(fn, func(in ssa.Instruction) {
					st, ok := in.(*ssa.Store)
					if !ok {
						return
					}
					fa, ok := st.Addr.(*ssa.FieldAddr)
					if !ok || fa.X != req {
						return
					}
					f := fieldName(fa.X.Type(), fa.Field)
					if f != "NodeName" && f != "IPAddress" {
						return
					}
					ok2, why := c.derivesOnlyFrom(fn, st.Val, rec, st)
					want := map[string]string{"NodeName": "NodeName", "IPAddress": "IP"}[f]
					_, p := fieldPath(stripStringCall(st.Val))
					c.ob(rule, fn, "unassign request "+f+" is the re-read record's "+want, st, ok2 && len(p) > 0 && p[len(p)-1] == want, "UnAssignIPRequest."+f+": "+why)
				})
			}
			for _, u := range calls(fn, "(*FloatingIPPlugin).unbindDpPod", "(*FloatingIPPlugin).unbindNoneDpPod") {
				pol := callArgs(u)[1]
				ok, why := c.derivesOnlyFrom(fn, pol, rec, u)
				c.ob(rule, fn, "policy given to "+shortCallee(u)+" is the re-read stored policy", u, ok && pathEndsWith(stripConv(pol), "Policy"), "policy argument: "+why)
			}
		case "cloud":
			un := callsLocal(fn, "(*FloatingIPPlugin).cloudProviderUnAssignIP")
			var noneUnassigned []edge
			reserveInHelper := false
			host := fn
			if len(un) == 0 {
				// the whole provider block (unassign every ip, then clear node and uid) moved into a helper of its own: the
				// block is judged there, and its call is the unassign site here
				for _, h1 := range helperFns(fn, 1) {
					if errResultIndex(h1) < 0 || len(callsLocal(h1, "(*FloatingIPPlugin).cloudProviderUnAssignIP")) > 0 {
						continue
					}
					deep := false
					for _, h2 := range helperFns(h1, 1) {
						if len(callsLocal(h2, "(*FloatingIPPlugin).cloudProviderUnAssignIP")) > 0 {
							deep = true
						}
					}
					if !deep || len(callsLocal(h1, "(*FloatingIPPlugin).reserveIP")) == 0 {
						continue
					}
					for _, cs := range staticSites[h1] {
						if cs.Parent() == fn {
							un = append(un, cs)
						}
					}
					reserveInHelper = true
					host = h1
				}
			}
			if host != fn || len(un) == 0 {
				// the unassign of every ip of the key lives in a helper that returns (any unassigned, error): its call is the
				// unassign site here, and the helper is judged on its own
				var unHost []ssa.CallInstruction
				for _, h := range helperFns(host, 1) {
					inner := callsLocal(h, "(*FloatingIPPlugin).cloudProviderUnAssignIP")
					if len(inner) == 0 || errResultIndex(h) < 0 {
						continue
					}
					for _, cs := range staticSites[h] {
						if cs.Parent() == host {
							unHost = append(unHost, cs)
							noneUnassigned = append(noneUnassigned, guardEdges(host, negate(predBool(func(v ssa.Value) bool {
								ex, ok := v.(*ssa.Extract)
								return ok && ex.Tuple == ssa.Value(cs) && ex.Index == 0
							})))...)
						}
					}
					for _, u := range inner {
						okE, _, why := onErrorReturnsErr(h, u)
						c.ob(rule, h, "a failed unassign fails the helper", u, okE, why)
						// an ip is skipped only when no node is recorded for it
						hdr := loopHeaderOf(u)
						okSkip := hdr != nil
						if okSkip {
							nodeEmpty := guardEdges(h, predEq(func(v ssa.Value) bool { return pathEndsWith(v, "NodeName") }, func(v ssa.Value) bool { s, ok := constStringVal(v); return ok && s == "" }))
							for k := range hdr.Succs {
								if naturalLoop(hdr)[hdr.Succs[k]] && reachFromEdge(edge{hdr, k}, newCut().instr(u).edge(nodeEmpty...)).has(hdr.Instrs[0]) {
									okSkip = false
								}
							}
						}
						c.ob(rule, h, "every ip of the key with a recorded node is unassigned", u, okSkip, "inside the loop over the key's ips the next iteration is reached without the unassign only through the NodeName == \"\" edge")
					}
				}
				if host == fn {
					un = unHost
				} else {
					// in the block helper: node and uid are cleared only after the unassign helper succeeded
					for _, s2 := range unHost {
						okR := false
						for _, r := range callsLocal(host, "(*FloatingIPPlugin).reserveIP") {
							if ok, dec := onlyAfterSuccess(host, s2, r); ok && dec && (sameAccess(callArgs(r)[0], callArgs(r)[1]) || callArgs(r)[0] == callArgs(r)[1]) {
								okR = true
							}
						}
						c.ob(rule, host, "node and uid are cleared after a successful unassign", s2, okR, "reserveIP(key, key, ..) is called only after the unassign of the key's ips succeeded")
					}
				}
			}
			if len(un) == 0 {
				c.ob(rule, fn, "unassign before free", nil, false, "no cloudProviderUnAssignIP call")
				continue
			}
			final := calls(fn, "(*FloatingIPPlugin).unbindDpPod", "(*FloatingIPPlugin).unbindNoneDpPod", "IPAM).Release")
			for _, s := range un {
				bad, dec := onErrorNever(s, toInstrs(append(final, calls(fn, "(*FloatingIPPlugin).reserveIP")...)))
				if !dec {
					c.ob(rule, fn, "failed unassign stops", s, false, "error of cloudProviderUnAssignIP is not tested")
				} else {
					c.ob(rule, fn, "failed unassign stops", s, bad == nil, "no free/re-key call reachable from the err!=nil edge of the unassign")
				}
				// unassign exists on the cloudProvider != nil && NodeName != "" path and precedes the freeing on it:
				for _, m := range final {
					r := c.reachAfter(m, nil)
					c.ob(rule, fn, "never free first: no unassign after "+shortCallee(m), m, !r.has(s), "cloudProviderUnAssignIP is not reachable after the freeing call")
				}
				if reserveInHelper {
					continue
				}
				// after a successful unassign, reserveIP(key,key) (clears node and uid) precedes the freeing calls
				rs := calls(fn, "(*FloatingIPPlugin).reserveIP")
				okR := false
				for _, r := range rs {
					if ok, dec := onlyAfterSuccess(fn, s, r); ok && dec && sameAccess(callArgs(r)[0], callArgs(r)[1]) {
						okR = true
						for _, t := range errTests(s) {
							after := reachFromEdge(t.OkEdge, newCut().instr(r).edge(noneUnassigned...))
							for _, m := range final {
								c.ob(rule, fn, "node and uid cleared between a successful unassign and "+shortCallee(m), m, !after.has(m), "from the err==nil edge of the unassign the freeing call is reachable only past reserveIP(key,key)")
							}
						}
					}
				}
				c.ob(rule, fn, "node and uid are cleared after a successful unassign", s, okR, "reserveIP(key, key, ..) is called only after cloudProviderUnAssignIP succeeded")
			}
			// the unassign itself is guarded by cloudProvider != nil (nothing to call otherwise) — existence on that path
			cp := guardEdges(fn, predNeq(func(v ssa.Value) bool { return pathEndsWith(v, "cloudProvider") }, isNilConst))
			for _, m := range final {
				// on the path where a provider is configured and the record names a node, the free is preceded by an unassign
				r := reachFromEntry(fn, newCut().callInstrs(un))
				viaProvider := false
				for _, e := range cp {
					if reachFromEdge(e, newCut().callInstrs(un)).has(m) {
						// reachable from the provider edge without unassign: only allowed through the NodeName == "" edge
						viaProvider = true
					}
				}
				_ = r
				nodeEmpty := guardEdges(fn, predEq(func(v ssa.Value) bool { return pathEndsWith(v, "NodeName") }, func(v ssa.Value) bool { s, ok := constStringVal(v); return ok && s == "" }))
				ok := true
				if viaProvider {
					// must then be through NodeName == "" edge
					ok = false
					for _, e := range cp {
						if !reachFromEdge(e, newCut().callInstrs(un).edge(nodeEmpty...)).has(m) {
							ok = true
						}
					}
				}
				c.ob(rule, fn, "with a provider, "+shortCallee(m)+" is preceded by the unassign unless no node is recorded", m, ok, "from the cloudProvider != nil edge the freeing call is reachable without passing cloudProviderUnAssignIP only through the NodeName == \"\" edge")
			}
		}
	}
}

func stripStringCall(v ssa.Value) ssa.Value {
	if call, ok := v.(*ssa.Call); ok && strings.HasSuffix(calleeName(call), ".String") && len(call.Call.Args) == 1 {
		return call.Call.Args[0]
	}
	return v
}

// C04.R3 — fail-safe liveness test.
func ruleLivenessFailSafe(c *Ctx, rule string) {
	fn := c.MustFn(rule, spPkg, "runningAndUidMatch")
	if fn != nil {
		// param 2 is err; on err != nil, return false only through IsNotFound
		errNN := guardEdges(fn, predNeq(func(v ssa.Value) bool { return sameParam(v, pAt(fn, 2)) }, isNilConst))
		if len(errNN) == 0 {
			c.undecided(rule, fn, "err != nil test", nil, "expected a test of the err parameter against nil")
		} else {
			notFound := guardEdges(fn, predCall("errors.IsNotFound", nil))
			// the parameter does not change: coming from an err != nil edge, the err == nil side of another test of it is infeasible
			var errNil []edge
			for _, e := range errNN {
				errNil = append(errNil, edge{e.from, 1 - e.succ})
			}
			bad := false
			n := 0
			for _, ret := range returns(fn) {
				if b, ok := constBoolVal(retVal(ret, 0)); ok && !b {
					n++
					for _, e := range errNN {
						if reachFromEdge(e, newCut().edge(notFound...).edge(errNil...)).has(ret) {
							bad = true
						}
					}
				}
			}
			c.ob(rule, fn, "lookup error other than NotFound keeps the ip", nil, !bad && n > 0 && len(notFound) > 0, fmt.Sprintf("from the err!=nil edge a `return false` (%d in function) is reachable only through the true edge of IsNotFound(err)", n))
		}
		// not-finished pod => running: return false after the uid check only via finished(pod)
		fin := guardEdges(fn, predCall(spPkg+".finished", nil))
		uidMis := guardEdges(fn, predNeq(func(v ssa.Value) bool { return sameParam(v, pAt(fn, 0)) }, func(v ssa.Value) bool {
			return dependsOn(v, func(x ssa.Value) bool {
				call, ok := x.(*ssa.Call)
				return ok && strings.HasSuffix(calleeName(call), ".GetUID")
			})
		}))
		errEdges := errNN
		r := reachFromEntry(fn, newCut().edge(fin...).edge(uidMis...).edge(errEdges...).edge(guardEdges(fn, predCall("errors.IsNotFound", nil))...))
		bad := false
		for _, ret := range returns(fn) {
			if b, ok := constBoolVal(retVal(ret, 0)); ok && !b && r.has(ret) {
				bad = true
			}
		}
		c.ob(rule, fn, "a found pod is 'not running' only if finished or of another uid", nil, !bad && len(fin) > 0 && len(uidMis) > 0, "`return false` is reachable only through: IsNotFound, stored-uid mismatch, or finished(pod)")
	}
	pr := c.MustFn(rule, spPkg, "(*FloatingIPPlugin).podRunning")
	if pr != nil {
		gets := calls(pr, "PodInterface).Get")
		lister := calls(pr, "PodNamespaceLister).Get")
		empty := guardEdges(pr, predEq(func(v ssa.Value) bool { return sameParam(v, pr.Params[1]) || sameParam(v, pr.Params[2]) },
			func(v ssa.Value) bool { s, ok := constStringVal(v); return ok && s == "" }))
		if len(gets) == 0 || len(lister) == 0 {
			c.ob(rule, pr, "lister then API server", nil, false, fmt.Sprintf("expected a lister Get and an API-server Get (found %d, %d)", len(lister), len(gets)))
		} else {
			r := reachFromEntry(pr, newCut().callInstrs(gets).edge(empty...))
			bad := false
			n := 0
			for _, ret := range returns(pr) {
				if b, ok := constBoolVal(retVal(ret, 0)); ok && !b {
					n++
					if r.has(ret) {
						bad = true
					}
				}
			}
			c.ob(rule, pr, "'not running' only after asking the API server", nil, !bad && n > 0, "`return false` is reachable only past the API-server Pods().Get (or through the empty pod-name/namespace edge: an ip held in reserve without a pod)")
			// both answers go through runningAndUidMatch with the stored uid
			rm := calls(pr, spPkg+".runningAndUidMatch")
			okU := len(rm) == 2
			for _, m := range rm {
				if !sameParam(callArgs(m)[0], pr.Params[3]) {
					okU = false
				}
			}
			c.ob(rule, pr, "both answers are classified with the stored uid", nil, okU, "runningAndUidMatch(podUid, ..) for the lister and for the API-server answer")
		}
	}
}

// C04.R6 — release events are queued only for pods that are gone or finished.
func ruleReleaseEventsQueued(c *Ctx, rule string) {
	isUnreleased := func(v ssa.Value) bool { return pathEndsWith(v, "unreleased") }
	sends := func(fn *ssa.Function) []*ssa.Send {
		var out []*ssa.Send
		allInstrs(fn, func(in ssa.Instruction) {
			if s, ok := in.(*ssa.Send); ok && isUnreleased(s.Chan) {
				out = append(out, s)
			}
		})
		if len(out) == 0 {
			// the send may have been extracted into a small helper (enqueue(pod)); the walks follow the helper call
			for _, h := range helperFns(fn, 1) {
				allInstrs(h, func(in ssa.Instruction) {
					if s, ok := in.(*ssa.Send); ok && isUnreleased(s.Chan) {
						out = append(out, s)
					}
				})
			}
		}
		return out
	}
	if fn := c.MustFn(rule, spPkg, "(*FloatingIPPlugin).Bind"); fn != nil {
		ss := sends(fn)
		nf := guardEdgesX(fn, predCall("errors.IsNotFound", nil))
		if len(ss) == 0 {
			c.note("%s: Bind no longer queues a release event", rule)
		}
		for _, s := range ss {
			c.ob(rule, fn, "Bind queues a release event only if the pod no longer exists", s, guardedBy(fn, s, nf), "send on p.unreleased reachable only through the true edge of apierrors.IsNotFound(<bind error>)")
		}
	}
	if fn := c.MustFn(rule, spPkg, "(*FloatingIPPlugin).UpdatePod"); fn != nil {
		ss := sends(fn)
		if len(ss) != 1 {
			c.ob(rule, fn, "finish transition queues a release event", nil, false, fmt.Sprintf("expected one send on p.unreleased, found %d", len(ss)))
		}
		finNew := guardEdges(fn, predCall(spPkg+".finished", func(call *ssa.Call) bool { return sameParam(call.Call.Args[0], pAt(fn, 2)) }))
		notFinOld := guardEdges(fn, negate(predCall(spPkg+".finished", func(call *ssa.Call) bool { return sameParam(call.Call.Args[0], pAt(fn, 1)) })))
		for _, s := range ss {
			c.ob(rule, fn, "release event only on the not-finished -> finished transition", s, guardedBy(fn, s, finNew) && guardedBy(fn, s, notFinOld), "send guarded by !finished(oldPod) && finished(newPod)")
			// the event carries the new pod
			c.ob(rule, fn, "on the transition every path sends the event", s, sendOnEveryPath(fn, finNew, s), "from the finished(newPod) edge every path to a return passes the send")
		}
	}
	if fn := c.MustFn(rule, spPkg, "(*FloatingIPPlugin).DeletePod"); fn != nil {
		ss := sends(fn)
		has := guardEdges(fn, predCall("(*FloatingIPPlugin).hasResourceName", nil))
		ok := len(ss) == 1 && len(has) == 1
		if ok {
			ok = sendOnEveryPath(fn, has, ss[0])
		}
		c.ob(rule, fn, "every delete event of a floating-ip pod is queued", nil, ok, "from the hasResourceName edge every path to a return passes the send on p.unreleased")
	}
	if fn := c.MustFn(rule, spPkg, "(*FloatingIPPlugin).loop"); fn != nil {
		for _, a := range fn.AnonFuncs {
			un := calls(a, "(*FloatingIPPlugin).unbind")
			ss := sends(a)
			if len(un) != 1 {
				continue
			}
			okRe := false
			for _, s := range ss {
				if bad, dec := onErrorNever(un[0], []ssa.Instruction{s}); dec && bad != nil {
					okRe = true // re-enqueue reachable from the error edge
				}
				ok, dec := onlyAfterSuccess(a, un[0], s)
				if dec && ok {
					okRe = false // only after success would be wrong
				}
			}
			c.ob(rule, a, "a failed unbind is re-queued", un[0], okRe, "a send of the same event on p.unreleased is reachable from the err!=nil edge of unbind (bounded by retryTimes)")
		}
	}
}

func sendOnEveryPath(fn *ssa.Function, from []edge, s ssa.Instruction) bool {
	for _, e := range from {
		r := reachFromEdge(e, newCut().instr(s))
		for _, ret := range returns(fn) {
			if r.has(ret) {
				return false
			}
		}
	}
	return len(from) > 0
}

// allocHolds: b is a local cell whose only store is the whole value v.
func allocHolds(b ssa.Value, v ssa.Value) bool {
	a, ok := b.(*ssa.Alloc)
	if !ok {
		return false
	}
	n := 0
	okAll := true
	for _, ref := range *a.Referrers() {
		if st, ok := ref.(*ssa.Store); ok && st.Addr == a {
			n++
			if st.Val != v {
				okAll = false
			}
		}
	}
	return n == 1 && okAll
}

// sameAccess: the two values are the same SSA value or loads of the same access path from the same root.
func sameAccess(a, b ssa.Value) bool {
	if a == b {
		return true
	}
	if la, ok := a.(*ssa.UnOp); ok && la.Op == token.MUL {
		if lb, ok := b.(*ssa.UnOp); ok && lb.Op == token.MUL && la.X == lb.X {
			return true
		}
	}
	ra, pa := fieldPath(a)
	rb, pb := fieldPath(b)
	if len(pa) == 0 || len(pa) != len(pb) {
		return false
	}
	for i := range pa {
		if pa[i] != pb[i] {
			return false
		}
	}
	if ra == rb {
		return true
	}
	// roots that are themselves loads of the same path
	if len(pa) > 0 {
		if _, ok := ra.(*ssa.UnOp); ok {
			return sameAccess(ra, rb)
		}
	}
	return false
}
