package main

func init() {
	register(&propDef{ID: "C12", Title: "CNI multi-network ADD/DEL is ordered, paired, rolled back and isolated",
		Explanation: "Decides: (R1) CmdAdd persists the network list before the first ADD, aborts on a failed save, rolls a failed ADD back through CmdDel starting at the failing index and returns a non-nil error, chains prevResult from the previous delegate; (R2) CmdDel consumes the state before any DEL, a missing state file succeeds without invoking anything, the loop index decreases, failed DELs are appended, reversed back into ADD order, re-saved and the DEL fails; (R3) in the request handler port mappings are set up only after a successful ADD, cleaned up when their setup fails, and removed only after a successful DEL; (R4) isolation: alias taint from the elements of Galaxy.netConf / NetworkConf reaches no map write, configuration is handed out as copies, and the table itself is written only on the way from Init; (R5) network selection (annotation / ENI network / defaults) and interface naming follow the documented order, and every common.* argument is copied to every network. (R6) the saved network list is removed only by consumeNetworkInfo (who-may-remove), CmdAdd touches it only through saveNetworkInfo and the rollback CmdDel, and the JSON form of the networks annotation is used as decoded (no field of a decoded entry is rewritten). Does not decide behaviour for every failure pattern or request sequence, nor what the plugin binary receives byte for byte. (R1, extended) the loop around DelegateDel is left only when exhausted (a failing delegate does not stop the walk). (R7) every path argument of the file operations in saveNetworkInfo / consumeNetworkInfo derives from the containerID parameter (no shared temporary file). (R8) DelegateAdd / DelegateDel have no nil-error return that does not pass invoke.ExecPlugin*. (R9) every success return of GetNetworkConfig passes ReadDir(confdir) (in the function or in a helper all of whose success returns pass it).",
		Assumptions: []string{"alias taint is field-based and flow-insensitive (may over-approximate aliasing, never under-approximates within the module)", "nested maps inside a configuration are not tracked (only CmdAdd's top-level write exists today)"},
		Run: func(c *Ctx) {
			c.Rule("C12.R9", "the sub directories of confdir are always searched", 1)
			ruleConfDirSubdirsAlwaysSearched(c, "C12.R9")
			c.Rule("C12.R1", "CmdAdd / CmdDel ordering, pairing, rollback", 6)
			ruleCniAddDel(c, "C12.R1")
			c.Rule("C12.R2", "delegates receive Conf and IfName of the same entry", 1)
			ruleDelegateArgs(c, "C12.R2")
			c.Rule("C12.R8", "a delegate call succeeds only if the plugin was executed", 2)
			ruleDelegateSuccessOnlyAfterExec(c, "C12.R8")
			c.Rule("C12.R7", "state files are named after the container of the request", 2)
			ruleStateFilePerContainer(c, "C12.R7")
			c.Rule("C12.R6", "state file removed only by consuming it; JSON annotation entries used as decoded", 1)
			ruleStateFileOwnership(c, "C12.R6")
			ruleAnnotationJSONUntouched(c, "C12.R6")
			c.Rule("C12.R3", "port mapping pairing in the request handler", 1)
			ruleRequestPortMapping(c, "C12.R3")
			c.Rule("C12.R4", "static configuration never written after Init", 1)
			ruleSharedConfImmutable(c, "C12.R4")
			c.Rule("C12.R5", "network selection and interface naming", 3)
			ruleNetworkSelection(c, "C12.R5")
		}})
}
