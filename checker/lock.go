package main

// E1 — lockset / guarded-by analysis: flow-sensitive must-hold sets per function, interprocedural by
// "requires" summaries (which locks a function needs its caller to hold), with lock wrappers
// (functions that acquire and return the releasing closure), deferred releases, deferred closures (LIFO),
// synchronous callbacks, class-hierarchy resolution of interface calls inside the module, residency of
// table objects (objects reachable from a guarded map must be accessed under the map's lock), the lock-order
// graph and pairing.

import (
	"fmt"
	"go/token"
	"go/types"
	"sort"
	"strings"

	"golang.org/x/tools/go/ssa"
)

type lockMode int

const (
	modeNone lockMode = 0
	modeR    lockMode = 1
	modeW    lockMode = 2
)

func (m lockMode) String() string {
	switch m {
	case modeR:
		return "R"
	case modeW:
		return "W"
	}
	return "-"
}

// guardSpec: fields of a struct type that must only be accessed under a lock.
type guardSpec struct {
	Pkg, Type string
	Fields    []string
	Lock      string // lock id "Type.field"
	// Resident: objects stored in the guarded maps (pointer element type name) whose listed fields are
	// guarded by the same lock; WriteOnce fields may be read without the lock but written only in constructors.
	ResidentElem   string
	ResidentFields []string
	WriteOnce      []string
	Constructors   []string // function names allowed to write WriteOnce fields (on fresh objects)
}

var guardSpecs = []guardSpec{
	{Pkg: "pkg/ipam/floatingip", Type: "crdIpam", Fields: []string{"allocatedFIPs", "unallocatedFIPs", "FloatingIPs"},
		Lock: "crdIpam.cacheLock", ResidentElem: "FloatingIP",
		ResidentFields: []string{"Key", "Policy", "UpdatedAt", "NodeName", "PodUid", "Labels"},
		WriteOnce:      []string{"IP", "pool"}, Constructors: []string{"New", "(*FloatingIP).CloneWith"}},
	{Pkg: "pkg/ipam/schedulerplugin", Type: "FloatingIPPlugin", Fields: []string{"nodeSubnet"}, Lock: "FloatingIPPlugin.nodeSubnetLock"},
	{Pkg: "pkg/ipam/schedulerplugin", Type: "crdKey", Fields: []string{"keyToGVR"}, Lock: "crdKey.Mutex"},
	{Pkg: "pkg/ipam/crd", Type: "crdCache", Fields: []string{"startedInformers"}, Lock: "crdCache.lock"},
	{Pkg: "pkg/network/portmapping", Type: "PortMappingHandler", Fields: []string{"podPortMap"}, Lock: "PortMappingHandler.Mutex"},
	{Pkg: "pkg/policy", Type: "PolicyManager", Fields: []string{"policies"}, Lock: "PolicyManager.Mutex"},
}

// external functions that run a closure argument synchronously on the caller's goroutine
var extSyncCallers = []string{
	"k8s.io/apimachinery/pkg/util/wait.PollImmediate", "k8s.io/apimachinery/pkg/util/wait.Poll",
	"k8s.io/apimachinery/pkg/util/wait.PollInfinite", "k8s.io/apimachinery/pkg/util/wait.PollImmediateInfinite",
	"sort.Slice", "sort.SliceStable", "(*sync.Once).Do",
}

type lockNeed struct {
	at     ssa.Instruction
	lock   string
	mode   lockMode
	what   string
	cond   int           // -1: unconditional; >=0: only if parameter #cond is a table-resident object
	via    *ssa.Function // callee the need comes from (nil = direct access)
	viaReq *reqEntry
}

type reqEntry struct {
	lock  string
	mode  lockMode
	need  *lockNeed // first need that caused it (for the chain)
	owner *ssa.Function
}

type heldState struct {
	held     map[string]lockMode
	deferred map[string]bool
	top      bool
}

func (s *heldState) clone() *heldState {
	n := &heldState{held: map[string]lockMode{}, deferred: map[string]bool{}, top: s.top}
	for k, v := range s.held {
		n.held[k] = v
	}
	for k := range s.deferred {
		n.deferred[k] = true
	}
	return n
}

func meet(a, b *heldState) *heldState {
	if a.top {
		return b.clone()
	}
	if b.top {
		return a.clone()
	}
	n := &heldState{held: map[string]lockMode{}, deferred: map[string]bool{}}
	for k, v := range a.held {
		if w, ok := b.held[k]; ok {
			if w < v {
				v = w
			}
			n.held[k] = v
		}
	}
	for k := range a.deferred {
		if b.deferred[k] {
			n.deferred[k] = true
		}
	}
	return n
}

func (s *heldState) equal(o *heldState) bool {
	if s.top != o.top || len(s.held) != len(o.held) || len(s.deferred) != len(o.deferred) {
		return false
	}
	for k, v := range s.held {
		if o.held[k] != v {
			return false
		}
	}
	for k := range s.deferred {
		if !o.deferred[k] {
			return false
		}
	}
	return true
}

func (s *heldState) String() string {
	var ks []string
	for k, v := range s.held {
		x := k + ":" + v.String()
		if s.deferred[k] {
			x += "(deferred-release)"
		}
		ks = append(ks, x)
	}
	sort.Strings(ks)
	return "{" + strings.Join(ks, ", ") + "}"
}

type fnLock struct {
	fn       *ssa.Function
	before   map[ssa.Instruction]*heldState // state before each instruction
	needs    []*lockNeed
	req      map[string]*reqEntry         // unconditional requirements at entry
	preq     map[int]map[string]*reqEntry // requirements conditional on param i being resident
	acquires map[string]bool              // locks this function (transitively) may acquire
	wrapper  string                       // lock id if fn is a lock wrapper (acquires and returns releaser)
	callees  map[ssa.Instruction][]*ssa.Function
	// how closures created in fn are consumed
	kept []string // pairing problems: "lock kept at return"
}

type orderEdge struct {
	a, b string
	at   ssa.Instruction
	fn   *ssa.Function
	via  string
}

type lockAnalysis struct {
	c         *Ctx
	info      map[*ssa.Function]*fnLock
	specByFld map[*types.Var]*guardSpec
	resident  map[*types.Named]*guardSpec
	retRes    map[*ssa.Function]*guardSpec // functions returning a pointer to a table-resident object
	autoG     map[string]string            // "Type.field" -> lock: fields inferred to be guarded (written after construction, in no table)
	impls     map[string][]*ssa.Function
	fieldFns  map[*types.Var][]*ssa.Function // functions stored into func-typed struct fields
	syncParam map[*ssa.Function]map[int]bool // params that are synchronous callbacks
	consumed  map[*ssa.Function]string       // anonymous fn -> how it is consumed ("sync","defer","call","wrapper-result", "root")
	roots     map[*ssa.Function]string
	order     []orderEdge
	extraNeed func(fn *ssa.Function, call ssa.CallInstruction) (lock string, mode lockMode, what string, ok bool)
	accessN   map[string]int // guarded accesses per lock id (vacuity guard)
}

// ---------- lock identity ----------

func typeNameOf(t types.Type) string {
	t = deref(t)
	if n, ok := t.(*types.Named); ok {
		return n.Obj().Name()
	}
	return ""
}

// lockIDOf resolves the receiver of a Lock/Unlock/LockKey call to "Type.field".
func lockIDOf(v ssa.Value) string {
	for {
		switch x := v.(type) {
		case *ssa.UnOp:
			if x.Op == token.MUL {
				v = x.X
				continue
			}
		case *ssa.FieldAddr:
			tn := typeNameOf(x.X.Type())
			return tn + "." + fieldName(x.X.Type(), x.Field)
		case *ssa.Field:
			tn := typeNameOf(x.X.Type())
			return tn + "." + fieldName(x.X.Type(), x.Field)
		case *ssa.Global:
			return x.Pkg.Pkg.Name() + "." + x.Name()
		case *ssa.ChangeType:
			v = x.X
			continue
		case *ssa.MakeInterface:
			v = x.X
			continue
		}
		return "?" + v.Name()
	}
}

type lockOp struct {
	kind string // "acq","rel"
	lock string
	mode lockMode
}

func classifyLockCall(call ssa.CallInstruction) (lockOp, bool) {
	n := calleeName(call)
	recv := recvOf(call)
	if recv == nil {
		return lockOp{}, false
	}
	switch n {
	case "(*sync.Mutex).Lock", "(*sync.RWMutex).Lock":
		return lockOp{"acq", lockIDOf(recv), modeW}, true
	case "(*sync.RWMutex).RLock":
		return lockOp{"acq", lockIDOf(recv), modeR}, true
	case "(*sync.Mutex).Unlock", "(*sync.RWMutex).Unlock", "(*sync.RWMutex).RUnlock":
		return lockOp{"rel", lockIDOf(recv), modeNone}, true
	case "(k8s.io/utils/keymutex.KeyMutex).LockKey":
		return lockOp{"acq", lockIDOf(recv), modeW}, true
	case "(k8s.io/utils/keymutex.KeyMutex).UnlockKey":
		return lockOp{"rel", lockIDOf(recv), modeNone}, true
	}
	return lockOp{}, false
}

var builtinExtraNeed func(fn *ssa.Function, call ssa.CallInstruction) (lock string, mode lockMode, what string, ok bool)

// ---------- construction ----------

func (c *Ctx) locks() *lockAnalysis {
	if c.lockA != nil {
		return c.lockA
	}
	la := &lockAnalysis{c: c, info: map[*ssa.Function]*fnLock{}, specByFld: map[*types.Var]*guardSpec{},
		resident: map[*types.Named]*guardSpec{}, impls: map[string][]*ssa.Function{}, fieldFns: map[*types.Var][]*ssa.Function{},
		syncParam: map[*ssa.Function]map[int]bool{}, consumed: map[*ssa.Function]string{}, roots: map[*ssa.Function]string{},
		accessN: map[string]int{}}
	c.lockA = la
	for i := range c.GuardSpecs {
		gs := &c.GuardSpecs[i]
		nt := c.namedType(gs.Pkg, gs.Type)
		if nt == nil {
			c.add(&Obligation{Rule: "E1.anchor", Func: "@/" + gs.Pkg + "." + gs.Type, Construct: "anchor", Status: Undecided,
				Detail: "guarded struct type not found"})
			continue
		}
		st, _ := nt.Underlying().(*types.Struct)
		found := map[string]bool{}
		for j := 0; st != nil && j < st.NumFields(); j++ {
			for _, f := range gs.Fields {
				if st.Field(j).Name() == f {
					la.specByFld[st.Field(j)] = gs
					found[f] = true
				}
			}
		}
		for _, f := range gs.Fields {
			if !found[f] {
				c.add(&Obligation{Rule: "E1.anchor", Func: "@/" + gs.Pkg + "." + gs.Type + "." + f, Construct: "anchor",
					Status: Undecided, Detail: "guarded field not found"})
			}
		}
		// the lock field must exist
		lf := strings.SplitN(gs.Lock, ".", 2)[1]
		okLock := false
		for j := 0; st != nil && j < st.NumFields(); j++ {
			if st.Field(j).Name() == lf {
				okLock = true
			}
		}
		if !okLock {
			c.add(&Obligation{Rule: "E1.anchor", Func: "@/" + gs.Pkg + "." + gs.Lock, Construct: "anchor", Status: Undecided,
				Detail: "lock field not found"})
		}
		if gs.ResidentElem != "" {
			if rt := c.namedType(gs.Pkg, gs.ResidentElem); rt != nil {
				la.resident[rt] = gs
			}
		}
	}
	la.autoGuard()
	la.prepass()
	// functions handing a table-resident pointer to their caller (fixpoint over the static call graph)
	la.retRes = map[*ssa.Function]*guardSpec{}
	for ch, iter := true, 0; ch && iter < 6; iter++ {
		ch = false
		for _, fn := range c.SrcFns {
			if la.retRes[fn] != nil || fn.Signature.Results().Len() == 0 {
				continue
			}
			hasRes := false
			for i := 0; i < fn.Signature.Results().Len(); i++ {
				if la.residentSpecOf(fn.Signature.Results().At(i).Type()) != nil {
					hasRes = true
				}
			}
			if !hasRes {
				continue
			}
			org, _ := la.origins(fn)
			for _, ret := range returns(fn) {
				for i := range ret.Results {
					if o := org[retVal(ret, i)]; o != nil && o.table {
						la.retRes[fn] = o.spec
						ch = true
					}
				}
			}
		}
	}
	for _, fn := range c.SrcFns {
		la.analyze(fn)
	}
	la.solve()
	return la
}

func (la *lockAnalysis) specOfFieldAddr(fa *ssa.FieldAddr) *guardSpec {
	fv := fieldVar(fa.X.Type(), fa.Field)
	if fv == nil {
		return nil
	}
	return la.specByFld[fv]
}

func (la *lockAnalysis) residentSpecOf(t types.Type) *guardSpec {
	p, ok := t.Underlying().(*types.Pointer)
	if !ok {
		return nil
	}
	n, ok := p.Elem().(*types.Named)
	if !ok {
		return nil
	}
	return la.resident[n]
}

func contains(ss []string, s string) bool {
	for _, x := range ss {
		if x == s {
			return true
		}
	}
	return false
}

// prepass: wrappers, func-typed field stores, synchronous callback params, closure consumption.
func (la *lockAnalysis) prepass() {
	c := la.c
	for _, fn := range c.SrcFns {
		la.info[fn] = &fnLock{fn: fn, before: map[ssa.Instruction]*heldState{}, req: map[string]*reqEntry{},
			preq: map[int]map[string]*reqEntry{}, acquires: map[string]bool{}, callees: map[ssa.Instruction][]*ssa.Function{}}
	}
	// lock wrappers: every return yields a closure that releases L, and fn acquires L.
	for _, fn := range c.SrcFns {
		res := fn.Signature.Results()
		if res.Len() != 1 {
			continue
		}
		if _, ok := res.At(0).Type().Underlying().(*types.Signature); !ok {
			continue
		}
		acq := map[string]bool{}
		allInstrs(fn, func(in ssa.Instruction) {
			if ci, ok := in.(*ssa.Call); ok {
				if op, ok := classifyLockCall(ci); ok && op.kind == "acq" {
					acq[op.lock] = true
				}
			}
		})
		if len(acq) == 0 {
			continue
		}
		lock := ""
		okAll := true
		rets := returns(fn)
		for _, r := range rets {
			mc, ok := r.Results[0].(*ssa.MakeClosure)
			if !ok {
				okAll = false
				break
			}
			rel := ""
			allInstrs(mc.Fn.(*ssa.Function), func(in ssa.Instruction) {
				if ci, ok := in.(ssa.CallInstruction); ok {
					if op, ok := classifyLockCall(ci); ok && op.kind == "rel" {
						rel = op.lock
					}
				}
			})
			if rel == "" || !acq[rel] || (lock != "" && lock != rel) {
				okAll = false
				break
			}
			lock = rel
		}
		if okAll && lock != "" && len(rets) > 0 {
			la.info[fn].wrapper = lock
			for _, r := range rets {
				la.consumed[r.Results[0].(*ssa.MakeClosure).Fn.(*ssa.Function)] = "wrapper-result"
			}
		}
	}
	// stores of functions into func-typed struct fields
	for _, fn := range c.SrcFns {
		allInstrs(fn, func(in ssa.Instruction) {
			st, ok := in.(*ssa.Store)
			if !ok {
				return
			}
			fa, ok := st.Addr.(*ssa.FieldAddr)
			if !ok {
				return
			}
			fv := fieldVar(fa.X.Type(), fa.Field)
			if fv == nil {
				return
			}
			if _, ok := fv.Type().Underlying().(*types.Signature); !ok {
				return
			}
			if f := la.funcOfValue(st.Val); f != nil {
				la.fieldFns[fv] = append(la.fieldFns[fv], f)
			} else {
				la.fieldFns[fv] = append(la.fieldFns[fv], nil) // unknown
			}
		})
	}
	// synchronous callback params
	for _, fn := range c.SrcFns {
		for i, p := range fn.Params {
			if _, ok := p.Type().Underlying().(*types.Signature); !ok {
				continue
			}
			only := true
			n := 0
			for _, ref := range *p.Referrers() {
				ci, ok := ref.(*ssa.Call)
				if ok && ci.Call.Value == p {
					n++
					continue
				}
				if _, isDbg := ref.(*ssa.DebugRef); isDbg {
					continue
				}
				only = false
			}
			if only && n > 0 {
				if la.syncParam[fn] == nil {
					la.syncParam[fn] = map[int]bool{}
				}
				la.syncParam[fn][i] = true
			}
		}
	}
}

// funcOfValue resolves a function value: function, closure, bound-method closure.
func (la *lockAnalysis) funcOfValue(v ssa.Value) *ssa.Function {
	switch x := v.(type) {
	case *ssa.Function:
		return la.unwrapBound(x)
	case *ssa.MakeClosure:
		return la.unwrapBound(x.Fn.(*ssa.Function))
	case *ssa.ChangeType:
		return la.funcOfValue(x.X)
	}
	return nil
}

func (la *lockAnalysis) unwrapBound(f *ssa.Function) *ssa.Function {
	if f.Synthetic != "" && f.Object() != nil {
		if tf, ok := f.Object().(*types.Func); ok {
			if g := la.c.Prog.FuncValue(tf); g != nil {
				return g
			}
		}
	}
	return f
}

// implsOf: module methods implementing an interface method (class hierarchy).
func (la *lockAnalysis) implsOf(m *types.Func) []*ssa.Function {
	key := m.FullName()
	if r, ok := la.impls[key]; ok {
		return r
	}
	var out []*ssa.Function
	recv := m.Type().(*types.Signature).Recv()
	if recv == nil {
		la.impls[key] = nil
		return nil
	}
	iface, _ := recv.Type().Underlying().(*types.Interface)
	if iface == nil {
		la.impls[key] = nil
		return nil
	}
	for _, pkg := range la.c.Prog.AllPackages() {
		if !strings.HasPrefix(pkg.Pkg.Path(), la.c.Mod) {
			continue
		}
		for _, mem := range pkg.Members {
			t, ok := mem.(*ssa.Type)
			if !ok {
				continue
			}
			nt, ok := t.Type().(*types.Named)
			if !ok || types.IsInterface(nt) {
				continue
			}
			for _, typ := range []types.Type{nt, types.NewPointer(nt)} {
				if !types.Implements(typ, iface) {
					continue
				}
				sel := la.c.Prog.MethodSets.MethodSet(typ).Lookup(m.Pkg(), m.Name())
				if sel == nil {
					continue
				}
				if f := la.c.Prog.MethodValue(sel); f != nil {
					f = la.unwrapBound(f)
					if f.Blocks != nil || f.Synthetic == "" {
						out = append(out, f)
					}
				}
				break
			}
		}
	}
	la.impls[key] = out
	return out
}

// calleesOf: module functions a call may invoke (static, closure, interface CHA, func-field binding).
func (la *lockAnalysis) calleesOf(call ssa.CallInstruction) []*ssa.Function {
	var out []*ssa.Function
	seen := map[*ssa.Function]bool{}
	for _, f := range la.calleesOf0(call) {
		if _, ok := la.info[f]; ok && !seen[f] {
			seen[f] = true
			out = append(out, f)
		}
	}
	// thorough tier: callees of dynamic calls (func values, interfaces) from the VTA call graph
	if la.c.vtaCallees != nil {
		for _, f := range la.c.vtaCallees[call] {
			f = la.unwrapBound(f)
			if _, ok := la.info[f]; ok && !seen[f] {
				seen[f] = true
				out = append(out, f)
			}
		}
	}
	return out
}

func (la *lockAnalysis) calleesOf0(call ssa.CallInstruction) []*ssa.Function {
	cc := call.Common()
	if cc.IsInvoke() {
		return la.implsOf(cc.Method)
	}
	if f := cc.StaticCallee(); f != nil {
		f = la.unwrapBound(f)
		if _, ok := la.info[f]; ok {
			return []*ssa.Function{f}
		}
		// synthetic wrapper (e.g. promoted method): follow to its target if it is a thin wrapper
		return nil
	}
	// call through a func-typed struct field
	if ld, ok := cc.Value.(*ssa.UnOp); ok && ld.Op == token.MUL {
		if fa, ok := ld.X.(*ssa.FieldAddr); ok {
			if fv := fieldVar(fa.X.Type(), fa.Field); fv != nil {
				var out []*ssa.Function
				for _, f := range la.fieldFns[fv] {
					if f != nil {
						out = append(out, f)
					}
				}
				return out
			}
		}
	}
	return nil
}

// ---------- per-function analysis ----------

type origin struct {
	table bool
	spec  *guardSpec
	param map[int]bool
}

func (la *lockAnalysis) analyze(fn *ssa.Function) {
	fi := la.info[fn]
	// static maps: releaser values (results of wrapper calls)
	releaser := map[ssa.Value]string{}
	allInstrs(fn, func(in ssa.Instruction) {
		if ci, ok := in.(*ssa.Call); ok {
			for _, g := range la.calleesOf(ci) {
				if w := la.info[g].wrapper; w != "" {
					releaser[ci] = w
				}
			}
		}
	})
	// forward dataflow
	in := map[*ssa.BasicBlock]*heldState{}
	for _, b := range fn.Blocks {
		in[b] = &heldState{top: true}
	}
	if len(fn.Blocks) == 0 {
		return
	}
	in[fn.Blocks[0]] = &heldState{held: map[string]lockMode{}, deferred: map[string]bool{}}
	work := []*ssa.BasicBlock{fn.Blocks[0]}
	inWork := map[*ssa.BasicBlock]bool{fn.Blocks[0]: true}
	transfer := func(s *heldState, ins ssa.Instruction) {
		switch x := ins.(type) {
		case *ssa.Call:
			if op, ok := classifyLockCall(x); ok {
				if op.kind == "acq" {
					s.held[op.lock] = op.mode
				} else {
					delete(s.held, op.lock)
					delete(s.deferred, op.lock)
				}
				return
			}
			if l, ok := releaser[x]; ok { // call of a wrapper: acquires
				s.held[l] = modeW
				return
			}
			if l, ok := releaser[x.Call.Value]; ok && !x.Call.IsInvoke() { // t() where t is a releaser
				delete(s.held, l)
				delete(s.deferred, l)
			}
		case *ssa.Defer:
			if op, ok := classifyLockCall(x); ok && op.kind == "rel" {
				s.deferred[op.lock] = true
				return
			}
			if l, ok := releaser[x.Call.Value]; ok && !x.Call.IsInvoke() {
				s.deferred[l] = true
			}
		}
	}
	for len(work) > 0 {
		b := work[len(work)-1]
		work = work[:len(work)-1]
		inWork[b] = false
		s := in[b].clone()
		for _, ins := range b.Instrs {
			fi.before[ins] = s.clone()
			transfer(s, ins)
		}
		for _, succ := range b.Succs {
			m := meet(in[succ], s)
			if !m.equal(in[succ]) {
				in[succ] = m
				if !inWork[succ] {
					inWork[succ] = true
					work = append(work, succ)
				}
			}
		}
	}
	// pairing: at returns, held locks must have a deferred release (unless wrapper)
	for _, r := range returns(fn) {
		s := fi.before[r]
		if s == nil || s.top {
			continue
		}
		for l := range s.held {
			if !s.deferred[l] && l != fi.wrapper {
				fi.kept = append(fi.kept, fmt.Sprintf("%s still held at return %s", l, la.c.instrPos(r)))
			}
		}
	}
	// acquires (direct)
	allInstrs(fn, func(ins ssa.Instruction) {
		if ci, ok := ins.(*ssa.Call); ok {
			if op, ok := classifyLockCall(ci); ok && op.kind == "acq" {
				fi.acquires[op.lock] = true
			}
		}
	})
	la.collectNeeds(fn, fi)
}

// origins computes, flow-insensitively, which values are pointers to table-resident objects.
func (la *lockAnalysis) origins(fn *ssa.Function) (map[ssa.Value]*origin, map[ssa.Value]*guardSpec) {
	guardedMap := map[ssa.Value]*guardSpec{} // SSA values that are the guarded map itself
	org := map[ssa.Value]*origin{}
	localRes := map[ssa.Value]*origin{} // local maps/slices/cells holding resident pointers
	get := func(v ssa.Value) *origin { return org[v] }
	merge := func(dst ssa.Value, o *origin, m map[ssa.Value]*origin) bool {
		if o == nil {
			return false
		}
		d := m[dst]
		if d == nil {
			d = &origin{param: map[int]bool{}}
			m[dst] = d
		}
		ch := false
		if o.table && !d.table {
			d.table, d.spec, ch = true, o.spec, true
		}
		if d.spec == nil && o.spec != nil {
			d.spec = o.spec
		}
		for p := range o.param {
			if !d.param[p] {
				d.param[p], ch = true, true
			}
		}
		return ch
	}
	for i, p := range fn.Params {
		if gs := la.residentSpecOf(p.Type()); gs != nil {
			org[p] = &origin{spec: gs, param: map[int]bool{i: true}}
		}
	}
	changed := true
	for iter := 0; changed && iter < 20; iter++ {
		changed = false
		allInstrs(fn, func(in ssa.Instruction) {
			switch x := in.(type) {
			case *ssa.UnOp:
				if x.Op != token.MUL {
					return
				}
				if fa, ok := x.X.(*ssa.FieldAddr); ok {
					if gs := la.specOfFieldAddr(fa); gs != nil {
						if _, isMap := x.Type().Underlying().(*types.Map); isMap {
							if guardedMap[x] == nil {
								guardedMap[x] = gs
								changed = true
							}
						}
					}
				}
				// load from a local cell
				if o := localRes[x.X]; o != nil {
					if merge(x, o, org) {
						changed = true
					}
				}
			case *ssa.Phi:
				for _, e := range x.Edges {
					if gs := guardedMap[e]; gs != nil && guardedMap[x] == nil {
						guardedMap[x] = gs
						changed = true
					}
					if merge(x, get(e), org) {
						changed = true
					}
					if merge(x, localRes[e], localRes) {
						changed = true
					}
				}
			case *ssa.Lookup:
				if gs := guardedMap[x.X]; gs != nil && gs.ResidentElem != "" {
					if merge(x, &origin{table: true, spec: gs}, org) {
						changed = true
					}
				}
				if o := localRes[x.X]; o != nil {
					if merge(x, o, org) {
						changed = true
					}
				}
			case *ssa.Extract:
				// commaok lookup / range next
				if o := get(x.Tuple); o != nil {
					if la.residentSpecOf(x.Type()) != nil {
						if merge(x, o, org) {
							changed = true
						}
					}
				}
			case *ssa.Next:
				if rg, ok := x.Iter.(*ssa.Range); ok {
					if gs := guardedMap[rg.X]; gs != nil && gs.ResidentElem != "" {
						if merge(x, &origin{table: true, spec: gs}, org) {
							changed = true
						}
					}
					if o := localRes[rg.X]; o != nil {
						if merge(x, o, org) {
							changed = true
						}
					}
				}
			case *ssa.MapUpdate:
				if o := get(x.Value); o != nil && guardedMap[x.Map] == nil {
					if merge(x.Map, o, localRes) {
						changed = true
					}
				}
			case *ssa.Store:
				if o := get(x.Val); o != nil {
					switch a := x.Addr.(type) {
					case *ssa.Alloc:
						if merge(a, o, localRes) {
							changed = true
						}
					case *ssa.IndexAddr:
						if merge(a.X, o, localRes) {
							changed = true
						}
					}
				}
			case *ssa.IndexAddr:
				if o := localRes[x.X]; o != nil {
					if merge(x, o, localRes) { // &slice[i] is a cell holding a resident pointer
						changed = true
					}
				}
			case *ssa.Call:
				if g := x.Call.StaticCallee(); g != nil && la.retRes[g] != nil {
					if merge(x, &origin{table: true, spec: la.retRes[g]}, org) {
						changed = true
					}
				}
				// append(slice, v): result may hold residents
				if b, ok := x.Call.Value.(*ssa.Builtin); ok && b.Name() == "append" {
					for _, a := range x.Call.Args {
						if merge(x, localRes[a], localRes) {
							changed = true
						}
					}
				}
			case *ssa.Slice:
				if merge(x, localRes[x.X], localRes) {
					changed = true
				}
			case *ssa.ChangeType:
				if merge(x, get(x.X), org) {
					changed = true
				}
			}
		})
	}
	return org, guardedMap
}

func (la *lockAnalysis) isFresh(v ssa.Value) bool {
	switch x := v.(type) {
	case *ssa.Alloc:
		return true
	case *ssa.UnOp:
		if x.Op == token.MUL {
			if a, ok := x.X.(*ssa.Alloc); ok {
				// a local pointer variable holding only fresh allocations
				for _, ref := range *a.Referrers() {
					if st, ok := ref.(*ssa.Store); ok && st.Addr == a {
						if !la.isFresh(st.Val) {
							return false
						}
					}
				}
				return true
			}
		}
	}
	return false
}

func (la *lockAnalysis) collectNeeds(fn *ssa.Function, fi *fnLock) {
	org, gmaps := la.origins(fn)
	addNeed := func(at ssa.Instruction, gs *guardSpec, mode lockMode, what string, o *origin) {
		la.accessN[gs.Lock]++
		if o == nil || o.table {
			fi.needs = append(fi.needs, &lockNeed{at: at, lock: gs.Lock, mode: mode, what: what, cond: -1})
			return
		}
		for p := range o.param {
			fi.needs = append(fi.needs, &lockNeed{at: at, lock: gs.Lock, mode: mode, what: what, cond: p})
		}
	}
	allInstrs(fn, func(in ssa.Instruction) {
		switch x := in.(type) {
		case *ssa.FieldAddr:
			// (1) guarded field of the guarded struct
			if gs := la.specOfFieldAddr(x); gs != nil {
				if la.isFresh(x.X) {
					return
				}
				fname := fieldName(x.X.Type(), x.Field)
				for _, ref := range *x.Referrers() {
					switch r := ref.(type) {
					case *ssa.Store:
						if r.Addr == x {
							addNeed(r, gs, modeW, "write of "+gs.Type+"."+fname, nil)
						}
					case *ssa.UnOp:
						addNeed(r, gs, modeR, "read of "+gs.Type+"."+fname, nil)
					case *ssa.DebugRef:
					default:
						addNeed(ref, gs, modeW, "address of "+gs.Type+"."+fname+" escapes", nil)
					}
				}
				return
			}
			// (2) field of a table-resident object
			if o := org[x.X]; o != nil && o.spec != nil {
				fname := fieldName(x.X.Type(), x.Field)
				gs := o.spec
				if la.isFresh(x.X) {
					return
				}
				for _, ref := range *x.Referrers() {
					switch r := ref.(type) {
					case *ssa.Store:
						if r.Addr == x {
							addNeed(r, gs, modeW, "write of resident "+gs.ResidentElem+"."+fname, o)
						}
					case *ssa.UnOp:
						if contains(gs.ResidentFields, fname) {
							addNeed(r, gs, modeR, "read of resident "+gs.ResidentElem+"."+fname, o)
						}
					case *ssa.DebugRef:
					default:
						if contains(gs.ResidentFields, fname) {
							addNeed(ref, gs, modeR, "use of &resident."+fname, o)
						}
					}
				}
			}
		case *ssa.UnOp:
			// whole-struct load *v of a resident
			if x.Op == token.MUL {
				if o := org[x.X]; o != nil && o.spec != nil {
					if _, isStruct := x.Type().Underlying().(*types.Struct); isStruct {
						addNeed(x, o.spec, modeR, "copy of resident *"+o.spec.ResidentElem, o)
					}
				}
			}
		case *ssa.Lookup:
			if gs := gmaps[x.X]; gs != nil {
				addNeed(x, gs, modeR, "lookup in guarded map of "+gs.Type, nil)
			}
		case *ssa.MapUpdate:
			if gs := gmaps[x.Map]; gs != nil {
				addNeed(x, gs, modeW, "update of guarded map of "+gs.Type, nil)
			}
		case *ssa.Range:
			if gs := gmaps[x.X]; gs != nil {
				addNeed(x, gs, modeR, "range over guarded map of "+gs.Type, nil)
			}
		case *ssa.Next:
			if rg, ok := x.Iter.(*ssa.Range); ok {
				if gs := gmaps[rg.X]; gs != nil {
					addNeed(x, gs, modeR, "iteration over guarded map of "+gs.Type, nil)
				}
			}
		case ssa.CallInstruction:
			cc := x.Common()
			if b, ok := cc.Value.(*ssa.Builtin); ok {
				for _, a := range cc.Args {
					if gs := gmaps[a]; gs != nil {
						if b.Name() == "delete" {
							addNeed(x, gs, modeW, "delete from guarded map of "+gs.Type, nil)
						} else {
							addNeed(x, gs, modeR, b.Name()+" of guarded map of "+gs.Type, nil)
						}
					}
				}
				return
			}
			// guarded map passed to a call
			for _, a := range cc.Args {
				if gs := gmaps[a]; gs != nil {
					addNeed(x, gs, modeW, "guarded map of "+gs.Type+" passed to a call", nil)
				}
			}
			if builtinExtraNeed != nil {
				if l, m, what, ok := builtinExtraNeed(fn, x); ok {
					la.accessN[l]++
					fi.needs = append(fi.needs, &lockNeed{at: x, lock: l, mode: m, what: what, cond: -1})
				}
			}
		}
	})
	fi.before[nil] = nil
	la.org(fn, org)
}

var orgCache = map[*ssa.Function]map[ssa.Value]*origin{}

func (la *lockAnalysis) org(fn *ssa.Function, o map[ssa.Value]*origin) { orgCache[fn] = o }

// ---------- interprocedural solution ----------

func satisfied(s *heldState, lock string, mode lockMode) bool {
	if s == nil || s.top {
		return true // unreachable code
	}
	return s.held[lock] >= mode
}

// heldForDeferred: locks held when a deferred call registered at d finally runs.
func heldForDeferred(s *heldState) *heldState {
	n := &heldState{held: map[string]lockMode{}, deferred: map[string]bool{}}
	if s == nil || s.top {
		n.top = true
		return n
	}
	for l, m := range s.held {
		if s.deferred[l] {
			n.held[l] = m
		}
	}
	return n
}

func (la *lockAnalysis) addReq(fi *fnLock, cond int, lock string, mode lockMode, need *lockNeed) bool {
	m := fi.req
	if cond >= 0 {
		if fi.preq[cond] == nil {
			fi.preq[cond] = map[string]*reqEntry{}
		}
		m = fi.preq[cond]
	}
	if e, ok := m[lock]; ok {
		if e.mode >= mode {
			return false
		}
		e.mode = mode
		e.need = need
		return true
	}
	m[lock] = &reqEntry{lock: lock, mode: mode, need: need, owner: fi.fn}
	return true
}

func (la *lockAnalysis) solve() {
	c := la.c
	// closure consumption & call edges
	type callEdge struct {
		at     ssa.Instruction
		callee *ssa.Function
		state  func(fi *fnLock) *heldState
		args   []ssa.Value // actual args aligned with callee.Params (nil if unknown)
		isGo   bool
	}
	edges := map[*ssa.Function][]callEdge{}
	for _, fn := range c.SrcFns {
		fi := la.info[fn]
		fn := fn
		allInstrs(fn, func(in ssa.Instruction) {
			ci, ok := in.(ssa.CallInstruction)
			if !ok {
				return
			}
			cc := ci.Common()
			_, isGo := in.(*ssa.Go)
			_, isDefer := in.(*ssa.Defer)
			stateAt := func(fi *fnLock) *heldState { return fi.before[in] }
			if isDefer {
				stateAt = func(fi *fnLock) *heldState { return heldForDeferred(fi.before[in]) }
			}
			for _, g := range la.calleesOf(ci) {
				if _, ok := la.info[g]; !ok {
					continue
				}
				var args []ssa.Value
				if !cc.IsInvoke() && len(cc.Args) == len(g.Params) {
					args = cc.Args
				} else if cc.IsInvoke() && len(cc.Args)+1 == len(g.Params) {
					args = append([]ssa.Value{cc.Value}, cc.Args...)
				}
				edges[fn] = append(edges[fn], callEdge{at: in, callee: g, state: stateAt, args: args, isGo: isGo})
				fi.callees[in] = append(fi.callees[in], g)
				if g.Parent() != nil { // anonymous function called / deferred / go'd directly
					if isGo {
						la.consumed[g] = "go"
					} else if isDefer {
						la.consumed[g] = "defer"
					} else {
						la.consumed[g] = "call"
					}
				}
			}
			// closures passed as arguments
			callees := la.calleesOf(ci)
			name := calleeName(ci)
			for ai, a := range cc.Args {
				// a closure converted to a named func type (type visitor func(..)) is still that closure
				if ct, isCT := a.(*ssa.ChangeType); isCT {
					a = ct.X
				}
				mc, ok := a.(*ssa.MakeClosure)
				if !ok {
					continue
				}
				cf := mc.Fn.(*ssa.Function)
				if _, ok := la.info[cf]; !ok {
					continue
				}
				sync := false
				if !isGo {
					for _, g := range callees {
						pi := ai
						if cc.IsInvoke() {
							pi = ai + 1
						}
						if la.syncParam[g][pi] {
							sync = true
						}
					}
					if matchAny(name, extSyncCallers) {
						sync = true
					}
				}
				if sync {
					la.consumed[cf] = "sync"
					edges[fn] = append(edges[fn], callEdge{at: in, callee: cf, state: stateAt})
					fi.callees[in] = append(fi.callees[in], cf)
				}
			}
		})
	}
	// fixpoint for acquires / req / preq
	for changed, iter := true, 0; changed && iter < 50; iter++ {
		changed = false
		for _, fn := range c.SrcFns {
			fi := la.info[fn]
			// direct needs
			for _, n := range fi.needs {
				if !satisfied(fi.before[n.at], n.lock, n.mode) {
					if la.addReq(fi, n.cond, n.lock, n.mode, n) {
						changed = true
					}
				}
			}
			for _, e := range edges[fn] {
				gi := la.info[e.callee]
				for l := range gi.acquires {
					if !fi.acquires[l] && !e.isGo {
						fi.acquires[l] = true
						changed = true
					}
				}
				if gi.wrapper != "" && !fi.acquires[gi.wrapper] {
					fi.acquires[gi.wrapper] = true
					changed = true
				}
				if e.isGo {
					continue
				}
				st := e.state(fi)
				for _, r := range gi.req {
					if !satisfied(st, r.lock, r.mode) {
						n := &lockNeed{at: e.at, lock: r.lock, mode: r.mode, what: "call of " + fnName(e.callee), cond: -1, via: e.callee, viaReq: r}
						if la.addReq(fi, -1, r.lock, r.mode, n) {
							changed = true
						}
					}
				}
				if e.args != nil {
					org := orgCache[fn]
					for pi, rm := range gi.preq {
						if pi >= len(e.args) {
							continue
						}
						o := org[e.args[pi]]
						if o == nil {
							continue
						}
						if la.isFresh(e.args[pi]) {
							continue
						}
						for _, r := range rm {
							if satisfied(st, r.lock, r.mode) {
								continue
							}
							n := &lockNeed{at: e.at, lock: r.lock, mode: r.mode, what: "call of " + fnName(e.callee) + " with a table-resident argument", via: e.callee, viaReq: r}
							if o.table {
								n.cond = -1
								if la.addReq(fi, -1, r.lock, r.mode, n) {
									changed = true
								}
							}
							for p := range o.param {
								n2 := *n
								n2.cond = p
								if la.addReq(fi, p, r.lock, r.mode, &n2) {
									changed = true
								}
							}
						}
					}
				}
			}
		}
	}
	// lock-order edges
	for _, fn := range c.SrcFns {
		fi := la.info[fn]
		allInstrs(fn, func(in ssa.Instruction) {
			ci, ok := in.(*ssa.Call)
			if !ok {
				return
			}
			st := fi.before[in]
			if st == nil || st.top || len(st.held) == 0 {
				return
			}
			acq := map[string]string{}
			if op, ok := classifyLockCall(ci); ok && op.kind == "acq" {
				acq[op.lock] = "direct"
			}
			for _, g := range fi.callees[in] {
				gi := la.info[g]
				if gi.wrapper != "" {
					acq[gi.wrapper] = "wrapper " + fnName(g)
				}
				if la.consumed[g] == "sync" && g.Parent() != nil && len(la.calleesOf(ci)) > 0 {
					// closure passed as callback: its acquisitions happen under the held locks as well
				}
				for l := range gi.acquires {
					if _, ok := acq[l]; !ok {
						acq[l] = "call of " + fnName(g)
					}
				}
			}
			for a := range st.held {
				for b, via := range acq {
					la.order = append(la.order, orderEdge{a: a, b: b, at: in, fn: fn, via: via})
				}
			}
		})
	}
	// roots
	called := map[*ssa.Function]bool{}
	for _, es := range edges {
		for _, e := range es {
			if !e.isGo {
				called[e.callee] = true
			}
		}
	}
	for _, fn := range c.SrcFns {
		if fn.Parent() != nil {
			switch la.consumed[fn] {
			case "sync", "defer", "call", "wrapper-result":
				continue
			}
			la.roots[fn] = "closure that escapes (stored, passed to an asynchronous API, or started with go)"
			continue
		}
		name := fn.Name()
		exported := token.IsExported(name)
		if exported {
			la.roots[fn] = "exported function or method"
			continue
		}
		if !called[fn] {
			la.roots[fn] = "unexported function without a synchronous caller in the module (entry by value, go statement or dead)"
		}
	}
}

// writeSites: instructions of fn that mutate state guarded by lock (direct writes, or calls of functions that
// require the lock in W mode, or calls passing a table-resident object to a function that writes it).
func (la *lockAnalysis) writeSites(fn *ssa.Function, lock string) []ssa.Instruction {
	fi := la.info[fn]
	if fi == nil {
		return nil
	}
	seen := map[ssa.Instruction]bool{}
	var out []ssa.Instruction
	add := func(in ssa.Instruction) {
		if !seen[in] {
			seen[in] = true
			out = append(out, in)
		}
	}
	for _, n := range fi.needs {
		if n.lock == lock && n.mode == modeW && n.cond == -1 {
			add(n.at)
		}
	}
	org := orgCache[fn]
	for in, gs := range fi.callees {
		ci, ok := in.(ssa.CallInstruction)
		if !ok {
			continue
		}
		cc := ci.Common()
		for _, g := range gs {
			gi := la.info[g]
			if r, ok := gi.req[lock]; ok && r.mode == modeW {
				add(in)
			}
			var args []ssa.Value
			if !cc.IsInvoke() && len(cc.Args) == len(g.Params) {
				args = cc.Args
			}
			for pi, rm := range gi.preq {
				if pi >= len(args) {
					continue
				}
				if r, ok := rm[lock]; ok && r.mode == modeW {
					if o := org[args[pi]]; o != nil && o.table && !la.isFresh(args[pi]) {
						add(in)
					}
				}
			}
		}
	}
	sort.Slice(out, func(i, j int) bool { return out[i].Pos() < out[j].Pos() })
	return out
}

// chain renders the call chain of a requirement down to the access.
func (la *lockAnalysis) chain(r *reqEntry) []string {
	var out []string
	seen := map[*reqEntry]bool{}
	for r != nil && !seen[r] {
		seen[r] = true
		n := r.need
		if n == nil {
			break
		}
		st := la.info[r.owner].before[n.at]
		held := "{}"
		if st != nil {
			held = st.String()
		}
		out = append(out, fmt.Sprintf("%s in %s: %s needs %s:%s, held %s", la.c.instrPos(n.at), fnName(r.owner), n.what, n.lock, n.mode, held))
		r = n.viaReq
	}
	return out
}

// reportRoots emits one obligation per (root, lock) for the given lock ids: discharged if the root requires
// nothing, violated otherwise.
func (la *lockAnalysis) reportRoots(rule string, lockIDs []string, pkgFilter func(fn *ssa.Function) bool) {
	c := la.c
	want := map[string]bool{}
	for _, l := range lockIDs {
		want[l] = true
	}
	for _, fn := range c.SrcFns {
		why, isRoot := la.roots[fn]
		if !isRoot {
			continue
		}
		if pkgFilter != nil && !pkgFilter(fn) {
			continue
		}
		fi := la.info[fn]
		// does this root touch (transitively) any guarded state of these locks?
		nTouch := la.transNeeds(fn, want)
		touches := nTouch > 0
		bad := false
		for l, r := range fi.req {
			if !want[l] {
				continue
			}
			bad = true
			ch := la.chain(r)
			at := r.need.at
			// the construct names the innermost access
			inner := r
			for inner.need != nil && inner.need.viaReq != nil {
				inner = inner.need.viaReq
			}
			construct := fmt.Sprintf("%s in %s without %s:%s", inner.need.what, fnName(inner.owner), l, r.mode)
			o := c.ob(rule, fn, construct, at, false, "entry point ("+why+") reaches a guarded access without the lock", ch...)
			_ = o
		}
		if !bad && touches {
			c.ob(rule, fn, "all guarded accesses under lock", nil, true, fmt.Sprintf("%d guarded accesses reachable (through synchronous calls), every one with the lock in the must-hold set along the call chain", nTouch))
		}
	}
}

// transNeeds counts guarded accesses of the wanted locks reachable from fn through synchronous call edges.
func (la *lockAnalysis) transNeeds(fn *ssa.Function, want map[string]bool) int {
	seen := map[*ssa.Function]bool{}
	n := 0
	var rec func(f *ssa.Function)
	rec = func(f *ssa.Function) {
		if seen[f] {
			return
		}
		seen[f] = true
		fi := la.info[f]
		if fi == nil {
			return
		}
		n += countNeeds(fi, want)
		for in, gs := range fi.callees {
			if _, isGo := in.(*ssa.Go); isGo {
				continue
			}
			for _, g := range gs {
				rec(g)
			}
		}
	}
	rec(fn)
	return n
}

func countNeeds(fi *fnLock, want map[string]bool) int {
	n := 0
	for _, x := range fi.needs {
		if want[x.lock] {
			n++
		}
	}
	return n
}

// autoGuard: a field of a lock-carrying shared struct that is in no table but is written after construction (a store on a
// non-fresh object, an in-place container update, or its address handed out) is treated as guarded by the struct's lock, so
// that the guarded-by discipline is checked for it instead of demanding a table entry: a new field that is properly locked
// passes, one that is not is reported at the unlocked access.
func (la *lockAnalysis) autoGuard() {
	la.autoG = map[string]string{}
	c := la.c
	for i := range c.GuardSpecs {
		gs := &c.GuardSpecs[i]
		nt := c.namedType(gs.Pkg, gs.Type)
		if nt == nil {
			continue
		}
		st, ok := nt.Underlying().(*types.Struct)
		if !ok {
			continue
		}
		skip := map[string]bool{strings.SplitN(gs.Lock, ".", 2)[1]: true}
		for _, f := range gs.Fields {
			skip[f] = true
		}
		for _, ws := range writeOnceSpecs {
			if ws.Type == gs.Type && ws.Pkg == gs.Pkg {
				for _, f := range ws.Fields {
					skip[f] = true
				}
			}
		}
		for j := 0; j < st.NumFields(); j++ {
			f := st.Field(j)
			if skip[f.Name()] || isSyncPrimitive(f.Type()) {
				continue
			}
			if _, ex := sharedFieldExempt[gs.Type+"."+f.Name()]; ex {
				continue
			}
			if la.writtenAfterConstruction(f) {
				la.specByFld[f] = gs
				la.autoG[gs.Type+"."+f.Name()] = gs.Lock
			}
		}
	}
}

func (la *lockAnalysis) writtenAfterConstruction(f *types.Var) bool {
	hit := false
	for _, fn := range la.c.SrcFns {
		if hit {
			break
		}
		allInstrs(fn, func(in ssa.Instruction) {
			fa, ok := in.(*ssa.FieldAddr)
			if !ok || hit || fieldVar(fa.X.Type(), fa.Field) != f || la.isFresh(fa.X) {
				return
			}
			for _, ref := range *fa.Referrers() {
				switch r := ref.(type) {
				case *ssa.Store:
					if r.Addr == ssa.Value(fa) {
						hit = true
					}
				case *ssa.UnOp:
					for _, r2 := range *r.Referrers() {
						switch u := r2.(type) {
						case *ssa.MapUpdate:
							if u.Map == ssa.Value(r) {
								hit = true
							}
						case *ssa.IndexAddr:
							for _, r3 := range *u.Referrers() {
								if s3, ok := r3.(*ssa.Store); ok && s3.Addr == ssa.Value(u) {
									hit = true
								}
							}
						}
					}
				case ssa.CallInstruction:
					hit = true
				}
			}
		})
	}
	return hit
}
