package main

import (
	"go/constant"
	"go/token"
	"go/types"
	"strings"

	"golang.org/x/tools/go/ssa"
)

// stripConv looks through value-preserving conversions.
func stripConv(v ssa.Value) ssa.Value {
	for {
		switch x := v.(type) {
		case *ssa.ChangeType:
			v = x.X
		case *ssa.Convert:
			v = x.X
		case *ssa.MakeInterface:
			v = x.X
		case *ssa.ChangeInterface:
			v = x.X
		default:
			return v
		}
	}
}

func fieldName(t types.Type, i int) string {
	t = deref(t)
	if s, ok := t.Underlying().(*types.Struct); ok && i < s.NumFields() {
		return s.Field(i).Name()
	}
	return ""
}

func fieldVar(t types.Type, i int) *types.Var {
	t = deref(t)
	if s, ok := t.Underlying().(*types.Struct); ok && i < s.NumFields() {
		return s.Field(i)
	}
	return nil
}

func deref(t types.Type) types.Type {
	if p, ok := t.Underlying().(*types.Pointer); ok {
		return p.Elem()
	}
	return t
}

// fieldLoad: v is a load of field `name` (value of x.name); returns the base x.
func fieldLoad(v ssa.Value) (base ssa.Value, name string, ok bool) {
	switch x := v.(type) {
	case *ssa.UnOp:
		if x.Op == token.MUL {
			if fa, ok := x.X.(*ssa.FieldAddr); ok {
				return fa.X, fieldName(fa.X.Type(), fa.Field), true
			}
		}
	case *ssa.Field:
		return x.X, fieldName(x.X.Type(), x.Field), true
	}
	return nil, "", false
}

func isFieldLoadNamed(v ssa.Value, name string) bool {
	_, n, ok := fieldLoad(v)
	return ok && n == name
}

// fieldAddrNamed: v is &x.name
func fieldAddrNamed(v ssa.Value, name string) (base ssa.Value, ok bool) {
	if fa, ok := v.(*ssa.FieldAddr); ok && fieldName(fa.X.Type(), fa.Field) == name {
		return fa.X, true
	}
	return nil, false
}

// fieldPath returns the chain of field names from the root, e.g. "keyObj.KeyInDB" -> root keyObj, ["KeyInDB"].
func fieldPath(v ssa.Value) (root ssa.Value, path []string) {
	for {
		v = stripConv(v)
		switch x := v.(type) {
		case *ssa.UnOp:
			if x.Op == token.MUL {
				if fa, ok := x.X.(*ssa.FieldAddr); ok {
					path = append([]string{fieldName(fa.X.Type(), fa.Field)}, path...)
					v = fa.X
					continue
				}
				if ia, ok := x.X.(*ssa.IndexAddr); ok {
					path = append([]string{"[]"}, path...)
					v = ia.X
					continue
				}
			}
			if u := unspill(v); u != v {
				return u, path
			}
			return v, path
		case *ssa.Field:
			path = append([]string{fieldName(x.X.Type(), x.Field)}, path...)
			v = x.X
		case *ssa.FieldAddr:
			path = append([]string{fieldName(x.X.Type(), x.Field)}, path...)
			v = x.X
		default:
			return v, path
		}
	}
}

func pathEndsWith(v ssa.Value, names ...string) bool {
	_, p := fieldPath(v)
	if len(p) < len(names) {
		return false
	}
	p = p[len(p)-len(names):]
	for i := range names {
		if p[i] != names[i] {
			return false
		}
	}
	return true
}

func constStringVal(v ssa.Value) (string, bool) {
	c, ok := stripConv(v).(*ssa.Const)
	if !ok || c.Value == nil || c.Value.Kind() != constant.String {
		return "", false
	}
	return constant.StringVal(c.Value), true
}

func constIntVal(v ssa.Value) (int64, bool) {
	c, ok := stripConv(v).(*ssa.Const)
	if !ok || c.Value == nil || c.Value.Kind() != constant.Int {
		return 0, false
	}
	return c.Int64(), true
}

func constBoolVal(v ssa.Value) (bool, bool) {
	c, ok := v.(*ssa.Const)
	if !ok || c.Value == nil || c.Value.Kind() != constant.Bool {
		return false, false
	}
	return constant.BoolVal(c.Value), true
}

// callOf: v is the result (or an extracted component) of a call; returns the call and component index (-1 = whole).
func callOf(v ssa.Value) (*ssa.Call, int) {
	switch x := v.(type) {
	case *ssa.Call:
		return x, -1
	case *ssa.Extract:
		if c, ok := x.Tuple.(*ssa.Call); ok {
			return c, x.Index
		}
	}
	return nil, -1
}

func isResultOf(v ssa.Value, idx int, pats ...string) bool {
	c, i := callOf(stripConv(v))
	if c == nil {
		return false
	}
	if idx >= 0 && i != idx && !(i == -1 && idx == 0) {
		return false
	}
	return matchAny(calleeName(c), pats)
}

// operandsOf returns the value operands of a value that is an instruction.
func operandsOf(v ssa.Value) []ssa.Value {
	in, ok := v.(ssa.Instruction)
	if !ok {
		return nil
	}
	var out []ssa.Value
	for _, p := range in.Operands(nil) {
		if *p != nil {
			out = append(out, *p)
		}
	}
	return out
}

// dependsOn: v is computed (data flow through operands, phis, local variable cells) from a value satisfying target.
func dependsOn(v ssa.Value, target func(ssa.Value) bool) bool {
	seen := map[ssa.Value]bool{}
	var rec func(v ssa.Value, depth int) bool
	rec = func(v ssa.Value, depth int) bool {
		if v == nil || seen[v] || depth > 60 {
			return false
		}
		seen[v] = true
		if target(v) {
			return true
		}
		// local variable cell: look at what is stored into it
		if ld, ok := v.(*ssa.UnOp); ok && ld.Op == token.MUL {
			if a, ok := ld.X.(*ssa.Alloc); ok {
				for _, ref := range *a.Referrers() {
					if st, ok := ref.(*ssa.Store); ok && st.Addr == a {
						if rec(st.Val, depth+1) {
							return true
						}
					}
				}
			}
		}
		// composite values built in a local cell (varargs arrays, struct literals): what is stored into its parts
		if a, ok := v.(*ssa.Alloc); ok {
			for _, ref := range *a.Referrers() {
				var addr ssa.Value
				switch x := ref.(type) {
				case *ssa.IndexAddr:
					addr = x
				case *ssa.FieldAddr:
					addr = x
				}
				if addr == nil {
					continue
				}
				for _, r2 := range *addr.Referrers() {
					if st, ok := r2.(*ssa.Store); ok && st.Addr == addr {
						if rec(st.Val, depth+1) {
							return true
						}
					}
				}
			}
		}
		for _, o := range operandsOf(v) {
			if rec(o, depth+1) {
				return true
			}
		}
		// through same-package helpers: a helper's parameter depends on what its callers pass; the result of a helper
		// call depends on what the helper returns
		if q, ok := v.(*ssa.Parameter); ok && depth < 40 {
			for _, a := range actualsOf(q) {
				if a.Parent() != nil && q.Parent() != nil && a.Parent().Pkg == q.Parent().Pkg {
					if rec(a, depth+10) {
						return true
					}
				}
			}
		}
		if call, ok := v.(*ssa.Call); ok && depth < 40 {
			n := call.Call.Signature().Results().Len()
			for i := 0; i < n; i++ {
				for _, rv := range helperResults(call, i) {
					if rec(rv, depth+10) {
						return true
					}
				}
			}
		}
		return false
	}
	return rec(v, 0)
}

func isParamNamed(v ssa.Value, name string) bool {
	p, ok := v.(*ssa.Parameter)
	return ok && p.Name() == name
}

// namedConstMatches: v is a constant whose value equals the int value n and whose type name matches tname.
func constOfType(v ssa.Value, tname string, n int64) bool {
	c, ok := v.(*ssa.Const)
	if !ok || c.Value == nil || c.Value.Kind() != constant.Int {
		return false
	}
	if nt, ok := c.Type().(*types.Named); !ok || nt.Obj().Name() != tname {
		return false
	}
	return c.Int64() == n
}

// callArgs returns the actual arguments excluding the receiver for static method calls.
func callArgs(call ssa.CallInstruction) []ssa.Value {
	cc := call.Common()
	if cc.IsInvoke() {
		return cc.Args
	}
	if cc.Signature().Recv() != nil && len(cc.Args) > 0 {
		return cc.Args[1:]
	}
	if g := cc.StaticCallee(); g != nil && recvAsParam[g] && len(cc.Args) > 0 {
		return cc.Args[1:] // a method turned into a function taking its receiver first
	}
	return cc.Args
}

func recvOf(call ssa.CallInstruction) ssa.Value {
	cc := call.Common()
	if cc.IsInvoke() {
		return cc.Value
	}
	if cc.Signature().Recv() != nil && len(cc.Args) > 0 {
		return cc.Args[0]
	}
	if g := cc.StaticCallee(); g != nil && recvAsParam[g] && len(cc.Args) > 0 {
		return cc.Args[0]
	}
	return nil
}

// unspill sees through go/ssa's spilling of parameters and receivers into heap cells when a closure or defer
// captures them: t0 = new *T (p); *t0 = p; t1 = *t0   =>  p
func unspill(v ssa.Value) ssa.Value {
	ld, ok := v.(*ssa.UnOp)
	if !ok || ld.Op != token.MUL {
		return v
	}
	a, ok := ld.X.(*ssa.Alloc)
	if !ok {
		return v
	}
	var only ssa.Value
	n := 0
	for _, ref := range *a.Referrers() {
		if st, ok := ref.(*ssa.Store); ok && st.Addr == a {
			n++
			only = st.Val
		}
	}
	if n == 1 {
		if p, ok := only.(*ssa.Parameter); ok {
			return p
		}
	}
	return v
}

func sameParam(v ssa.Value, p *ssa.Parameter) bool {
	return sameParamD(v, p, 0)
}

// sameParamD also sees through parameters of same-package helpers: a value that is the helper's parameter is "the same" as p
// when every call site of the helper passes p (code moved verbatim into an extracted function keeps its meaning)
func sameParamD(v ssa.Value, p *ssa.Parameter, d int) bool {
	if p == nil {
		return false
	}
	u := unspill(stripConv(v))
	if u == ssa.Value(p) {
		return true
	}
	q, ok := u.(*ssa.Parameter)
	if !ok || d > 2 || q.Parent() == p.Parent() {
		return false
	}
	acts := actualsOf(q)
	if len(acts) == 0 {
		return false
	}
	for _, a := range acts {
		if !sameParamD(a, p, d+1) {
			return false
		}
	}
	return true
}

// retVal resolves the value returned in result slot i, looking through the result cells go/ssa introduces when
// the function has a defer (*t3 = v; rundefers; t9 = *t3; return t9).
func retVal(ret *ssa.Return, i int) ssa.Value {
	v := ret.Results[i]
	ld, ok := v.(*ssa.UnOp)
	if !ok || ld.Op != token.MUL {
		return v
	}
	a, ok := ld.X.(*ssa.Alloc)
	if !ok {
		return v
	}
	b := ret.Block()
	for j := len(b.Instrs) - 1; j >= 0; j-- {
		if st, ok := b.Instrs[j].(*ssa.Store); ok && st.Addr == a {
			return st.Val
		}
	}
	return v
}

// argNamed: the value the call binds to the callee's parameter `name` — positionally when the callee declares a parameter
// of that name, otherwise the value stored into field `name` of a struct argument ("introduce parameter object"
// refactoring: f(a, b, c) -> f(opts{a: a, b: b, c: c})). idx is the position in callArgs to fall back to when the callee has
// no body (interface call). Returns nil when nothing fits.
func argNamed(call ssa.CallInstruction, name string, idx int) ssa.Value {
	args := callArgs(call)
	if g := call.Common().StaticCallee(); g != nil && g.Signature != nil {
		params := g.Signature.Params()
		for i := 0; i < params.Len() && i < len(args); i++ {
			if params.At(i).Name() == name {
				return args[i]
			}
		}
		// a struct argument with a field of that name
		for i, a := range args {
			if i >= params.Len() {
				break
			}
			st, ok := deref(params.At(i).Type()).Underlying().(*types.Struct)
			if !ok {
				continue
			}
			fi := -1
			for j := 0; j < st.NumFields(); j++ {
				if strings.EqualFold(st.Field(j).Name(), name) || strings.EqualFold(st.Field(j).Name(), strings.TrimPrefix(name, "reserve")) {
					fi = j
				}
			}
			if fi < 0 {
				continue
			}
			// value: load of a local struct cell, or the cell's address
			var cell ssa.Value
			switch x := a.(type) {
			case *ssa.UnOp:
				cell = x.X
			case *ssa.Alloc:
				cell = x
			}
			if cell == nil {
				continue
			}
			var out ssa.Value
			for _, ref := range *cell.Referrers() {
				if fa, ok := ref.(*ssa.FieldAddr); ok && fa.Field == fi {
					for _, r2 := range *fa.Referrers() {
						if stt, ok := r2.(*ssa.Store); ok && stt.Addr == ssa.Value(fa) {
							out = stt.Val
						}
					}
				}
			}
			if out != nil {
				return out
			}
		}
		return nil
	}
	if idx >= 0 && idx < len(args) {
		return args[idx]
	}
	return nil
}

// isParamOrField: v is the parameter `name` of fn, or a load of field `name` of a struct-typed parameter of fn
func isParamOrField(fn *ssa.Function, v ssa.Value, name string) bool {
	u := unspill(stripConv(v))
	if p, ok := u.(*ssa.Parameter); ok && p.Parent() == fn && p.Name() == name {
		return true
	}
	var base ssa.Value
	var fname string
	switch x := u.(type) {
	case *ssa.Field:
		base, fname = x.X, fieldName(x.X.Type(), x.Field)
	case *ssa.UnOp:
		if fa, ok := x.X.(*ssa.FieldAddr); ok {
			base, fname = fa.X, fieldName(fa.X.Type(), fa.Field)
		}
	}
	if base == nil || !strings.EqualFold(fname, name) {
		return false
	}
	b := unspill(stripConv(base))
	if ld, ok := b.(*ssa.UnOp); ok {
		b = unspill(ld)
	}
	if p, ok := b.(*ssa.Parameter); ok && p.Parent() == fn {
		return true
	}
	// a struct parameter is spilled into a cell: &cell.field
	if a, ok := base.(*ssa.Alloc); ok {
		for _, ref := range *a.Referrers() {
			if st, ok := ref.(*ssa.Store); ok && st.Addr == ssa.Value(a) {
				if p, ok := st.Val.(*ssa.Parameter); ok && p.Parent() == fn {
					return true
				}
			}
		}
	}
	return false
}
