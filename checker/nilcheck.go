package main

// E3 — nil-safety of optional values: results of functions that can return (nil, nil), and a frozen table of
// optional pointer fields. A dereference must be reachable only through the non-nil edge of a test of the same value.

import (
	"fmt"
	"go/token"
	"go/types"
	"strings"

	"golang.org/x/tools/go/ssa"
)

// nilNilFuncs: module functions with a pointer first result and an error last result that have a return of
// (nil, .., nil).
func nilNilFuncs(c *Ctx) map[*ssa.Function]*ssa.Return {
	out := map[*ssa.Function]*ssa.Return{}
	for _, fn := range c.SrcFns {
		if fn.Parent() != nil || isGenerated(fn) {
			continue
		}
		res := fn.Signature.Results()
		if res.Len() < 2 {
			continue
		}
		if _, ok := res.At(0).Type().Underlying().(*types.Pointer); !ok {
			continue
		}
		ei := errResultIndex(fn)
		if ei < 0 {
			continue
		}
		for _, r := range returns(fn) {
			if mayBeNilPtr(retVal(r, 0), 0) && isNilConst(retVal(r, ei)) {
				out[fn] = r
			}
		}
	}
	return out
}

// derefsOf: instructions that dereference pointer value v.
func derefsOf(v ssa.Value) []ssa.Instruction {
	var out []ssa.Instruction
	for _, ref := range *v.Referrers() {
		switch x := ref.(type) {
		case *ssa.FieldAddr:
			if x.X == v {
				out = append(out, x)
			}
		case *ssa.UnOp:
			if x.Op == token.MUL && x.X == v {
				out = append(out, x)
			}
		case *ssa.IndexAddr:
			if x.X == v {
				out = append(out, x)
			}
		case *ssa.Store:
			if x.Addr == v {
				out = append(out, x)
			}
		}
	}
	return out
}

func nonNilEdgesOf(fn *ssa.Function, same func(ssa.Value) bool) []edge {
	return guardEdges(fn, predNeq(same, isNilConst))
}

// checkOptional: every dereference of v (directly, or through a phi that may carry v) is guarded.
func (c *Ctx) checkOptional(rule string, fn *ssa.Function, v ssa.Value, what string, same func(ssa.Value) bool) int {
	guards := nonNilEdgesOf(fn, same)
	n := 0
	for _, d := range derefsOf(v) {
		n++
		c.ob(rule, fn, "deref of "+what, d, guardedBy(fn, d, guards), "dereference reachable only through the non-nil edge of a test of the same value")
	}
	// phis
	for _, ref := range *v.Referrers() {
		ph, ok := ref.(*ssa.Phi)
		if !ok {
			continue
		}
		safe := true
		for i, e := range ph.Edges {
			if e != v {
				if !isNilConst(e) {
					continue
				}
				safe = false
				continue
			}
			pred := ph.Block().Preds[i]
			if len(pred.Instrs) == 0 || !guardedBy(fn, pred.Instrs[0], guards) {
				// the edge may carry nil: is it the edge of the test itself?
				tested := false
				for _, g := range guards {
					if g.from == pred && g.from.Succs[g.succ] == ph.Block() {
						tested = true
					}
				}
				if !tested {
					safe = false
				}
			}
		}
		if safe {
			continue
		}
		pg := nonNilEdgesOf(fn, func(x ssa.Value) bool { return x == ssa.Value(ph) })
		for _, d := range derefsOf(ph) {
			n++
			c.ob(rule, fn, "deref of "+what+" (through a merge)", d, guardedBy(fn, d, pg), "the merged value may still be the nil result; dereference must follow a nil test")
		}
	}
	return n
}

// C18.R1 — optional results are checked.
func ruleOptionalResults(c *Ctx, rule string) {
	la := c.locks()
	srcs := nilNilFuncs(c)
	var names []string
	for f := range srcs {
		names = append(names, fnName(f))
	}
	c.note("%s: functions that can return (nil, nil): %v", rule, names)
	if len(srcs) < 3 {
		c.undecided(rule, nil, "sources", nil, fmt.Sprintf("expected at least 3 functions with a (nil, nil) return (UnmarshalCniArgs, crdIpam.First, checkForReserved), found %d", len(srcs)))
	}
	sites := 0
	for _, fn := range c.SrcFns {
		if isGenerated(fn) {
			continue
		}
		allInstrs(fn, func(in ssa.Instruction) {
			call, ok := in.(*ssa.Call)
			if !ok {
				return
			}
			src := false
			for _, g := range la.calleesOf(call) {
				if _, ok := srcs[g]; ok {
					src = true
				}
			}
			if !src {
				return
			}
			var v ssa.Value
			for _, ref := range *call.Referrers() {
				if ex, ok := ref.(*ssa.Extract); ok && ex.Index == 0 {
					v = ex
				}
			}
			if v == nil {
				return
			}
			sites++
			n := c.checkOptional(rule, fn, v, "result of "+shortCallee(call), func(x ssa.Value) bool { return x == v })
			if n == 0 {
				c.ob(rule, fn, "result of "+shortCallee(call)+" not dereferenced here", call, true, "the optional result is only tested / passed on in this function")
			}
		})
	}
	c.note("%s: %d call sites of (nil,nil)-returning functions", rule, sites)
}

// C18.R2 — optional fields are checked.
var optionalFields = []struct{ Pkg, Type, Field, Why string }{
	{"pkg/policy", "policy", "ingressRule", "built only when the policy has the Ingress direction; spec.ingress is independent of policyTypes"},
	{"pkg/policy", "policy", "egressRule", "built only when the policy has the Egress direction"},
}

func ruleOptionalFields(c *Ctx, rule string) {
	total := 0
	for _, of := range optionalFields {
		nt := c.namedType(of.Pkg, of.Type)
		if nt == nil {
			c.undecided(rule, nil, of.Type+"."+of.Field, nil, "type not found")
			continue
		}
		for _, fn := range c.SrcFns {
			if fn.Pkg.Pkg.Path() != modPath+of.Pkg {
				continue
			}
			allInstrs(fn, func(in ssa.Instruction) {
				ld, ok := in.(*ssa.UnOp)
				if !ok || ld.Op != token.MUL {
					return
				}
				var isF bool
				if fa, ok := ld.X.(*ssa.FieldAddr); ok && typeNameOf(fa.X.Type()) == of.Type && fieldName(fa.X.Type(), fa.Field) == of.Field {
					isF = true
				}
				if !isF {
					return
				}
				same := func(x ssa.Value) bool { return x == ssa.Value(ld) || sameAccess(x, ld) }
				guards := nonNilEdgesOf(fn, same)
				for _, d := range derefsOf(ld) {
					total++
					ok := guardedBy(fn, d, guards)
					if !ok && of.Field == "egressRule" && fn.Name() == "SyncPodIPInIPSet" {
						// the else branch of `ingressRule != nil`
						other := guardEdges(fn, predEq(func(x ssa.Value) bool { return pathEndsWith(x, "ingressRule") }, isNilConst))
						if guardedBy(fn, d, other) {
							c.exempt(rule, fn, "deref of policy.egressRule on the ingressRule == nil edge", d, "ingressOrEgress always selects at least one direction, so a policy without ingressRule has an egressRule (value correlation a path-insensitive rule cannot see); single named site")
							continue
						}
					}
					c.ob(rule, fn, "deref of "+of.Type+"."+of.Field, d, ok, "reachable only through the non-nil edge of a test of the same field ("+of.Why+")")
				}
			})
		}
		// field-typed struct value access (range copies): policy.ingressRule on a struct value
		for _, fn := range c.SrcFns {
			if fn.Pkg.Pkg.Path() != modPath+of.Pkg {
				continue
			}
			allInstrs(fn, func(in ssa.Instruction) {
				f, ok := in.(*ssa.Field)
				if !ok || typeNameOf(f.X.Type()) != of.Type || fieldName(f.X.Type(), f.Field) != of.Field {
					return
				}
				same := func(x ssa.Value) bool {
					if x == ssa.Value(f) {
						return true
					}
					g, ok := x.(*ssa.Field)
					return ok && g.X == f.X && g.Field == f.Field
				}
				guards := nonNilEdgesOf(fn, same)
				for _, d := range derefsOf(f) {
					total++
					c.ob(rule, fn, "deref of "+of.Type+"."+of.Field, d, guardedBy(fn, d, guards), "reachable only through the non-nil edge of a test of the same field ("+of.Why+")")
				}
			})
		}
	}
	c.note("%s: %d dereferences of optional fields", rule, total)
}

// C18.R7 — pointers decoded from JSON may be null: in the custom decoders every pointer taken out of the decoded
// configuration struct (pointer fields and elements of slices of pointers) is nil-tested before it is dereferenced
// (a field access, a load, or a call of one of the module's pointer-receiver methods).
func ruleDecodedPointers(c *Ctx, rule string) {
	fn := c.MustFn(rule, fipPkg, "(*FloatingIPPool).UnmarshalJSON")
	if fn == nil {
		return
	}
	// the decoded struct: the Alloc passed to json.Unmarshal
	var target *ssa.Alloc
	for _, u := range calls(fn, "encoding/json.Unmarshal") {
		if mi, ok := u.Common().Args[1].(*ssa.MakeInterface); ok {
			if a, ok := mi.X.(*ssa.Alloc); ok {
				target = a
			}
		}
	}
	if target == nil {
		c.undecided(rule, fn, "decode target", nil, "json.Unmarshal target not found")
		return
	}
	n := 0
	allInstrs(fn, func(in ssa.Instruction) {
		ld, ok := in.(*ssa.UnOp)
		if !ok || ld.Op != token.MUL {
			return
		}
		if _, isPtr := ld.Type().Underlying().(*types.Pointer); !isPtr {
			return
		}
		// loaded from the target: field, or element of a slice field
		base, path := cellPath(ld.X)
		if ia, ok := ld.X.(*ssa.IndexAddr); ok {
			// element of a slice loaded from a field of the target
			if sl, ok := ia.X.(*ssa.UnOp); ok {
				base, path = cellPath(sl.X)
				path = append(path, "[]")
			}
		}
		if base != ssa.Value(target) || len(path) == 0 {
			return
		}
		same := func(x ssa.Value) bool { return x == ssa.Value(ld) || sameAccess(x, ld) }
		guards := nonNilEdgesOf(fn, same)
		uses := derefsOf(ld)
		for _, ref := range *ld.Referrers() {
			if call, ok := ref.(*ssa.Call); ok && !call.Call.IsInvoke() && len(call.Call.Args) > 0 && call.Call.Args[0] == ssa.Value(ld) {
				if f := call.Call.StaticCallee(); f != nil && f.Signature.Recv() != nil && strings.HasPrefix(f.Pkg.Pkg.Path(), modPath) {
					uses = append(uses, call)
				}
			}
		}
		for _, u := range uses {
			n++
			c.ob(rule, fn, "deref of decoded pointer ."+strings.Join(path, "."), u, guardedBy(fn, u, guards), "a JSON null leaves this pointer nil; its dereference must be reachable only through a non-nil test of the same access path")
		}
	})
	if n == 0 {
		c.undecided(rule, fn, "decoded pointers", nil, "no dereference of a pointer decoded from the configuration found")
	}
}

// mayBeNilPtr: the value is the nil constant, or a merge one of whose inputs is.
func mayBeNilPtr(v ssa.Value, depth int) bool {
	if isNilConst(v) {
		return true
	}
	if ph, ok := v.(*ssa.Phi); ok && depth < 6 {
		for _, e := range ph.Edges {
			if mayBeNilPtr(e, depth+1) {
				return true
			}
		}
	}
	return false
}
