package main

import (
	"fmt"
	"go/constant"
	"go/token"
	"go/types"
	"strings"

	"golang.org/x/tools/go/ssa"
)

// ---------- one-sided positional comparison (C11.R13) ----------

// elemReadOf: the (container, index) an element value was read from.
func elemReadOf(v ssa.Value) (ssa.Value, ssa.Value, bool) {
	switch x := v.(type) {
	case *ssa.UnOp:
		if x.Op == token.MUL {
			if ia, ok := x.X.(*ssa.IndexAddr); ok {
				return ia.X, ia.Index, true
			}
		}
	case *ssa.Index:
		return x.X, x.Index, true
	case *ssa.Lookup:
		if _, isMap := x.X.Type().Underlying().(*types.Map); !isMap {
			return x.X, x.Index, true
		}
	case *ssa.Convert:
		return elemReadOf(x.X)
	}
	return nil, nil, false
}

// sameVal: the same register, or two loads of the same cell / field (go/ssa does no CSE).
func sameVal(a, b ssa.Value) bool {
	if a == b {
		return true
	}
	switch x := a.(type) {
	case *ssa.UnOp:
		y, ok := b.(*ssa.UnOp)
		return ok && x.Op == token.MUL && y.Op == token.MUL && sameVal(x.X, y.X)
	case *ssa.FieldAddr:
		y, ok := b.(*ssa.FieldAddr)
		return ok && x.Field == y.Field && sameVal(x.X, y.X)
	case *ssa.Field:
		y, ok := b.(*ssa.Field)
		return ok && x.Field == y.Field && sameVal(x.X, y.X)
	}
	return false
}

// oneSidedPositional — in a bool function that walks two sequences position by position, an ordering test x[i] < y[i] that
// leaves the loop must be matched by the opposite test (or by an (in)equality test) of the same two elements in that loop:
// otherwise a later position overrules an earlier one that already decided the other way, and the relation is no ordering
// (less(a,b) and less(b,a) both hold), so sorting by it gives an order that depends on where the elements started.
func oneSidedPositional(fn *ssa.Function) []*ssa.BinOp {
	if fn == nil || fn.Signature.Results().Len() != 1 || !types.Identical(fn.Signature.Results().At(0).Type().Underlying(), types.Typ[types.Bool]) {
		return nil
	}
	type group struct {
		hdr        *ssa.BasicBlock
		a, b, idx  ssa.Value
		lt, gt, eq bool
		first      *ssa.BinOp
	}
	var groups []*group
	allInstrs(fn, func(in ssa.Instruction) {
		bo, ok := in.(*ssa.BinOp)
		if !ok {
			return
		}
		switch bo.Op {
		case token.LSS, token.GTR, token.LEQ, token.GEQ, token.EQL, token.NEQ:
		default:
			return
		}
		ax, ai, ok1 := elemReadOf(bo.X)
		bx, bi, ok2 := elemReadOf(bo.Y)
		if !ok1 || !ok2 || !sameVal(ai, bi) || sameVal(ax, bx) {
			return
		}
		hdr := loopHeaderOf(bo)
		if hdr == nil {
			return
		}
		var g *group
		swapped := false
		for _, x := range groups {
			if x.hdr != hdr || !sameVal(x.idx, ai) {
				continue
			}
			if sameVal(x.a, ax) && sameVal(x.b, bx) {
				g = x
			} else if sameVal(x.a, bx) && sameVal(x.b, ax) {
				g, swapped = x, true
			}
		}
		if g == nil {
			g = &group{hdr: hdr, a: ax, b: bx, idx: ai}
			groups = append(groups, g)
		}
		lt := bo.Op == token.LSS || bo.Op == token.LEQ
		gt := bo.Op == token.GTR || bo.Op == token.GEQ
		if swapped {
			lt, gt = gt, lt
		}
		if lt || gt {
			if g.first == nil {
				g.first = bo
			}
		}
		g.lt, g.gt = g.lt || lt, g.gt || gt
		if bo.Op == token.EQL || bo.Op == token.NEQ {
			g.eq = true
		}
	})
	var out []*ssa.BinOp
	for _, g := range groups {
		if g.first != nil && !g.eq && g.lt != g.gt {
			out = append(out, g.first)
		}
	}
	return out
}

// ruleSortComparatorsTwoSided — the orderings offered by the list API (closures of sortFunc and the same-package helpers they
// call) contain no one-sided positional comparison. Paging shows every allocated ip exactly once only when consecutive pages
// are windows of one ordering.
func ruleSortComparatorsTwoSided(c *Ctx, rule string) {
	fn := c.MustFn(rule, "pkg/ipam/api", "sortFunc")
	if fn == nil {
		return
	}
	// the comparators may be closures of sortFunc or named functions handed around as values: every bool function of the
	// package (and the same-package helpers it calls) is looked at
	n := 0
	seen := map[*ssa.Function]bool{}
	var scope []*ssa.Function
	for _, f := range c.SrcFns {
		if f.Pkg != fn.Pkg {
			continue
		}
		for _, g := range withAnon(f) {
			for _, h := range append([]*ssa.Function{g}, helperFns(g, 2)...) {
				if !seen[h] {
					seen[h] = true
					scope = append(scope, h)
				}
			}
		}
	}
	for _, f := range scope {
		if f.Signature.Results().Len() != 1 || !types.Identical(f.Signature.Results().At(0).Type().Underlying(), types.Typ[types.Bool]) {
			continue
		}
		n++
		bos := oneSidedPositional(f)
		for _, bo := range bos {
			c.ob(rule, f, "a positional comparison used for sorting decides both ways", bo, false,
				"the loop tests the two elements of a position in one direction only and never for (in)equality: a later position overrules an earlier one, less(a,b) and less(b,a) can both hold")
		}
		if len(bos) == 0 {
			c.ob(rule, f, "a positional comparison used for sorting decides both ways", nil, true,
				"the bool function contains no one-sided positional comparison")
		}
	}
	if n == 0 {
		c.undecided(rule, fn, "comparators of sortFunc", nil, "none found")
	}
}

// flagEdges: cond is a bool flag in SSA form — a phi (of phis) over the constants true and false. Returns the CFG edges on
// which true resp. false enters.
func flagEdges(cond ssa.Value) (trueIn, falseIn []edge, ok bool) { return flagEdgesX(cond, nil) }

// flagEdgesX: as flagEdges; inputs accepted by `also` may enter the flag besides the constants.
func flagEdgesX(cond ssa.Value, also func(ssa.Value) bool) (trueIn, falseIn []edge, ok bool) {
	seen := map[*ssa.Phi]bool{}
	ok = true
	var walk func(v ssa.Value)
	walk = func(v ssa.Value) {
		phi, isPhi := v.(*ssa.Phi)
		if !isPhi {
			if also == nil || !also(v) {
				ok = false
			}
			return
		}
		if seen[phi] {
			return
		}
		seen[phi] = true
		for i, in := range phi.Edges {
			pred := phi.Block().Preds[i]
			if k, isC := in.(*ssa.Const); isC && k.Value != nil && k.Value.Kind() == constant.Bool {
				for si, sb := range pred.Succs {
					if sb == phi.Block() {
						if constant.BoolVal(k.Value) {
							trueIn = append(trueIn, edge{pred, si})
						} else {
							falseIn = append(falseIn, edge{pred, si})
						}
					}
				}
				continue
			}
			walk(in)
		}
	}
	if _, isPhi := cond.(*ssa.Phi); !isPhi && (also == nil || !also(cond)) {
		return nil, nil, false
	}
	walk(cond)
	return
}

// ---------- C09.R14 / C05.R17 ----------

// ruleReservationDeleteFreesOnlyReservation — the delete event of an administrator's reservation may arrive late: after a reload
// (which lists from the API server and no longer sees the object) the ip can already belong to a pod. The handler therefore
// frees the cached entry only if that entry is the reservation — it carries the reserved label, which handleFIPAssign and the
// reload put on reservations and nothing else does. Otherwise memory drops a pod's ip that the store still holds.
func ruleReservationDeleteFreesOnlyReservation(c *Ctx, rule string) {
	fn := c.MustFn(rule, fipPkg, "(*crdIpam).handleFIPUnassign")
	if fn == nil {
		return
	}
	frees := callsX(fn, "(*crdIpam).syncCacheAfterDel")
	if len(frees) == 0 {
		c.undecided(rule, fn, "syncCacheAfterDel", nil, "the delete handler frees nothing")
		return
	}
	isReservation := func(v ssa.Value) (bool, int) {
		if u, ok := v.(*ssa.UnOp); ok && u.Op == token.NOT {
			m, s := cachedLabelLookup(u.X)
			return m, 1 - s
		}
		return cachedLabelLookup(v)
	}
	for _, f := range frees {
		host := f.Parent()
		es := guardEdges(host, isReservation)
		ok := len(es) > 0 && guardedBy(host, f, es)
		if host != fn && !ok {
			// the test may sit in the handler, in front of the helper call
			if s := siteIn(fn, f); s != nil {
				es = guardEdges(fn, isReservation)
				ok = len(es) > 0 && guardedBy(fn, s, es)
			}
		}
		c.ob(rule, fn, "a reservation's delete event frees the cached entry only if it is the reservation", f, ok,
			"syncCacheAfterDel is reached only through the found-edge of `_, ok := <cached entry>.Labels[reserved label]`: an entry a pod owns by now (late event after a reload) is left alone")
	}
}

// cachedLabelLookup: v is the ok of `_, ok := x.Labels[..]` with x a cache entry (*floatingip.FloatingIP), or the result of a
// same-package predicate that is given x (or x.Labels) and returns the ok of such a lookup on its parameter
func cachedLabelLookup(v ssa.Value) (bool, int) {
	if call, isCall := v.(*ssa.Call); isCall {
		callee := call.Call.StaticCallee()
		if callee == nil || callee.Signature.Results().Len() != 1 || len(callee.Blocks) == 0 {
			return false, 0
		}
		given := false
		for _, a := range call.Call.Args {
			if b, name, ok := fieldLoad(a); ok && name == "Labels" && typeNameOf(b.Type()) == "FloatingIP" && strings.Contains(b.Type().String(), fipPkg) {
				given = true
			}
			if typeNameOf(a.Type()) == "FloatingIP" && strings.Contains(a.Type().String(), fipPkg) {
				given = true
			}
		}
		if !given {
			return false, 0
		}
		for _, ret := range returns(callee) {
			ex, ok := ret.Results[0].(*ssa.Extract)
			if !ok || ex.Index != 1 {
				return false, 0
			}
			lk, ok := ex.Tuple.(*ssa.Lookup)
			if !ok || !lk.CommaOk {
				return false, 0
			}
			if _, isP := lk.X.(*ssa.Parameter); !isP {
				if b, name, ok := fieldLoad(lk.X); !ok || name != "Labels" {
					return false, 0
				} else if _, isP := b.(*ssa.Parameter); !isP {
					return false, 0
				}
			}
		}
		return true, 0
	}
	ex, ok := v.(*ssa.Extract)
	if !ok || ex.Index != 1 {
		return false, 0
	}
	lk, ok := ex.Tuple.(*ssa.Lookup)
	if !ok || !lk.CommaOk {
		return false, 0
	}
	base, name, ok := fieldLoad(lk.X)
	if !ok || name != "Labels" {
		return false, 0
	}
	return typeNameOf(base.Type()) == "FloatingIP" && strings.Contains(base.Type().String(), fipPkg), 0
}

// ---------- C04.R18 / C01.R19 ----------

// ruleBindChecksIncarnation — Bind records the uid of the pod it read from its lister with the ip, but binds the pod the scheduler
// names (args.PodUID). When the lister is one delete-and-create behind, these are two incarnations: the binding succeeds for the new
// one while the old uid is stored, and the late delete event of the old one passes unbind's uid guard and frees the live pod's ip.
// Bind therefore allocates only behind `pod.UID == args.PodUID` (or with no uid given by the scheduler).
func ruleBindChecksIncarnation(c *Ctx, rule string) {
	fn := c.MustFn(rule, spPkg, "(*FloatingIPPlugin).Bind")
	if fn == nil {
		return
	}
	al := callsLocal(fn, "(*FloatingIPPlugin).allocateIP")
	if len(al) == 0 {
		c.undecided(rule, fn, "allocateIP", nil, "no call in Bind")
		return
	}
	strip := func(v ssa.Value) ssa.Value {
		for {
			switch x := v.(type) {
			case *ssa.ChangeType:
				v = x.X
			case *ssa.Convert:
				v = x.X
			default:
				return v
			}
		}
	}
	isPodUID := func(v ssa.Value) bool {
		v = strip(v)
		if isFieldLoadNamed(v, "UID") {
			return true
		}
		call, ok := v.(*ssa.Call)
		return ok && nameMatch(calleeName(call), "GetUID")
	}
	isArgUID := func(v ssa.Value) bool { return isFieldLoadNamed(strip(v), "PodUID") }
	same := guardEdges(fn, func(v ssa.Value) (bool, int) {
		bo, ok := v.(*ssa.BinOp)
		if !ok || (bo.Op != token.EQL && bo.Op != token.NEQ) {
			return false, 0
		}
		holds := 0
		if bo.Op == token.NEQ {
			holds = 1
		}
		if isPodUID(bo.X) && isArgUID(bo.Y) || isPodUID(bo.Y) && isArgUID(bo.X) {
			return true, holds
		}
		// no uid given by the caller
		if k, isC := strip(bo.Y).(*ssa.Const); isC && isArgUID(bo.X) && k.Value != nil && k.Value.Kind() == constant.String && constant.StringVal(k.Value) == "" {
			return true, holds
		}
		return false, 0
	})
	compared := false
	for _, e := range same {
		if bo, ok := lastInstr(e.from).(*ssa.If).Cond.(*ssa.BinOp); ok && (isPodUID(bo.X) || isPodUID(bo.Y)) {
			compared = true
		}
	}
	for _, a := range al {
		c.ob(rule, fn, "Bind allocates only for the incarnation the scheduler binds", a, compared && guardedBy(fn, a, same),
			"allocateIP is reached only through the equal-edge of `<lister pod>.UID == args.PodUID` (or `args.PodUID == \"\"`): the uid stored with the ip is the uid of the pod that gets the binding")
	}
}

// ---------- round 8 ----------

// ruleBindingNamesIncarnation (C01.R20 / C04.R19) — the Binding posted by Bind carries a uid (the scheduler's, or the checked
// lister pod's): the API server turns it into a precondition, so a pod re-created under the same name between Bind's lookup
// and the post does not get the ip that was recorded for its predecessor.
func ruleBindingNamesIncarnation(c *Ctx, rule string) {
	fn := c.MustFn(rule, spPkg, "(*FloatingIPPlugin).Bind")
	if fn == nil {
		return
	}
	n := 0
	scope := []*ssa.Function{fn}
	scope = append(scope, helperFns(fn, 2)...)
	for _, f := range append([]*ssa.Function{}, scope...) {
		scope = append(scope, f.AnonFuncs...)
		for _, a := range f.AnonFuncs {
			scope = append(scope, helperFns(a, 1)...)
		}
	}
	for _, f := range scope {
		for _, b := range callsLocal(f, "PodInterface).Bind", "PodExpansion).Bind") {
			args := callArgs(b)
			if len(args) < 2 {
				continue
			}
			n++
			ok := false
			for _, g := range scope {
				allInstrs(g, func(in ssa.Instruction) {
					st, isSt := in.(*ssa.Store)
					if !isSt {
						return
					}
					fa, isFa := st.Addr.(*ssa.FieldAddr)
					if !isFa || fieldName(fa.X.Type(), fa.Field) != "UID" {
						return
					}
					root := fa.X
					for {
						up, isUp := root.(*ssa.FieldAddr)
						if !isUp {
							break
						}
						root = up.X
					}
					if typeNameOf(root.Type()) != "Binding" {
						return
					}
					v := st.Val
					if ct, isCt := v.(*ssa.ChangeType); isCt {
						v = ct.X
					}
					if isFieldLoadNamed(v, "PodUID") || isFieldLoadNamed(v, "UID") {
						ok = true
					}
				})
			}
			c.ob(rule, fn, "the posted Binding names the incarnation", b, ok, "the Binding given to Pods().Bind is built with a uid (args.PodUID / pod.UID): the API server refuses it for a pod re-created under the same name")
		}
	}
	if n == 0 {
		c.undecided(rule, fn, "Pods().Bind call", nil, "not found in Bind or its closures")
	}
}

// ruleChecklistPodKeysOnly (C02.R17 / C03.R15) — resync judges pods. An entry whose key names no pod (the reserve of a deployment
// or pool) never enters the checklist: unbindDpPod with such a key would count the whole reserve as surplus and free it.
func ruleChecklistPodKeysOnly(c *Ctx, rule string) {
	fn := c.MustFn(rule, spPkg, "(*FloatingIPPlugin).fetchChecklist")
	if fn == nil {
		return
	}
	podNamed := func(v ssa.Value) (bool, int) {
		bo, ok := v.(*ssa.BinOp)
		if !ok || (bo.Op != token.EQL && bo.Op != token.NEQ) || !isFieldLoadNamed(bo.X, "PodName") {
			return false, 0
		}
		k, isC := bo.Y.(*ssa.Const)
		if !isC || k.Value == nil || k.Value.Kind() != constant.String || constant.StringVal(k.Value) != "" {
			return false, 0
		}
		if bo.Op == token.EQL {
			return true, 1
		}
		return true, 0
	}
	hasPod := guardEdges(fn, podNamed)
	// the guards may sit in a predicate helper `(key, ok)`: its ok is true only behind the pod-name edge
	hasPod = append(hasPod, guardEdges(fn, func(v ssa.Value) (bool, int) {
		ex, ok := v.(*ssa.Extract)
		if !ok {
			return false, 0
		}
		call, ok := ex.Tuple.(*ssa.Call)
		if !ok {
			return false, 0
		}
		h := call.Call.StaticCallee()
		if h == nil || len(h.Blocks) == 0 || h.Pkg != fn.Pkg || ex.Index >= h.Signature.Results().Len() {
			return false, 0
		}
		if b, isB := h.Signature.Results().At(ex.Index).Type().Underlying().(*types.Basic); !isB || b.Kind() != types.Bool {
			return false, 0
		}
		he := guardEdges(h, podNamed)
		if len(he) == 0 {
			return false, 0
		}
		for _, ret := range returns(h) {
			if k, isC := ret.Results[ex.Index].(*ssa.Const); isC && k.Value != nil && k.Value.Kind() == constant.Bool && !constant.BoolVal(k.Value) {
				continue
			}
			if !guardedBy(h, ret, he) {
				return false, 0
			}
		}
		return true, 0
	})...)
	n := 0
	allInstrs(fn, func(in ssa.Instruction) {
		call, ok := isBuiltinCall(in, "append")
		if !ok || loopHeaderOf(call) == nil {
			return
		}
		n++
		c.ob(rule, fn, "only keys that name a pod enter the resync checklist", call, len(hasPod) > 0 && guardedBy(fn, call, hasPod),
			"the append to the checklist is reached only through the `keyObj.PodName != \"\"` edge")
	})
	if n == 0 {
		c.undecided(rule, fn, "append to the checklist", nil, "not found")
	}
}

// ruleUpdateAttrWritesGivenAttr (C03.R14) — UpdateAttr stores the attributes it is given: bind uses it to replace the policy of a
// re-used reserved ip by the new pod's policy, whatever that is (the default policy is a value, not `unset`).
func ruleUpdateAttrWritesGivenAttr(c *Ctx, rule string) {
	fn := c.MustFn(rule, fipPkg, "(*crdIpam).UpdateAttr")
	if fn == nil {
		return
	}
	var attr *ssa.Parameter
	for _, p := range fn.Params {
		if typeNameOf(p.Type()) == "Attr" {
			attr = p
		}
	}
	if attr == nil {
		c.undecided(rule, fn, "Attr parameter", nil, "not found")
		return
	}
	var bad ssa.Instruction
	allInstrs(fn, func(in ssa.Instruction) {
		st, ok := in.(*ssa.Store)
		if !ok {
			return
		}
		fa, ok := st.Addr.(*ssa.FieldAddr)
		if !ok {
			return
		}
		if a, isA := fa.X.(*ssa.Alloc); isA && unspillAddrOfParam(a, attr) {
			bad = st
		}
	})
	c.ob(rule, fn, "UpdateAttr stores the attributes it was given", bad, bad == nil, "no field of the Attr parameter is overwritten inside UpdateAttr")
}

// ruleStoreWriteBeforeSuccess (C05.R18) — the store helpers report success only after the API call: a nil return that does not pass
// Create / Update / Delete lets the caller change memory for something the store never saw.
func ruleStoreWriteBeforeSuccess(c *Ctx, rule string) {
	n := 0
	for _, it := range []struct{ fn, call string }{{"(*crdIpam).createFloatingIP", "FloatingIPInterface).Create"}, {"(*crdIpam).updateFloatingIP", "FloatingIPInterface).Update"}, {"(*crdIpam).deleteFloatingIP", "FloatingIPInterface).Delete"}} {
		fn := c.MustFn(rule, fipPkg, it.fn)
		if fn == nil {
			continue
		}
		cs := callsX(fn, it.call)
		if len(cs) == 0 {
			c.undecided(rule, fn, it.call, nil, "the API call was not found")
			continue
		}
		ei := errResultIndex(fn)
		r := reachFromEntry(fn, newCut().callInstrs(cs))
		for _, ret := range returns(fn) {
			if !isNilConst(retVal(ret, ei)) {
				continue
			}
			n++
			c.ob(rule, fn, "success only after the store call", ret, !r.has(ret), "no `return nil` is reachable without passing "+it.call)
		}
		// returns of the call's own error are behind the call by construction
		n++
		c.ob(rule, fn, "the store helper issues the API call", cs[0], true, it.call+" is called; its error is what the other returns carry")
	}
	if n == 0 {
		c.undecided(rule, nil, "store helpers", nil, "none found")
	}
}

// rulePoolKeyOnlyWithoutApp (C11.R14) — the key of a pod is the bare pool prefix only when no app name was given at all (the
// administrator's pool-level entries). Every pod — also one without owner reference — keeps its namespace and name in the key.
func rulePoolKeyOnlyWithoutApp(c *Ctx, rule string) {
	fn := c.MustFn(rule, "pkg/ipam/schedulerplugin/util", "(*KeyObj).genKey")
	if fn == nil {
		return
	}
	noAppPred := func(v ssa.Value) (bool, int) {
		bo, ok := v.(*ssa.BinOp)
		if !ok || (bo.Op != token.EQL && bo.Op != token.NEQ) || !isFieldLoadNamed(bo.X, "AppName") {
			return false, 0
		}
		k, isC := bo.Y.(*ssa.Const)
		if !isC || k.Value == nil || k.Value.Kind() != constant.String || constant.StringVal(k.Value) != "" {
			return false, 0
		}
		if bo.Op == token.EQL {
			return true, 0
		}
		return true, 1
	}
	noApp := guardEdges(fn, noAppPred)
	n := 0
	allInstrs(fn, func(in ssa.Instruction) {
		st, ok := in.(*ssa.Store)
		if !ok {
			return
		}
		if _, isKey := fieldAddrNamed(st.Addr, "KeyInDB"); !isKey {
			return
		}
		// the key computed by a same-package helper: its returns are judged in the helper
		if call, isCall := st.Val.(*ssa.Call); isCall {
			takesKey := false
			for _, a := range call.Call.Args {
				if typeNameOf(a.Type()) == "KeyObj" {
					takesKey = true
				}
			}
			if h := call.Call.StaticCallee(); takesKey && h != nil && len(h.Blocks) > 0 && h.Pkg == fn.Pkg {
				he := guardEdges(h, noAppPred)
				for _, ret := range returns(h) {
					if len(ret.Results) != 1 || dependsOnLocal(ret.Results[0], func(x ssa.Value) bool { return isFieldLoadNamed(x, "PodName") }) {
						continue
					}
					n++
					c.ob(rule, h, "a key without pod name is produced only for an empty app name", ret, len(he) > 0 && guardedBy(h, ret, he), "the return of a key without pod name is reached only through the `AppName == \"\"` edge")
				}
				return
			}
		}
		if dependsOnLocal(st.Val, func(x ssa.Value) bool { return isFieldLoadNamed(x, "PodName") }) {
			return
		}
		n++
		c.ob(rule, fn, "a key without pod name is produced only for an empty app name", st, len(noApp) > 0 && guardedBy(fn, st, noApp), "the store `KeyInDB = <prefix without pod name>` is reached only through the `AppName == \"\"` edge")
	})
	if n == 0 {
		c.undecided(rule, fn, "KeyInDB stores without pod name", nil, "none found")
	}
}

// ruleConfDirSubdirsAlwaysSearched (C12.R9) — a network's configuration is looked for in confdir and in its sub directories, always:
// a success return of GetNetworkConfig passes the ReadDir of confdir.
func ruleConfDirSubdirsAlwaysSearched(c *Ctx, rule string) {
	fn := c.MustFn(rule, "pkg/api/cniutil", "GetNetworkConfig")
	if fn == nil {
		return
	}
	rd := callsLocal(fn, "ioutil.ReadDir", "os.ReadDir")
	// a same-package helper whose every success return passes ReadDir counts at its call site
	for _, h := range helperFns(fn, 1) {
		hr := callsLocal(h, "ioutil.ReadDir", "os.ReadDir")
		if len(hr) == 0 {
			continue
		}
		hei := errResultIndex(h)
		reach := reachFromEntry(h, newCut().callInstrs(hr))
		all := true
		for _, ret := range returns(h) {
			if hei >= 0 && isNilConst(retVal(ret, hei)) && reach.has(ret) {
				all = false
			}
		}
		if all {
			rd = append(rd, staticSitesIn(fn, h)...)
		}
	}
	if len(rd) == 0 {
		c.ob(rule, fn, "the sub directories of confdir are searched", nil, false, "no ReadDir call")
		return
	}
	ei := errResultIndex(fn)
	r := reachFromEntry(fn, newCut().callInstrs(rd))
	n := 0
	for _, ret := range returns(fn) {
		if !isNilConst(retVal(ret, ei)) {
			continue
		}
		n++
		c.ob(rule, fn, "the sub directories of confdir are searched before a configuration is returned", ret, !r.has(ret), "no success return is reachable without passing ReadDir(confdir)")
	}
	if n == 0 {
		c.undecided(rule, fn, "success returns", nil, "none found")
	}
}

// ruleRetryKeepsError (C14.R15) — withRetry: an attempt that failed never ends the retrying as done-without-error.
func ruleRetryKeepsError(c *Ctx, rule string) {
	fn := c.MustFn(rule, pmPkg, "(*PortMappingHandler).withRetry")
	if fn == nil {
		return
	}
	n := 0
	scope := append([]*ssa.Function{fn}, helperFns(fn, 1)...)
	for _, f := range append([]*ssa.Function{}, scope...) {
		scope = append(scope, f.AnonFuncs...)
		for _, a := range f.AnonFuncs {
			scope = append(scope, helperFns(a, 1)...)
		}
	}
	for _, f := range scope {
		allInstrs(f, func(in ssa.Instruction) {
			call, ok := in.(*ssa.Call)
			if !ok || call.Call.IsInvoke() || call.Call.StaticCallee() != nil {
				return
			}
			if _, isB := call.Call.Value.(*ssa.Builtin); isB {
				return
			}
			sig, ok := call.Call.Value.Type().Underlying().(*types.Signature)
			if !ok || sig.Params().Len() != 0 || sig.Results().Len() != 1 {
				return
			}
			ts := errTests(call)
			if len(ts) == 0 {
				c.undecided(rule, f, "error test of the attempt", call, "the attempt's error is not tested")
				return
			}
			n++
			ei := errResultIndex(f)
			ok2 := true
			for _, t := range ts {
				r := reachFromEdge(t.ErrEdge, nil)
				for _, ret := range returns(f) {
					if !r.has(ret) || ei < 0 || !isNilConst(retVal(ret, ei)) {
						continue
					}
					// (false, nil) asks for another attempt; anything else with a nil error ends it as a success
					if len(ret.Results) == 2 {
						if k, isC := ret.Results[0].(*ssa.Const); isC && k.Value != nil && k.Value.Kind() == constant.Bool && !constant.BoolVal(k.Value) {
							continue
						}
					}
					ok2 = false
				}
			}
			c.ob(rule, f, "a failed attempt never ends the retry as success", call, ok2, "from the err != nil edge of the attempt every return either carries an error or asks for another attempt (false, nil)")
		})
	}
	if n == 0 {
		c.undecided(rule, fn, "attempt call", nil, "no call of the function parameter found")
	}
}

// rulePerPodRestoreDeclaresOwnChainsOnly (C14.R16) — the per-pod restores run with --noflush; declaring a chain there flushes it. Only
// the pod's own KUBE-HP-* chains (and KUBE-MARK-MASQ, rewritten in full by the same helper) are declared, never a shared chain.
func rulePerPodRestoreDeclaresOwnChainsOnly(c *Ctx, rule string) {
	n := 0
	var masq string
	for _, name := range []string{"(*PortMappingHandler).SetupPortMapping", "(*PortMappingHandler).CleanPortMapping"} {
		fn := c.MustFn(rule, pmPkg, name)
		if fn == nil {
			continue
		}
		if k, ok := fn.Pkg.Pkg.Scope().Lookup("KubeMarkMasqChain").(*types.Const); ok && k.Val().Kind() == constant.String {
			masq = constant.StringVal(k.Val())
		}
		for _, f := range append([]*ssa.Function{fn}, helperFns(fn, 1)...) {
			for _, m := range callsLocal(f, "MakeChainLine") {
				n++
				arg := callArgs(m)[0]
				own := dependsOn(arg, func(x ssa.Value) bool {
					call, ok := x.(*ssa.Call)
					return ok && nameMatch(calleeName(call), "hostportChainName")
				})
				if k, isC := arg.(*ssa.Const); isC && k.Value != nil && k.Value.Kind() == constant.String && masq != "" && constant.StringVal(k.Value) == masq {
					own = true
				}
				c.ob(rule, fn, "a per-pod restore declares (and thereby flushes) only the pod's own chains", m, own, "the chain line is built from hostportChainName(port, pod) (or is KUBE-MARK-MASQ, which the same helper refills)")
			}
		}
	}
	if n == 0 {
		c.undecided(rule, nil, "chain lines of the per-pod restores", nil, "none found")
	}
}

// sliceLiteral: the element values of a slice built as a literal ([]T{a, b, ..}), nil if v is not of that shape.
func sliceLiteral(v ssa.Value) []ssa.Value {
	sl, ok := v.(*ssa.Slice)
	if !ok {
		return nil
	}
	al, ok := sl.X.(*ssa.Alloc)
	if !ok {
		return nil
	}
	var out []ssa.Value
	for _, ref := range *al.Referrers() {
		ia, ok := ref.(*ssa.IndexAddr)
		if !ok {
			continue
		}
		k, isC := constIntVal(ia.Index)
		if !isC {
			return nil
		}
		for _, r2 := range *ia.Referrers() {
			if st, ok := r2.(*ssa.Store); ok && st.Addr == ssa.Value(ia) {
				for int(k) >= len(out) {
					out = append(out, nil)
				}
				out[k] = st.Val
			}
		}
	}
	return out
}

func sameLiteral(a, b ssa.Value) bool {
	if a == b {
		return true
	}
	la, lb := sliceLiteral(a), sliceLiteral(b)
	if la == nil || lb == nil || len(la) != len(lb) {
		return false
	}
	for i := range la {
		if la[i] == nil || lb[i] == nil {
			return false
		}
		ka, okA := la[i].(*ssa.Const)
		kb, okB := lb[i].(*ssa.Const)
		if okA && okB {
			if ka.Value == nil || kb.Value == nil || !constant.Compare(ka.Value, token.EQL, kb.Value) {
				return false
			}
			continue
		}
		if !sameVal(la[i], lb[i]) {
			return false
		}
	}
	return true
}

// ruleJumpRuleAddedAndDeletedAlike (C15.R13) — SyncPodChains adds the pod's jump rule to a chain when a policy selects the pod and
// deletes it otherwise; per chain both calls are given the same rule, or the stale jump survives every later sync.
func ruleJumpRuleAddedAndDeletedAlike(c *Ctx, rule string) {
	fn := c.MustFn(rule, polPkg, "(*PolicyManager).SyncPodChains")
	if fn == nil {
		return
	}
	type site struct {
		call  ssa.CallInstruction
		chain ssa.Value
		args  ssa.Value
	}
	n := 0
	for _, f := range append([]*ssa.Function{fn}, helperFns(fn, 1)...) {
		var adds, dels []site
		for _, e := range callsLocal(f, "Interface).EnsureRule") {
			a := callArgs(e)
			if len(a) >= 4 {
				adds = append(adds, site{e, a[2], a[3]})
			}
		}
		for _, d := range callsLocal(f, "Interface).DeleteRule") {
			a := callArgs(d)
			if len(a) >= 3 {
				dels = append(dels, site{d, a[1], a[2]})
			}
		}
		sameChain := func(a, b ssa.Value) bool {
			if sameVal(a, b) {
				return true
			}
			ka, okA := a.(*ssa.Const)
			kb, okB := b.(*ssa.Const)
			return okA && okB && ka.Value != nil && kb.Value != nil && constant.Compare(ka.Value, token.EQL, kb.Value)
		}
		for _, d := range dels {
			for _, a := range adds {
				if !sameChain(a.chain, d.chain) {
					continue
				}
				n++
				c.ob(rule, fn, "the jump rule deleted from a chain is the one added to it", d.call, sameLiteral(a.args, d.args), "EnsureRule and DeleteRule on the same chain are given the same rule arguments")
			}
		}
	}
	if n < 1 {
		c.undecided(rule, fn, "EnsureRule / DeleteRule pairs", nil, fmt.Sprintf("expected the ingress and the egress pair (or the pair of a shared helper), found %d", n))
	}
}

// ruleCidrMasked (C15.R14) — ipset stores networks masked; the member strings galaxy compares with `ipset list` are therefore built
// from the parsed network, never from the address as written (10.246.33.13/31 is the member 10.246.33.12/31).
func ruleCidrMasked(c *Ctx, rule string) {
	fn := c.MustFn(rule, polPkg, "formatCidr")
	if fn == nil {
		return
	}
	ps := calls(fn, "net.ParseCIDR")
	if len(ps) != 1 {
		c.undecided(rule, fn, "net.ParseCIDR", nil, "expected one call")
		return
	}
	n := 0
	for _, ret := range returns(fn) {
		if k, isC := retVal(ret, 0).(*ssa.Const); isC && k.Value != nil {
			continue
		}
		n++
		fromAddr := dependsOn(retVal(ret, 0), func(x ssa.Value) bool {
			ex, ok := x.(*ssa.Extract)
			return ok && ex.Tuple == ps[0].Value() && ex.Index == 0
		})
		fromNet := dependsOn(retVal(ret, 0), func(x ssa.Value) bool {
			ex, ok := x.(*ssa.Extract)
			return ok && ex.Tuple == ps[0].Value() && ex.Index == 1
		})
		c.ob(rule, fn, "a set member is the masked network", ret, fromNet && !fromAddr, "the result derives from the *IPNet of ParseCIDR and not from the address as written")
	}
	if n == 0 {
		c.undecided(rule, fn, "non-constant results", nil, "none found")
	}
}

// ruleStateFileRemovedRegardless (C17.R8) — a dead container's state file is removed whether or not its port clean-up succeeded: the
// clean-up can fail for ever (a truncated port file), and the file is the only thing that keeps the container on the gc's list.
func ruleStateFileRemovedRegardless(c *Ctx, rule string) {
	fn := c.MustFn(rule, "pkg/gc", "(*flannelGC).removeLeakyStateFile")
	if fn == nil {
		return
	}
	rm := callsX(fn, "os.Remove", "os.RemoveAll")
	if len(rm) == 0 {
		c.ob(rule, fn, "the state file is removed", nil, false, "no os.Remove")
		return
	}
	r := reachFromEntry(fn, newCut().callInstrs(rm))
	bad := false
	for _, ret := range returns(fn) {
		if r.has(ret) {
			bad = true
		}
	}
	c.ob(rule, fn, "the state file of a dead container is removed on every path", rm[0], !bad, "no return of removeLeakyStateFile is reachable without passing os.Remove(file)")
}

// rulePolicyStrArgBounded (C18.R16) — PolicyStr indexes a three-element array: its argument is a policy derived from the pod's
// annotation (parseReleasePolicy / ConvertReleasePolicy give 0..2) or a constant, never a number read from a stored object.
func rulePolicyStrArgBounded(c *Ctx, rule string) {
	n := 0
	for _, fn := range c.SrcFns {
		for _, call := range callsLocal(fn, constPkg+".PolicyStr") {
			n++
			arg := callArgs(call)[0]
			bounded := func(v ssa.Value) bool {
				for {
					switch x := v.(type) {
					case *ssa.ChangeType:
						v = x.X
						continue
					case *ssa.Convert:
						v = x.X
						continue
					}
					break
				}
				if k, isC := v.(*ssa.Const); isC {
					i, ok := constIntVal(k)
					return ok && i >= 0 && i <= 2
				}
				cl, ok := unspill(v).(*ssa.Call)
				return ok && (nameMatch(calleeName(cl), "parseReleasePolicy") || nameMatch(calleeName(cl), "ConvertReleasePolicy"))
			}
			ok := bounded(arg) || allActuals(arg, bounded)
			c.ob(rule, fn, "PolicyStr is given a policy in 0..2", call, ok, "the argument is the result of parseReleasePolicy / ConvertReleasePolicy (or a constant), at this site or at every caller passing it down")
		}
	}
	if n == 0 {
		c.undecided(rule, nil, "PolicyStr calls", nil, "none found")
	}
}

// ruleResolvedPeerRecorded (C18.R17) — peerRule records every peer it could resolve in the rule's ip or net table, also one that matches
// no pod yet: the incremental pod path dereferences rule.ipTable of every selector rule without a nil test.
func ruleResolvedPeerRecorded(c *Ctx, rule string) {
	fn := c.MustFn(rule, polPkg, "(*PolicyManager).peerRule")
	if fn == nil {
		return
	}
	pt := callsLocal(fn, "(*PolicyManager).peerTable")
	if len(pt) != 1 || loopHeaderOf(pt[0]) == nil {
		c.undecided(rule, fn, "peerTable call in the peers loop", nil, "expected exactly one")
		return
	}
	ts := errTests(pt[0])
	if len(ts) == 0 {
		c.undecided(rule, fn, "error test of peerTable", pt[0], "not tested")
		return
	}
	var stores []ssa.Instruction
	allInstrs(fn, func(in ssa.Instruction) {
		if st, ok := in.(*ssa.Store); ok {
			if fa, ok := st.Addr.(*ssa.FieldAddr); ok {
				switch fieldName(fa.X.Type(), fa.Field) {
				case "ipTable", "netTable", "entries":
					stores = append(stores, st)
				}
			}
		}
	})
	hdr := loopHeaderOf(pt[0])
	isTypeTest := func(iff *ssa.If) bool {
		bo, ok := iff.Cond.(*ssa.BinOp)
		return ok && (isFieldLoadNamed(bo.X, "SetType") || isFieldLoadNamed(bo.Y, "SetType"))
	}
	ok := len(stores) > 0
	var at ssa.Instruction = pt[0]
	for _, t := range ts {
		r := reachFromEdge(t.OkEdge, newCut().instr(stores...).instr(pt[0]))
		for _, b := range fn.Blocks {
			iff, isIf := lastInstr(b).(*ssa.If)
			if !isIf || !r.has(iff) || isTypeTest(iff) || b == hdr || !naturalLoop(hdr)[b] {
				continue
			}
			for k := range b.Succs {
				if reachFromEdge(edge{b, k}, newCut().instr(stores...).instr(pt[0])).has(hdr.Instrs[0]) {
					ok = false
					at = iff
				}
			}
		}
	}
	c.ob(rule, fn, "a resolved peer is always recorded in the rule", at, ok, "from the err == nil edge of peerTable the next iteration is reached without a store to ipTable / netTable / entries only through the set-type tests")
}

// ruleConfigDecodedIntoFreshValue (C20.R10) — the configmap value is decoded into a fresh local: encoding/json re-uses the elements of
// a non-empty target, so decoding into the pools in use would overwrite them before the new configuration has been accepted.
func ruleConfigDecodedIntoFreshValue(c *Ctx, rule string) {
	fn := c.MustFn(rule, spPkg, "(*FloatingIPPlugin).ensureIPAMConf")
	if fn == nil {
		return
	}
	us := callsX(fn, "encoding/json.Unmarshal", "Decoder).Decode")
	if len(us) == 0 {
		c.undecided(rule, fn, "json decode", nil, "not found")
		return
	}
	for _, u := range us {
		args := callArgs(u)
		tgt := args[len(args)-1]
		if mi, ok := tgt.(*ssa.MakeInterface); ok {
			tgt = mi.X
		}
		al, isAlloc := tgt.(*ssa.Alloc)
		fresh := isAlloc && len(u.Parent().Params) >= 0
		if isAlloc {
			// the local must not have been filled from a field before
			for _, ref := range *al.Referrers() {
				if st, ok := ref.(*ssa.Store); ok && st.Addr == ssa.Value(al) {
					if dependsOnLocal(st.Val, func(x ssa.Value) bool { _, _, isF := fieldLoad(x); return isF }) {
						fresh = false
					}
				}
			}
		}
		c.ob(rule, fn, "the configuration is decoded into a fresh value", u, fresh, "the decode target is a local variable of the function, not a field holding the pools in use")
	}
}

// rulePoolListNeverReordered (C06.R16) — pool.index is the position of a pool in ci.FloatingIPs; NodeSubnetsByIPRanges turns the
// indexes collected from the tables back into pools through that list. The published list is therefore never sorted or written
// element-wise in place (ConfigurePool sorts its parameter before publishing it).
func rulePoolListNeverReordered(c *Ctx, rule string) {
	n := 0
	var aliasesD func(v ssa.Value, d int) bool
	aliasesD = func(v ssa.Value, d int) bool {
		if d > 6 {
			return false
		}
		if isFieldLoadNamed(v, "FloatingIPs") {
			return true
		}
		switch x := v.(type) {
		case *ssa.Slice:
			return aliasesD(x.X, d+1)
		case *ssa.Phi:
			for _, e := range x.Edges {
				if aliasesD(e, d+1) {
					return true
				}
			}
		case *ssa.UnOp:
			if al, ok := x.X.(*ssa.Alloc); ok && x.Op == token.MUL {
				for _, ref := range *al.Referrers() {
					if st, ok := ref.(*ssa.Store); ok && st.Addr == ssa.Value(al) && aliasesD(st.Val, d+1) {
						return true
					}
				}
			}
		}
		return false
	}
	aliases := func(v ssa.Value) bool { return aliasesD(v, 0) }
	for _, fn := range c.SrcFns {
		if fn.Pkg == nil || !strings.HasSuffix(fn.Pkg.Pkg.Path(), fipPkg) {
			continue
		}
		reads := false
		allInstrs(fn, func(in ssa.Instruction) {
			if v, ok := in.(ssa.Value); ok && isFieldLoadNamed(v, "FloatingIPs") && typeNameOf(v.Type()) != "" || ok && isFieldLoadNamed(v, "FloatingIPs") {
				reads = true
			}
		})
		if !reads {
			continue
		}
		n++
		var bad ssa.Instruction
		for _, s := range callsLocal(fn, "sort.Slice", "sort.SliceStable", "sort.Sort", "sort.Stable") {
			a := s.Common().Args[0]
			if mi, ok := a.(*ssa.MakeInterface); ok {
				a = mi.X
			}
			if aliases(a) {
				bad = s
			}
		}
		allInstrs(fn, func(in ssa.Instruction) {
			st, ok := in.(*ssa.Store)
			if !ok {
				return
			}
			if ia, ok := st.Addr.(*ssa.IndexAddr); ok && aliases(ia.X) {
				if _, isPool := st.Val.Type().Underlying().(*types.Pointer); isPool {
					bad = st
				}
			}
		})
		c.ob(rule, fn, "the published pool list is not reordered in place", bad, bad == nil, "no sort call and no element store on a value that aliases ci.FloatingIPs: pool.index keeps naming the same pool")
	}
	if n == 0 {
		c.undecided(rule, nil, "readers of ci.FloatingIPs", nil, "none found")
	}
}

// ruleDerivedCachesDroppedOnReload (C06.R17) — whatever the paired table helpers reset when an ip moves between the tables (a memo derived
// from the tables) is stale after ConfigurePool replaced the tables as well: every crdIpam field stored by syncCacheAfterCreate /
// syncCacheAfterDel (or their helpers) is also stored by ConfigurePool.
func ruleDerivedCachesDroppedOnReload(c *Ctx, rule string) {
	cp := c.MustFn(rule, fipPkg, "(*crdIpam).ConfigurePool")
	if cp == nil {
		return
	}
	fieldsStored := func(fn *ssa.Function) map[string]ssa.Instruction {
		out := map[string]ssa.Instruction{}
		for _, f := range append([]*ssa.Function{fn}, helperFns(fn, 2)...) {
			allInstrs(f, func(in ssa.Instruction) {
				st, ok := in.(*ssa.Store)
				if !ok {
					return
				}
				fa, ok := st.Addr.(*ssa.FieldAddr)
				if !ok || typeNameOf(fa.X.Type()) != "crdIpam" {
					return
				}
				out[fieldName(fa.X.Type(), fa.Field)] = st
			})
		}
		return out
	}
	inReload := fieldsStored(cp)
	for _, name := range []string{"(*crdIpam).syncCacheAfterCreate", "(*crdIpam).syncCacheAfterDel"} {
		fn := c.MustFn(rule, fipPkg, name)
		if fn == nil {
			continue
		}
		missing, at := "", ssa.Instruction(nil)
		for f, st := range fieldsStored(fn) {
			if _, ok := inReload[f]; !ok {
				missing, at = f, st
			}
		}
		c.ob(rule, fn, "what the table helpers reset is reset by a reload too", at, missing == "", "every crdIpam field stored by the helper (a value derived from the tables) is also stored by ConfigurePool, which replaces the tables"+map[bool]string{true: "", false: "; not so: " + missing}[missing == ""])
	}
}

// ruleGoroutineWritesCaptured (C19.R13) — a goroutine started from a closure does not write a variable it captured by reference unless it
// holds a lock: the starter (or the sibling goroutines of the loop) access the same cell.
func ruleGoroutineWritesCaptured(c *Ctx, rule string) {
	n := 0
	for _, fn := range c.SrcFns {
		if fn.Pkg == nil || isGenerated(fn) {
			continue
		}
		allInstrs(fn, func(in ssa.Instruction) {
			g, ok := in.(*ssa.Go)
			if !ok {
				return
			}
			n++
			mc, ok := g.Call.Value.(*ssa.MakeClosure)
			if !ok {
				c.ob(rule, fn, "a goroutine does not write a captured variable without a lock", g, true, "the go statement starts a function that captures nothing by reference")
				return
			}
			cl := mc.Fn.(*ssa.Function)
			locks := len(callsLocal(cl, "sync.Mutex).Lock", "sync.RWMutex).Lock")) > 0
			var bad ssa.Instruction
			what := ""
			for i, b := range mc.Bindings {
				a, isAlloc := b.(*ssa.Alloc)
				if !isAlloc {
					continue
				}
				et := a.Type().Underlying().(*types.Pointer).Elem()
				if strings.HasPrefix(et.String(), "sync.") {
					continue
				}
				if _, isChan := et.Underlying().(*types.Chan); isChan {
					continue
				}
				fv := cl.FreeVars[i]
				for _, ref := range *fv.Referrers() {
					st, isSt := ref.(*ssa.Store)
					if !isSt || st.Addr != ssa.Value(fv) {
						continue
					}
					// someone else touches the cell: the starter after the go statement, or the other iterations of the loop
					shared := loopHeaderOf(g) != nil
					for _, r2 := range *a.Referrers() {
						if ins, ok := r2.(ssa.Instruction); ok && ins != ssa.Instruction(mc) && c.reachAfter(g, nil).has(ins) {
							shared = true
						}
					}
					if shared && !locks {
						bad, what = st, a.Comment
					}
				}
			}
			c.ob(rule, fn, "a goroutine does not write a captured variable without a lock", bad, bad == nil, "the closure started with `go` stores to no variable captured by reference that the starter or a sibling goroutine also accesses (or it takes a mutex)"+map[bool]string{true: "", false: "; not so: " + what}[bad == nil])
		})
	}
	if n == 0 {
		c.undecided(rule, nil, "go statements with closures", nil, "none found")
	}
}

// staticSitesIn: the call sites of callee inside fn.
func staticSitesIn(fn, callee *ssa.Function) []ssa.CallInstruction {
	var out []ssa.CallInstruction
	for _, cs := range staticSites[callee] {
		if cs.Parent() == fn {
			out = append(out, cs)
		}
	}
	return out
}

// ruleReleaseAPIFreesPostedIP (C11.R16 / C03.R16) — the release API frees the ip it was asked for, and only that one: Release hands the
// request's ip to IPAM.Release and calls no key-wide releaser (a key may hold several ips: a pool's or deployment's reserve, a
// pod with several ranges).
func ruleReleaseAPIFreesPostedIP(c *Ctx, rule string) {
	fn := c.MustFn(rule, spPkg, "(*FloatingIPPlugin).Release")
	if fn == nil {
		return
	}
	scope := append([]*ssa.Function{fn}, helperFns(fn, 1)...)
	var rel []ssa.CallInstruction
	var wide ssa.CallInstruction
	for _, f := range scope {
		rel = append(rel, callsLocal(f, "IPAM).Release")...)
		for _, w := range callsLocal(f, "(*FloatingIPPlugin).releaseIP", "IPAM).ReleaseIPs", "IPAM).ReleaseByPrefix") {
			wide = w
		}
	}
	okIP := false
	for _, r := range rel {
		a := callArgs(r)
		if len(a) == 2 && dependsOn(a[1], func(x ssa.Value) bool {
			b, name, ok := fieldLoad(x)
			return ok && name == "IP" && typeNameOf(b.Type()) == "ReleaseRequest"
		}) {
			okIP = true
		}
	}
	var at ssa.Instruction
	if wide != nil {
		at = wide
	} else if len(rel) > 0 {
		at = rel[0]
	}
	c.ob(rule, fn, "the release API frees the posted ip and nothing else", at, okIP && wide == nil, "Release calls IPAM.Release(key, <request>.IP) and no key-wide releaser (releaseIP / ReleaseIPs)")
}
