package main

import (
	"fmt"
	"go/token"
	"go/types"
	"os"
	"sort"
	"strings"

	"golang.org/x/tools/go/ssa"
)

const fipPkg = "pkg/ipam/floatingip"

var storeWriters = []string{"(*crdIpam).createFloatingIP", "(*crdIpam).updateFloatingIP", "(*crdIpam).deleteFloatingIP"}

// ipamMethods: named functions with receiver *crdIpam.
func ipamMethods(c *Ctx) []*ssa.Function {
	var out []*ssa.Function
	for _, fn := range c.SrcFns {
		if fn.Parent() != nil || fn.Signature.Recv() == nil {
			continue
		}
		if fn.Pkg.Pkg.Path() != modPath+fipPkg {
			continue
		}
		if typeNameOf(fn.Signature.Recv().Type()) == "crdIpam" {
			out = append(out, fn)
		}
	}
	return out
}

// mapFieldOf: v was obtained by lookup / range from a map that is the value of struct field X; returns X.
func mapFieldOf(v ssa.Value) string {
	for i := 0; i < 6; i++ {
		switch x := v.(type) {
		case *ssa.Extract:
			// result of a same-package lookup helper: the table its returned value was read from
			if call, ok := x.Tuple.(*ssa.Call); ok {
				if rs := helperResults(call, x.Index); len(rs) > 0 {
					if os.Getenv("GALAXY_DEBUG") != "" {
						for _, r := range rs {
							fmt.Printf("MAPFIELD helper result %s %T -> %q\n", r, r, mapFieldOf(r))
						}
					}
					name := ""
					for _, r := range rs {
						if isNilConst(r) {
							continue
						}
						n := mapFieldOf(r)
						if name != "" && n != name {
							return ""
						}
						name = n
					}
					return name
				}
			}
			v = x.Tuple
		case *ssa.Call:
			if rs := helperResults(x, 0); len(rs) > 0 {
				name := ""
				for _, r := range rs {
					if isNilConst(r) {
						continue
					}
					n := mapFieldOf(r)
					if name != "" && n != name {
						return ""
					}
					name = n
				}
				return name
			}
			return ""
		case *ssa.UnOp:
			// a result cell (results are spilled into cells when the function has a defer): what was stored into it
			a, ok := x.X.(*ssa.Alloc)
			if !ok || x.Op != token.MUL {
				return ""
			}
			name, any := "", false
			for _, ref := range *a.Referrers() {
				if st, ok := ref.(*ssa.Store); ok && st.Addr == ssa.Value(a) {
					if isNilConst(st.Val) {
						continue
					}
					n := mapFieldOf(st.Val)
					if any && n != name {
						return ""
					}
					name, any = n, true
				}
			}
			return name
		case *ssa.Lookup:
			_, n, ok := fieldLoad(x.X)
			if ok {
				return n
			}
			return ""
		case *ssa.Next:
			if rg, ok := x.Iter.(*ssa.Range); ok {
				_, n, ok := fieldLoad(rg.X)
				if ok {
					return n
				}
			}
			return ""
		default:
			return ""
		}
	}
	return ""
}

// C05.R1 — store first, memory after, in every mutator of the IPAM implementation.
func ruleStoreFirst(c *Ctx, rule string) {
	la := c.locks()
	for _, fn := range ipamMethods(c) {
		stores := calls(fn, storeWriters...)
		if len(stores) == 0 {
			continue
		}
		if bareName(fn) == "ConfigurePool" {
			c.exempt(rule, fn, "rebuild from the store", nil, "ConfigurePool rebuilds both tables from a List of the store; it is not an incremental mutator (ordering of its snapshot is C05.R3)")
			continue
		}
		ws := la.writeSites(fn, cacheLockID)
		if len(ws) == 0 {
			c.undecided(rule, fn, "memory mutation sites", nil, "mutator calls a store writer but no in-memory mutation was found: the rule no longer sees how memory is updated")
			continue
		}
		cutOK := newCut()
		tested := true
		for _, s := range stores {
			ts := errTests(s)
			if len(ts) == 0 {
				// direct return of the store error is fine only if nothing follows
				tested = false
				c.undecided(rule, fn, "error test of "+calleeName(s), s, "the error of a store call is not tested by an if the engine recognises")
				continue
			}
			for _, t := range ts {
				cutOK.edge(t.OkEdge)
			}
		}
		if !tested {
			continue
		}
		r := reachFromEntry(fn, cutOK)
		for _, m := range ws {
			ok := !r.has(m)
			d := "every path from entry to the mutation passes the err==nil edge of a store call (create/update/delete)"
			if !ok {
				// per-object form: a cache insert of objects collected in a slice whose every append follows the
				// successful create of the appended object (the insert loop is statically reachable with zero creates)
				if ci, isCall := m.(ssa.CallInstruction); isCall && nameMatch(calleeName(ci), "(*crdIpam).syncCacheAfterCreate") {
					if ok2, n := sliceOfCreated(fn, callArgs(ci)[0]); ok2 {
						ok = true
						d = fmt.Sprintf("per-object form: the inserted objects come from a slice with %d append(s), each reachable only through the err==nil edge of the createFloatingIP of the appended object", n)
					}
				}
			}
			c.ob(rule, fn, "memory mutation only after a successful store call: "+describeInstr(m), m, ok, d)
		}
		for _, s := range stores {
			bad, dec := onErrorNever(s, ws)
			if !dec {
				continue
			}
			d := "no in-memory mutation is reachable from the err!=nil edge"
			if bad != nil {
				d = "in-memory mutation at " + c.instrPos(bad) + " reachable after the store call failed"
			}
			c.ob(rule, fn, "failed "+shortCallee(s)+" leaves memory untouched", s, bad == nil, d)
		}
	}
}

func shortCallee(ci ssa.CallInstruction) string {
	n := calleeName(ci)
	if i := strings.LastIndex(n, "."); i >= 0 {
		return n[i+1:]
	}
	return n
}

func describeInstr(in ssa.Instruction) string {
	switch x := in.(type) {
	case ssa.CallInstruction:
		return "call " + shortCallee(x)
	case *ssa.Store:
		_, p := fieldPath(x.Addr)
		return "store ." + strings.Join(p, ".")
	case *ssa.MapUpdate:
		return "map update"
	}
	return strings.TrimSpace(fmt.Sprintf("%T", in))
}

// C01.R2 — an IP enters the allocated table only after the Create of that very object succeeded.
func ruleCreateBeforeCache(c *Ctx, rule string) {
	for _, fn := range ipamMethods(c) {
		ms := calls(fn, "(*crdIpam).syncCacheAfterCreate")
		if len(ms) == 0 {
			continue
		}
		creates := calls(fn, "(*crdIpam).createFloatingIP")
		if len(creates) == 0 {
			onlyFromAssign := len(staticSites[fn]) > 0
			for _, cs := range staticSites[fn] {
				top := cs.Parent()
				for top.Parent() != nil {
					top = top.Parent()
				}
				if bareName(top) != "handleFIPAssign" {
					onlyFromAssign = false
				}
			}
			if bareName(fn) == "handleFIPAssign" || onlyFromAssign {
				c.exempt(rule, fn, "watch-driven reservation", nil, "handleFIPAssign mirrors an object that already exists in the store (add event); guarded by C09.R3")
			} else {
				c.ob(rule, fn, "syncCacheAfterCreate without createFloatingIP", ms[0], false, "memory is marked allocated in a function that never creates the store object")
			}
			continue
		}
		for _, m := range ms {
			arg := callArgs(m)[0]
			decided := false
			for _, s := range creates {
				if callArgs(s)[0] == arg {
					ok, dec := onlyAfterSuccess(fn, s, m)
					if dec {
						decided = true
						c.ob(rule, fn, "cache insert of the created object", m, ok, "the object passed to syncCacheAfterCreate is the SSA value passed to createFloatingIP and the insert is reachable only through that call's err==nil edge")
					}
				}
			}
			if decided {
				continue
			}
			okS, n := sliceOfCreated(fn, arg)
			if n == 0 {
				c.undecided(rule, fn, "cache insert of the created object", m, "the inserted object is neither the created value nor read from an appended slice")
				continue
			}
			c.ob(rule, fn, "cache insert of created objects (slice form)", m, okS,
				fmt.Sprintf("%d append(s) of *FloatingIP: each appended value is the value given to createFloatingIP and the append is reachable only through that call's err==nil edge", n))
		}
	}
}

// sliceOfCreated: arg is read from a slice built by appends; every *FloatingIP appended anywhere in fn is the value
// given to a createFloatingIP and the append is reachable only through that call's success edge.
func sliceOfCreated(fn *ssa.Function, arg ssa.Value) (bool, int) {
	isAppend := func(v ssa.Value) bool {
		call, ok := v.(*ssa.Call)
		if !ok {
			return false
		}
		b, ok := call.Call.Value.(*ssa.Builtin)
		return ok && b.Name() == "append"
	}
	// a list grown by append, or a pre-sized one filled by index
	isMake := func(v ssa.Value) bool { _, ok := v.(*ssa.MakeSlice); return ok }
	presized := false
	if !dependsOn(arg, isAppend) {
		if !dependsOn(arg, isMake) {
			return false, 0
		}
		presized = true
	}
	creates := calls(fn, "(*crdIpam).createFloatingIP")
	n := 0
	allOK := true
	allInstrs(fn, func(in ssa.Instruction) {
		st, ok := in.(*ssa.Store)
		if !ok {
			return
		}
		if typeNameOf(st.Val.Type()) != "FloatingIP" {
			return
		}
		ia, ok := st.Addr.(*ssa.IndexAddr)
		if !ok {
			return
		}
		if _, ok := ia.X.(*ssa.Alloc); !ok && !(presized && dependsOn(ia.X, isMake)) {
			return
		}
		n++
		found := false
		for _, s := range creates {
			if callArgs(s)[0] == st.Val {
				if ok, dec := onlyAfterSuccess(fn, s, st); ok && dec {
					found = true
				}
			}
		}
		if !found {
			allOK = false
		}
	})
	return allOK && n > 0, n
}

// C01.R3 — errors of the store client are returned by the store wrappers.
func ruleStoreErrorsPropagate(c *Ctx, rule string) {
	for _, name := range []string{"(*crdIpam).createFloatingIP", "(*crdIpam).updateFloatingIP", "(*crdIpam).deleteFloatingIP", "(*crdIpam).listFloatingIPs"} {
		fn := c.MustFn(rule, fipPkg, name)
		if fn == nil {
			continue
		}
		cs := calls(fn, "FloatingIPInterface).Create", "FloatingIPInterface).Update", "FloatingIPInterface).Delete",
			"FloatingIPInterface).Get", "FloatingIPInterface).List")
		if len(cs) == 0 {
			c.undecided(rule, fn, "store client call", nil, "no call of the generated FloatingIPInterface found")
		}
		for _, s := range cs {
			ok, dec, why := onErrorReturnsErr(fn, s)
			if !dec {
				c.undecided(rule, fn, "error of "+shortCallee(s), s, why)
				continue
			}
			c.ob(rule, fn, "error of "+shortCallee(s)+" is returned", s, ok, "every return reachable from the err!=nil edge carries a non-nil error (or the call is returned directly) "+why)
		}
	}
}

// C05.R2 / C08.R1-3 — multi-IP allocation: rollback, memory after all creates, nothing created before "not enough".
func ruleMultiIPAllOrNothing(c *Ctx, rule string) {
	fn := c.MustFn(rule, fipPkg, "(*crdIpam).AllocateInSubnetsAndIPRange")
	if fn == nil {
		return
	}
	creates := calls(fn, "(*crdIpam).createFloatingIP")
	dels := calls(fn, "(*crdIpam).deleteFloatingIP")
	syncs := calls(fn, "(*crdIpam).syncCacheAfterCreate")
	if len(creates) == 0 || len(syncs) == 0 {
		c.undecided(rule, fn, "create / cache insert", nil, "createFloatingIP or syncCacheAfterCreate call not found")
		return
	}
	ei := errResultIndex(fn)
	for _, s := range creates {
		ts := errTests(s)
		if len(ts) == 0 {
			c.undecided(rule, fn, "rollback", s, "error of createFloatingIP is not tested")
			continue
		}
		for _, t := range ts {
			r := reachFromEdge(t.ErrEdge, nil)
			hasDel := r.anyCall(dels) != nil
			// the rollback must be a loop: the delete call can reach itself
			loop := false
			for _, d := range dels {
				if r.has(d) && c.reachAfter(d, nil).has(d) {
					loop = true
				}
			}
			retOK, nret := true, 0
			for _, ret := range returns(fn) {
				if r.has(ret) {
					nret++
					if !nonNilErrOperand(retVal(ret, ei), errValues(s)) {
						retOK = false
					}
				}
			}
			c.ob(rule, fn, "rollback of created objects on failed create", s, hasDel && loop && retOK && nret > 0,
				fmt.Sprintf("from the err!=nil edge a loop calling deleteFloatingIP is reachable (del=%v loop=%v) and all %d reachable returns carry a non-nil error (%v)", hasDel, loop, nret, retOK))
			// the rollback deletes names from the same slice the creates iterate over
		}
	}
	for _, m := range syncs {
		r := c.reachAfter(m, nil)
		bad := r.anyCall(creates)
		c.ob(rule, fn, "memory only after all creates", m, bad == nil, "no createFloatingIP is reachable after a syncCacheAfterCreate (cache insertion happens after the create loop)")
	}
	// ErrNoEnoughIP returns: unreachable after any create
	n := 0
	rets := returns(fn)
	for _, h := range helperFns(fn, 2) {
		// the pick phase may have been extracted: its ErrNoEnoughIP return counts (reachability from a create follows the call)
		if hi := errResultIndex(h); hi >= 0 && hi == h.Signature.Results().Len()-1 {
			for _, r := range returns(h) {
				if ld, ok := retVal(r, hi).(*ssa.UnOp); ok && ld.Op == token.MUL {
					if g, ok := ld.X.(*ssa.Global); ok && g.Name() == "ErrNoEnoughIP" {
						rets = append(rets, r)
					}
				}
			}
		}
	}
	for _, ret := range rets {
		rei := ei
		if ret.Parent() != fn {
			rei = errResultIndex(ret.Parent())
		}
		if ld, ok := retVal(ret, rei).(*ssa.UnOp); ok && ld.Op == token.MUL {
			if g, ok := ld.X.(*ssa.Global); ok && g.Name() == "ErrNoEnoughIP" {
				n++
				reachable := false
				for _, s := range creates {
					if c.reachAfter(s, nil).has(ret) {
						reachable = true
					}
				}
				c.ob(rule, fn, "nothing created before 'not enough ips'", ret, !reachable, "the ErrNoEnoughIP return is not reachable after any createFloatingIP")
			}
		}
	}
	if n == 0 {
		c.undecided(rule, fn, "ErrNoEnoughIP return", nil, "no return of the ErrNoEnoughIP variable found in this function")
	}
}

// C08.R4 / C06.R1b — candidate selection in the multi-IP allocator.
func ruleCandidateGuards(c *Ctx, rule string) {
	fn := c.MustFn(rule, fipPkg, "(*crdIpam).AllocateInSubnetsAndIPRange")
	if fn == nil {
		return
	}
	var cb *ssa.Function
	anons := append([]*ssa.Function{}, fn.AnonFuncs...)
	for _, h := range helperFns(fn, 2) {
		anons = append(anons, h.AnonFuncs...) // the pick phase may live in an extracted helper
	}
	for _, a := range anons {
		has := false
		allInstrs(a, func(in ssa.Instruction) {
			if lk, ok := in.(*ssa.Lookup); ok {
				if _, n, ok := fieldLoad(lk.X); ok && n == "unallocatedFIPs" {
					has = true
				}
			}
		})
		if has {
			cb = a
		}
	}
	if cb == nil {
		c.undecided(rule, fn, "candidate callback", nil, "no closure looking up unallocatedFIPs found")
		return
	}
	var picks []*ssa.Return
	for _, r := range returns(cb) {
		if b, ok := constBoolVal(retVal(r, 0)); ok && b {
			picks = append(picks, r)
		}
	}
	if len(picks) == 0 {
		c.undecided(rule, cb, "return true", nil, "callback has no 'return true' (pick this ip)")
		return
	}
	inUnalloc := guardEdges(cb, func(v ssa.Value) (bool, int) {
		ex, ok := v.(*ssa.Extract)
		if !ok || ex.Index != 1 {
			return false, 0
		}
		return mapFieldOf(ex) == "unallocatedFIPs", 0
	})
	routable := guardEdges(cb, predCall("sets.String).Has", func(call *ssa.Call) bool {
		return pathEndsWith(call.Call.Args[0], "pool", "nodeSubnets")
	}))
	notChosen := guardEdges(cb, negate(predCall("sets.String).Has", func(call *ssa.Call) bool {
		return !pathEndsWith(call.Call.Args[0], "nodeSubnets")
	})))
	for _, p := range picks {
		c.ob(rule, cb, "picked ip is in the unallocated table", p, guardedBy(cb, p, inUnalloc), "return true only through the ok edge of the unallocatedFIPs lookup")
		c.ob(rule, cb, "picked ip is routable from the node subnet", p, guardedBy(cb, p, routable), "return true only through the true edge of pool.nodeSubnets.Has(..)")
		c.ob(rule, cb, "picked ip not already chosen for an earlier range", p, guardedBy(cb, p, notChosen), "return true only through the false edge of <chosen set>.Has(ip)")
	}
}

// C05.R3 — the rebuild reads the store inside the critical section.
func ruleListUnderLock(c *Ctx, rule string) {
	la := c.locks()
	fn := c.MustFn(rule, fipPkg, "(*crdIpam).ConfigurePool")
	if fn == nil {
		return
	}
	cs := calls(fn, "(*crdIpam).listFloatingIPs", "FloatingIPInterface).List")
	if len(cs) == 0 {
		c.undecided(rule, fn, "store List", nil, "ConfigurePool no longer lists the store through listFloatingIPs / FloatingIPInterface.List")
		return
	}
	for _, s := range cs {
		st := la.info[fn].before[s]
		ok := st != nil && !st.top && st.held[cacheLockID] == modeW
		held := "{}"
		if st != nil {
			held = st.String()
		}
		c.ob(rule, fn, "store List outside the cacheLock critical section", s, ok, "the snapshot the tables are rebuilt from must be taken with cacheLock held in W; held "+held)
	}
}

// C05.R4 — persisted fields = restored fields.
func rulePersistRestoreAgree(c *Ctx, rule string) {
	assign := c.MustFn(rule, fipPkg, "assign")
	cfg := c.MustFn(rule, fipPkg, "(*crdIpam).ConfigurePool")
	um := c.Fn(fipPkg, "(*FloatingIP).unmarshalAttr")
	if um == nil {
		if v := c.Fn(fipPkg, "(FloatingIP).unmarshalAttr"); v != nil {
			// restored into a copy: the uid / node read back from the store never reach the table entry
			c.ob(rule, v, "the persisted attributes are restored into the entry itself", nil, false, "unmarshalAttr has a value receiver: its assignments to NodeName / PodUid land on a copy of the FloatingIP, so after every reload the uid guard of bind and the node used for unassign are empty")
			um = v
		} else {
			um = c.MustFn(rule, fipPkg, "(*FloatingIP).unmarshalAttr")
		}
	} else {
		c.ob(rule, um, "the persisted attributes are restored into the entry itself", nil, true, "unmarshalAttr has a pointer receiver")
	}
	if assign == nil || cfg == nil || um == nil {
		return
	}
	written := map[string]bool{}
	allInstrs(assign, func(in ssa.Instruction) {
		if st, ok := in.(*ssa.Store); ok {
			_, p := fieldPath(st.Addr)
			if len(p) == 2 && p[0] == "Spec" {
				written[p[1]] = true
			}
		}
	})
	read := map[string]bool{}
	for _, f := range withAnon(cfg) {
		allInstrs(f, func(in ssa.Instruction) {
			if ld, ok := in.(*ssa.UnOp); ok && ld.Op == token.MUL {
				_, p := fieldPath(ld)
				for i := 0; i+1 < len(p); i++ {
					if p[i] == "Spec" && typeNameOf(ld.X.Type()) != "" {
						read[p[i+1]] = true
					}
				}
				if len(p) >= 2 && p[len(p)-2] == "Spec" {
					read[p[len(p)-1]] = true
				}
			}
			if f, ok := in.(*ssa.Field); ok {
				_, p := fieldPath(f)
				if len(p) >= 2 && p[len(p)-2] == "Spec" {
					read[p[len(p)-1]] = true
				}
			}
		})
	}
	// each persisted field is written on every path to a successful return of assign
	{
		ei := errResultIndex(assign)
		okAll, nW := true, 0
		allInstrs(assign, func(in ssa.Instruction) {
			st, ok := in.(*ssa.Store)
			if !ok {
				return
			}
			_, p := fieldPath(st.Addr)
			if len(p) != 2 || p[0] != "Spec" {
				return
			}
			nW++
			for _, ret := range returns(assign) {
				if k, isC := retVal(ret, ei).(*ssa.Const); isC && k.IsNil() {
					if !precedes(assign, []ssa.Instruction{st}, ret) {
						okAll = false
					}
				}
			}
		})
		c.ob(rule, assign, "every persisted field is written on every successful path of assign", nil, okAll && nW >= 4, fmt.Sprintf("%d stores to Spec.*; each precedes every `return nil` (an update must overwrite a stale attribute even with empty values)", nW))
	}
	ws, rs := keys(written), keys(read)
	c.ob(rule, cfg, "FloatingIPSpec fields written by assign = fields read by ConfigurePool", nil, len(ws) > 0 && strings.Join(ws, ",") == strings.Join(rs, ","),
		"written {"+strings.Join(ws, ",")+"} restored {"+strings.Join(rs, ",")+"}")
	// Attr: fields marshalled in assign vs fields read in unmarshalAttr vs JSON-visible fields of Attr
	attrW := map[string]bool{}
	allInstrs(assign, func(in ssa.Instruction) {
		if st, ok := in.(*ssa.Store); ok {
			if fa, ok := st.Addr.(*ssa.FieldAddr); ok && typeNameOf(fa.X.Type()) == "Attr" {
				attrW[fieldName(fa.X.Type(), fa.Field)] = true
			}
		}
	})
	attrR := map[string]bool{}
	allInstrs(um, func(in ssa.Instruction) {
		if fa, ok := in.(*ssa.FieldAddr); ok && typeNameOf(fa.X.Type()) == "Attr" {
			attrR[fieldName(fa.X.Type(), fa.Field)] = true
		}
		if f, ok := in.(*ssa.Field); ok && typeNameOf(f.X.Type()) == "Attr" {
			attrR[fieldName(f.X.Type(), f.Field)] = true
		}
	})
	vis := map[string]bool{}
	if at := c.namedType(fipPkg, "Attr"); at != nil {
		st := at.Underlying().(*types.Struct)
		for i := 0; i < st.NumFields(); i++ {
			if !strings.HasPrefix(reflectTag(st.Tag(i), "json"), "-") {
				vis[st.Field(i).Name()] = true
			}
		}
	}
	a, b, v := keys(attrW), keys(attrR), keys(vis)
	c.ob(rule, um, "Attr fields marshalled by assign = fields restored by unmarshalAttr = JSON-visible fields", nil,
		len(a) > 0 && strings.Join(a, ",") == strings.Join(b, ",") && strings.Join(a, ",") == strings.Join(v, ","),
		"marshalled {"+strings.Join(a, ",")+"} restored {"+strings.Join(b, ",")+"} json-visible {"+strings.Join(v, ",")+"}")
}

func keys(m map[string]bool) []string {
	var out []string
	for k := range m {
		out = append(out, k)
	}
	sort.Strings(out)
	return out
}

// reflectTag extracts key from a struct tag.
func reflectTag(tag, key string) string {
	for tag != "" {
		i := 0
		for i < len(tag) && tag[i] == ' ' {
			i++
		}
		tag = tag[i:]
		if tag == "" {
			break
		}
		i = 0
		for i < len(tag) && tag[i] > ' ' && tag[i] != ':' && tag[i] != '"' {
			i++
		}
		if i == 0 || i+1 >= len(tag) || tag[i] != ':' || tag[i+1] != '"' {
			break
		}
		name := tag[:i]
		tag = tag[i+1:]
		i = 1
		for i < len(tag) && tag[i] != '"' {
			if tag[i] == '\\' {
				i++
			}
			i++
		}
		if i >= len(tag) {
			break
		}
		val := tag[1:i]
		tag = tag[i+1:]
		if name == key {
			return val
		}
	}
	return ""
}

// C05.R5 / C20.R3 — reload is all-or-nothing at the caller.
func ruleReloadAllOrNothing(c *Ctx, rule string) {
	fn := c.MustFn(rule, "pkg/ipam/schedulerplugin", "(*FloatingIPPlugin).ensureIPAMConf")
	if fn == nil {
		return
	}
	um := calls(fn, "encoding/json.Unmarshal")
	cp := calls(fn, "IPAM).ConfigurePool")
	if len(um) == 0 {
		// a streaming decoder reads the first JSON value and ignores what follows: accepted only with a check for trailing data
		if dec := calls(fn, "json.Decoder).Decode"); len(dec) > 0 {
			var more []ssa.CallInstruction
			for _, m := range calls(fn, "json.Decoder).More", "json.Decoder).Token", "json.Decoder).Buffered") {
				if c.reachAfter(dec[0], nil).has(m) {
					more = append(more, m)
				}
			}
			c.ob(rule, fn, "the whole value is one JSON document", dec[0], len(more) > 0 || len(dec) > 1, "json.Unmarshal rejects anything after the first value; (*Decoder).Decode does not, so it must be followed by a test for trailing data")
			um = dec[:1]
		}
	}
	if len(um) != 1 || len(cp) != 1 {
		c.undecided(rule, fn, "Unmarshal / ConfigurePool", nil, fmt.Sprintf("expected one json.Unmarshal and one ConfigurePool call, found %d and %d", len(um), len(cp)))
		return
	}
	ok, dec := onlyAfterSuccess(fn, um[0], cp[0])
	if !dec {
		c.undecided(rule, fn, "ConfigurePool only after a successful decode", cp[0], "error of json.Unmarshal not tested")
	} else {
		c.ob(rule, fn, "ConfigurePool only after a successful decode", cp[0], ok, "ConfigurePool is reachable only through the err==nil edge of json.Unmarshal")
	}
	// store to *lastConf
	var stores []ssa.Instruction
	allInstrs(fn, func(in ssa.Instruction) {
		if st, ok := in.(*ssa.Store); ok {
			if p, ok := st.Addr.(*ssa.Parameter); ok && pAt(fn, 1) != nil && p.Name() == pAt(fn, 1).Name() {
				stores = append(stores, st)
			}
			// the remembered configuration kept in a field of the plugin instead of behind a pointer parameter
			if fa, ok := st.Addr.(*ssa.FieldAddr); ok {
				if n := fieldName(fa.X.Type(), fa.Field); strings.HasPrefix(strings.ToLower(n), "last") && strings.HasSuffix(strings.ToLower(n), "conf") {
					stores = append(stores, st)
				}
			}
		}
	})
	if len(stores) == 0 {
		c.undecided(rule, fn, "*lastConf = newConf", nil, "no store through the lastConf pointer parameter found")
	}
	for _, st := range stores {
		ok, dec := onlyAfterSuccess(fn, cp[0], st)
		if !dec {
			c.undecided(rule, fn, "remember the configuration only after ConfigurePool succeeded", st, "error of ConfigurePool not tested")
			continue
		}
		c.ob(rule, fn, "remember the configuration only after ConfigurePool succeeded", st, ok, "the store through lastConf is reachable only through the err==nil edge of ConfigurePool")
	}
}

// C09.R1 — only IPs read from the unallocated table are created.
func ruleOnlyUnallocatedCreated(c *Ctx, rule string) {
	for _, fn := range ipamMethods(c) {
		for _, s := range calls(fn, "(*crdIpam).createFloatingIP") {
			arg := callArgs(s)[0]
			nw, _ := callOf(arg)
			if nw == nil || !nameMatch(calleeName(nw), fipPkg+".New") {
				c.ob(rule, fn, "created object built by New from an unallocated entry", s, false, "the object given to createFloatingIP is not the result of floatingip.New")
				continue
			}
			poolArg := nw.Call.Args[0]
			base, name, ok := fieldLoad(poolArg)
			src := ""
			if ok && name == "pool" {
				src = mapFieldOf(base)
			}
			c.ob(rule, fn, "created object built by New from an unallocated entry", s, src == "unallocatedFIPs",
				"New(pool=<v>.pool, ..) where <v> was read from the table '"+src+"' (must be unallocatedFIPs; reserved objects live in allocatedFIPs, de-configured addresses in neither)")
			// the IP argument must come from the same entry or be the looked-up key
			ipArg := nw.Call.Args[1]
			b2, n2, ok2 := fieldLoad(ipArg)
			if ok2 && n2 == "IP" {
				c.ob(rule, fn, "created object's IP is the unallocated entry's IP", s, b2 == base, "New(.., ip=<v>.IP, ..) with the same <v>")
			}
		}
	}
}

// C09.R3 — reservation handlers only move what they found.
func ruleReservationHandlers(c *Ctx, rule string) {
	as := c.MustFn(rule, fipPkg, "(*crdIpam).handleFIPAssign")
	un := c.MustFn(rule, fipPkg, "(*crdIpam).handleFIPUnassign")
	lookupOK := func(field string) condPred {
		return func(v ssa.Value) (bool, int) {
			ex, ok := v.(*ssa.Extract)
			if !ok || ex.Index != 1 {
				return false, 0
			}
			return mapFieldOf(ex) == field, 0
		}
	}
	if as != nil {
		ms := calls(as, "(*crdIpam).syncCacheAfterCreate")
		if len(ms) == 0 {
			c.undecided(rule, as, "move to allocated", nil, "syncCacheAfterCreate call not found")
		}
		for _, m := range ms {
			host := m.Parent() // the handler itself, or the helper that holds its locked part
			c.ob(rule, as, "reserve only an ip that is not allocated", m, guardedBy(host, m, guardEdges(host, negate(lookupOK("allocatedFIPs")))), "move reachable only through the not-found edge of the allocatedFIPs lookup")
			c.ob(rule, as, "reserve only an ip found in the unallocated table", m, guardedBy(host, m, guardEdges(host, lookupOK("unallocatedFIPs"))), "move reachable only through the found edge of the unallocatedFIPs lookup")
			c.ob(rule, as, "moved object is the looked-up entry", m, mapFieldOf(callArgs(m)[0]) == "unallocatedFIPs", "argument of syncCacheAfterCreate is the value read from unallocatedFIPs")
		}
	}
	if un != nil {
		ms := calls(un, "(*crdIpam).syncCacheAfterDel")
		if len(ms) == 0 {
			c.undecided(rule, un, "move to unallocated", nil, "syncCacheAfterDel call not found")
		}
		for _, m := range ms {
			host := m.Parent()
			c.ob(rule, un, "unreserve only an ip found in the allocated table", m, guardedBy(host, m, guardEdges(host, lookupOK("allocatedFIPs"))), "move reachable only through the found edge of the allocatedFIPs lookup")
			c.ob(rule, un, "moved object is the looked-up entry", m, mapFieldOf(callArgs(m)[0]) == "allocatedFIPs", "argument of syncCacheAfterDel is the value read from allocatedFIPs")
		}
	}
	// both handlers act only on objects carrying the reserved label
	for _, h := range []*ssa.Function{as, un} {
		if h == nil {
			continue
		}
		cs := calls(h, fipPkg+".checkForReserved")
		c.ob(rule, h, "handler filters on the reserved label first", nil, len(cs) == 1 && precedesAllWrites(c, h, cs[0]), "checkForReserved precedes every table mutation")
	}
}

func precedesAllWrites(c *Ctx, fn *ssa.Function, first ssa.CallInstruction) bool {
	la := c.locks()
	for _, w := range la.writeSites(fn, cacheLockID) {
		if !precedes(fn, []ssa.Instruction{first}, w) {
			return false
		}
	}
	return true
}

// C09.R4 — reload deletes only objects outside every configured pool.
func ruleReloadDeletesOnlyForeign(c *Ctx, rule string) {
	fn := c.MustFn(rule, fipPkg, "(*crdIpam).ConfigurePool")
	if fn == nil {
		return
	}
	dels := calls(fn, "(*crdIpam).deleteFloatingIP")
	if len(dels) == 0 {
		c.undecided(rule, fn, "deleteFloatingIP", nil, "call not found")
		return
	}
	// appends of string names: stores of a `.Name` load into an append operand array
	var appends []*ssa.Store
	allInstrs(fn, func(in ssa.Instruction) {
		st, ok := in.(*ssa.Store)
		if !ok {
			return
		}
		ia, ok := st.Addr.(*ssa.IndexAddr)
		if !ok {
			return
		}
		if _, ok := ia.X.(*ssa.Alloc); !ok {
			return
		}
		if pathEndsWith(st.Val, "Name") {
			appends = append(appends, st)
		}
	})
	if len(appends) == 0 {
		c.undecided(rule, fn, "append to the deletion list", nil, "no append of an object name found")
		return
	}
	// "found" flag: a bool phi with a true constant edge coming from a block that inserts into the rebuilt table,
	// itself guarded by FloatingIPPool.Contains
	var flags []*ssa.Phi
	allInstrs(fn, func(in ssa.Instruction) {
		ph, ok := in.(*ssa.Phi)
		if !ok || !types.Identical(ph.Type(), types.Typ[types.Bool]) {
			return
		}
		for i, e := range ph.Edges {
			if b, ok := constBoolVal(e); ok && b {
				pred := ph.Block().Preds[i]
				hasInsert := false
				for _, x := range pred.Instrs {
					if _, ok := x.(*ssa.MapUpdate); ok {
						hasInsert = true
					}
				}
				contains := guardEdges(fn, predCall("(*FloatingIPPool).Contains", nil))
				if hasInsert && len(pred.Instrs) > 0 && guardedBy(fn, pred.Instrs[0], contains) {
					flags = append(flags, ph)
				}
			}
		}
	})
	if len(flags) == 0 {
		// flag-less form (e.g. `continue outer` after the insert): decided on the CFG alone
		contains := guardEdges(fn, predCall("(*FloatingIPPool).Contains", nil))
		var inserts []ssa.Instruction
		allInstrs(fn, func(in ssa.Instruction) {
			if mu, ok := in.(*ssa.MapUpdate); ok && typeNameOf(mu.Value.Type()) == "FloatingIP" && guardedBy(fn, mu, contains) {
				if loopHeaderOf(mu) != nil {
					inserts = append(inserts, mu)
				}
			}
		})
		if len(inserts) == 0 {
			// finder-helper form: pool := findPool(pools, ip); if pool == nil { queue for deletion; continue }; insert
			if finderForm(c, rule, fn, appends) {
				for _, d := range dels {
					arg := callArgs(d)[0]
					fromList := dependsOn(arg, func(v ssa.Value) bool {
						call, ok := v.(*ssa.Call)
						if !ok {
							return false
						}
						b, ok := call.Call.Value.(*ssa.Builtin)
						return ok && b.Name() == "append"
					})
					c.ob(rule, fn, "deleteFloatingIP receives names from the deletion list only", d, fromList, "argument flows from the appended slice")
				}
				return
			}
			c.undecided(rule, fn, "'found in a configured pool' decision", nil, "neither a boolean flag set together with the insertion into the rebuilt table, nor an insertion inside the search loop under a Contains guard, nor a finder helper whose nil result guards the deletion")
			return
		}
		hin := loopHeaderOf(inserts[0])
		var hout *ssa.BasicBlock
		for _, h := range fn.Blocks {
			if h != hin && h.Dominates(hin) {
				for _, pp := range h.Preds {
					if h.Dominates(pp) && blockReaches(hin, pp) {
						if hout == nil || hout.Dominates(h) {
							hout = h
						}
					}
				}
			}
		}
		var exitEdges []edge
		if iff, ok := hin.Instrs[len(hin.Instrs)-1].(*ssa.If); ok {
			loop := naturalLoop(hin)
			for i, sct := range iff.Block().Succs {
				if !loop[sct] {
					exitEdges = append(exitEdges, edge{hin, i})
				}
			}
		}
		for _, a := range appends {
			okEx := len(exitEdges) > 0 && !reachFromEntry(fn, newCut().edge(exitEdges...)).has(a)
			c.ob(rule, fn, "an object is classified 'in no configured pool' only after every pool was tried", a, okEx, "the append to the deletion list is reachable only through the exhaustion edge of the search loop")
			okIns := hout != nil
			for _, ins := range inserts {
				if hout != nil && c.reachAfter(ins, newCut().instr(hout.Instrs[0])).has(a) {
					okIns = false
				}
			}
			c.ob(rule, fn, "object queued for deletion only if no configured pool contains it", a, okIns, "within one iteration over the stored objects the append is unreachable after the insertion into the rebuilt table")
		}
		for _, d := range dels {
			arg := callArgs(d)[0]
			fromList := dependsOn(arg, func(v ssa.Value) bool {
				call, ok := v.(*ssa.Call)
				if !ok {
					return false
				}
				b, ok := call.Call.Value.(*ssa.Builtin)
				return ok && b.Name() == "append"
			})
			c.ob(rule, fn, "deleteFloatingIP receives names from the deletion list only", d, fromList, "argument flows from the appended slice")
		}
		return
	}
	// the search over the configured pools gives up only on exhaustion: the flag can be false at the loop exit only
	// on the edge from the loop header (all pools tried), never on an edge from a break inside the loop body
	for _, f := range flags {
		okX := true
		var mayBeFalse func(v ssa.Value, depth int) bool
		mayBeFalse = func(v ssa.Value, depth int) bool {
			if b, isC := constBoolVal(v); isC {
				return !b
			}
			if ph, isPhi := v.(*ssa.Phi); isPhi && depth < 5 {
				for _, e := range ph.Edges {
					if mayBeFalse(e, depth+1) {
						return true
					}
				}
				return false
			}
			return true
		}
		for i, e := range f.Edges {
			if !mayBeFalse(e, 0) {
				continue
			}
			pred := f.Block().Preds[i]
			// the predecessor must be a loop header: it ends in an If and one of its predecessors is dominated by it
			isHdr := false
			if _, isIf := pred.Instrs[len(pred.Instrs)-1].(*ssa.If); isIf {
				for _, pp := range pred.Preds {
					if pred.Dominates(pp) {
						isHdr = true
					}
				}
			}
			if !isHdr {
				okX = false
			}
		}
		c.ob(rule, fn, "an object is classified 'in no configured pool' only after every pool was tried", f, okX,
			"at the exit of the search loop the 'found' flag can be false only on the edge from the loop header (exhaustion), not on an edge from a break: two pools may share one subnet")
	}
	notFound := guardEdges(fn, func(v ssa.Value) (bool, int) {
		for _, f := range flags {
			if v == ssa.Value(f) {
				return true, 1
			}
		}
		return false, 0
	})
	for _, a := range appends {
		c.ob(rule, fn, "object queued for deletion only if no configured pool contains it", a, guardedBy(fn, a, notFound),
			"the append of the object's name is reachable only through the false edge of the 'found' flag, which is set exactly where the ip is inserted into the rebuilt table under pool.Contains(ip)")
	}
	for _, d := range dels {
		arg := callArgs(d)[0]
		fromList := dependsOn(arg, func(v ssa.Value) bool {
			call, ok := v.(*ssa.Call)
			if !ok {
				return false
			}
			b, ok := call.Call.Value.(*ssa.Builtin)
			return ok && b.Name() == "append"
		})
		c.ob(rule, fn, "deleteFloatingIP receives names from the deletion list only", d, fromList, "argument flows from the appended slice")
	}
}

// C06.R1a — single-IP allocation only from pools that list the node subnet.
func ruleAllocateRoutable(c *Ctx, rule string) {
	fn := c.MustFn(rule, fipPkg, "(*crdIpam).AllocateInSubnet")
	if fn == nil {
		return
	}
	has := guardEdges(fn, predCall("sets.String).Has", func(call *ssa.Call) bool {
		return pathEndsWith(call.Call.Args[0], "pool", "nodeSubnets")
	}))
	cs := calls(fn, "(*crdIpam).createFloatingIP")
	if len(cs) == 0 {
		c.undecided(rule, fn, "createFloatingIP", nil, "call not found")
	}
	for _, s := range cs {
		c.ob(rule, fn, "create only for a pool that lists the node subnet", s, guardedBy(fn, s, has), "createFloatingIP reachable only through the true edge of <entry>.pool.nodeSubnets.Has(nodeSubnet)")
		// the Has argument is the node subnet parameter's String()
		okArg := false
		for _, e := range has {
			iff := e.from.Instrs[len(e.from.Instrs)-1].(*ssa.If)
			call := iff.Cond.(*ssa.Call)
			if dependsOn(call.Call.Args[1], func(v ssa.Value) bool { return sameParam(v, pAt(fn, 2)) }) {
				okArg = true
			}
		}
		c.ob(rule, fn, "the subnet tested is the caller's node subnet", s, okArg, "argument of Has derives from the nodeSubnet parameter")
	}
}

// C02.R4 / C06.R1c — re-key picks only an IP of the old key in a routable pool.
func ruleRekeyGuards(c *Ctx, rule string) {
	fn := c.MustFn(rule, fipPkg, "(*crdIpam).AllocateInSubnetWithKey")
	if fn == nil {
		return
	}
	n := 0
	// the search for the candidate may live in a helper (latest entry of the key in the subnet): judge it where it is
	for _, host := range append([]*ssa.Function{fn}, helperFns(fn, 1)...) {
		keyEq := guardEdges(host, predEq(func(v ssa.Value) bool { return isFieldLoadNamed(v, "Key") },
			func(v ssa.Value) bool { return sameParam(throughParams(v), pAt(fn, 1)) }))
		routable := guardEdges(host, predCall("sets.String).Has", func(call *ssa.Call) bool {
			return pathEndsWith(call.Call.Args[0], "pool", "nodeSubnets") &&
				dependsOn(call.Call.Args[1], func(v ssa.Value) bool { return sameParam(v, pAt(fn, 3)) })
		}))
		allInstrs(host, func(in ssa.Instruction) {
			ph, ok := in.(*ssa.Phi)
			if !ok || typeNameOf(ph.Type()) != "FloatingIP" {
				return
			}
			for i, e := range ph.Edges {
				if mapFieldOf(e) == "" {
					continue // nil, or another phi
				}
				n++
				pred := ph.Block().Preds[i]
				at := pred.Instrs[0]
				c.ob(rule, fn, "candidate has the old key", at, mapFieldOf(e) == "allocatedFIPs" && guardedBy(host, at, keyEq), "the assignment of the candidate is reachable only through the true edge of v.Key == oldK (v read from allocatedFIPs)")
				c.ob(rule, fn, "candidate is routable from the subnet", at, guardedBy(host, at, routable), "the assignment of the candidate is reachable only through the true edge of v.pool.nodeSubnets.Has(subnet)")
			}
		})
	}
	if n == 0 {
		c.undecided(rule, fn, "candidate selection", nil, "no assignment of a table entry to the candidate variable found")
	}
	// the object updated in the store and in memory is that candidate
	ups := calls(fn, "(*crdIpam).updateFloatingIP")
	for _, u := range ups {
		arg := callArgs(u)[0]
		cw, _ := callOf(arg)
		ok := cw != nil && nameMatch(calleeName(cw), "(*FloatingIP).CloneWith") &&
			dependsOn(cw.Call.Args[0], func(v ssa.Value) bool { return mapFieldOf(v) == "allocatedFIPs" })
		c.ob(rule, fn, "store update is a clone of the candidate with the new key", u, ok && sameParam(cw.Call.Args[1], pAt(fn, 2)), "updateFloatingIP(candidate.CloneWith(newK, ..))")
	}
}

// C04.R4 — release / attribute update match on (ip, key).
func ruleKeyMatchBeforeStoreWrite(c *Ctx, rule string) {
	type inst struct {
		fn, writer string
	}
	for _, it := range []inst{{"(*crdIpam).Release", "(*crdIpam).deleteFloatingIP"}, {"(*crdIpam).ReleaseIPs", "(*crdIpam).deleteFloatingIP"},
		{"(*crdIpam).UpdateAttr", "(*crdIpam).updateFloatingIP"}} {
		fn := c.MustFn(rule, fipPkg, it.fn)
		if fn == nil {
			continue
		}
		keyEq := guardEdgesX(fn, predEq(func(v ssa.Value) bool {
			b, n, ok := fieldLoad(v)
			return ok && n == "Key" && mapFieldOf(b) == "allocatedFIPs"
		}, func(v ssa.Value) bool {
			_, isConst := v.(*ssa.Const)
			return !isConst
		}))
		ws := calls(fn, it.writer)
		if len(ws) == 0 {
			c.undecided(rule, fn, it.writer, nil, "store writer call not found")
		}
		for _, w := range ws {
			c.ob(rule, fn, "store write only if the stored key equals the caller's key", w, guardedBy(fn, w, keyEq), "reachable only through the equal edge of <allocated entry>.Key == key")
		}
	}
}

// C06.R2 — ipinfo comes from the IP's own pool.
func ruleIPInfoFromPool(c *Ctx, rule string) {
	fn := c.MustFn(rule, fipPkg, "(*crdIpam).toFloatingIPInfo")
	if fn == nil {
		return
	}
	want := map[string]bool{"Mask": false, "Vlan": false, "Gateway": false, "IP": false}
	allInstrs(fn, func(in ssa.Instruction) {
		st, ok := in.(*ssa.Store)
		if !ok {
			return
		}
		fa, ok := st.Addr.(*ssa.FieldAddr)
		if !ok {
			return
		}
		f := fieldName(fa.X.Type(), fa.Field)
		if _, w := want[f]; !w {
			return
		}
		root, p := fieldPath(st.Val)
		isParam := sameParam(root, pAt(fn, 1))
		switch f {
		case "IP":
			if _, isAddr := st.Val.Type().Underlying().(*types.Pointer); isAddr {
				return // IPInfo.IP = &ip (pointer to the net built below)
			}
			c.ob(rule, fn, "address is the FloatingIP's IP", st, isParam && len(p) == 1 && p[0] == "IP", "IPNet.IP = fip.IP")
			want[f] = true
		default:
			ok := isParam && len(p) >= 2 && p[0] == "pool" && p[len(p)-1] == f
			c.ob(rule, fn, f+" is the one configured for the IP's pool", st, ok, f+" = fip.pool."+f+" (path "+strings.Join(p, ".")+")")
			want[f] = true
		}
	})
	for f, seen := range want {
		if !seen {
			c.undecided(rule, fn, f, nil, "no store of field "+f+" found in toFloatingIPInfo")
		}
	}
}

// C06.R5 — on reload an allocation is attached to the pool whose subnet AND ranges contain the ip.
func ruleReloadPoolMatch(c *Ctx, rule string) {
	fn := c.MustFn(rule, fipPkg, "(*crdIpam).ConfigurePool")
	if fn == nil {
		return
	}
	rangeHas := guardEdges(fn, predCall("(*FloatingIPPool).Contains", nil))
	n := 0
	allInstrs(fn, func(in ssa.Instruction) {
		nw, ok := in.(*ssa.Call)
		if !ok || !nameMatch(calleeName(nw), fipPkg+".New") {
			return
		}
		// the New call that rebuilds an allocated entry: its key argument comes from the listed object's Spec
		if !pathEndsWith(nw.Call.Args[2], "Spec", "Key") {
			return
		}
		n++
		pool := nw.Call.Args[0]
		okP := false
		for _, e := range rangeHas {
			iff := e.from.Instrs[len(e.from.Instrs)-1].(*ssa.If)
			call := iff.Cond.(*ssa.Call)
			if call.Call.Args[0] == pool {
				okP = true
			}
		}
		rh := rangeHas
		if call, isCall := pool.(*ssa.Call); isCall && !okP {
			// finder-helper form: pool := findPool(..): every non-nil return of the helper is the receiver of a Contains test there
			if h := helperOf(call, nil); h != nil {
				hc := guardEdges(h, predCall("(*FloatingIPPool).Contains", nil))
				okP = len(hc) > 0
				for _, ret := range returns(h) {
					rv := retVal(ret, 0)
					if isNilConst(rv) {
						continue
					}
					same := false
					for _, e := range hc {
						cc := e.from.Instrs[len(e.from.Instrs)-1].(*ssa.If).Cond.(*ssa.Call)
						if cc.Call.Args[0] == rv || sameAccess(cc.Call.Args[0], rv) {
							same = true
						}
					}
					if !same {
						okP = false
					}
				}
				rh = append(append([]edge{}, rangeHas...), hc...)
			}
		}
		c.ob(rule, fn, "rebuilt allocation uses the pool whose ranges contain the ip", nw, okP && guardedBy(fn, nw, rh), "New(pool, ..) reachable only through pool.Contains(ip) (range membership) for that same pool")
	})
	if n == 0 {
		c.undecided(rule, fn, "rebuild of allocated entries", nil, "no New(.., ip.Spec.Key, ..) call found")
	}
}

// C05.R6 / C09.R6 — lookup, store write and memory update of a mutator form one critical section.
func ruleOneCriticalSection(c *Ctx, rule string) {
	la := c.locks()
	for _, fn := range ipamMethods(c) {
		stores := calls(fn, storeWriters...)
		if len(stores) == 0 || bareName(fn) == "ConfigurePool" {
			continue
		}
		for _, s := range stores {
			st := la.info[fn].before[s]
			ok := st != nil && !st.top && st.held[cacheLockID] == modeW
			h := "{}"
			if st != nil {
				h = st.String()
			}
			c.ob(rule, fn, shortCallee(s)+" inside the cacheLock critical section of its lookup", s, ok, "must-hold set at the store call: "+h)
		}
		// no explicit release inside the mutator: the lock is released only by the deferred unlock
		nRel := 0
		allInstrs(fn, func(in ssa.Instruction) {
			if call, ok := in.(*ssa.Call); ok {
				if op, ok := classifyLockCall(call); ok && op.kind == "rel" && op.lock == cacheLockID {
					nRel++
				}
			}
		})
		c.ob(rule, fn, "cacheLock is released only at function exit", nil, nRel == 0, fmt.Sprintf("%d explicit Unlock/RUnlock of cacheLock inside the mutator (the table lookup, the store write and the memory update must not be separated)", nRel))
	}
}

// C10.R5 / C05.R10 — UpdateAttr persists on every successful return (node and uid recorded for an ip are what the
// last successful bind said; a shortcut that skips the write leaves a stale node for the next unassign).
func ruleUpdateAttrAlwaysWrites(c *Ctx, rule string) {
	fn := c.MustFn(rule, fipPkg, "(*crdIpam).UpdateAttr")
	if fn == nil {
		return
	}
	up := calls(fn, "(*crdIpam).updateFloatingIP")
	ei := errResultIndex(fn)
	r := reachFromEntry(fn, newCut().callInstrs(up))
	ok, n := len(up) == 1, 0
	for _, ret := range returns(fn) {
		if k, isC := retVal(ret, ei).(*ssa.Const); isC && k.IsNil() {
			n++
			if r.has(ret) {
				ok = false
			}
		}
	}
	c.ob(rule, fn, "every successful UpdateAttr wrote the store", nil, ok && n > 0, "each `return nil` is preceded by updateFloatingIP on every path (no skip-if-unchanged shortcut: node name and uid are compared by nobody else)")
	// and the attributes written are the caller's
	for _, u := range up {
		cw, _ := callOf(callArgs(u)[0])
		okA := cw != nil && nameMatch(calleeName(cw), "(*FloatingIP).CloneWith")
		if okA {
			a := cw.Call.Args[2]
			okA = dependsOn(a, func(x ssa.Value) bool { return sameParam(x, pAt(fn, 3)) }) || unspillAddrOfParam(a, pAt(fn, 3))
		}
		c.ob(rule, fn, "the stored attributes are the caller's attr", u, okA, "updateFloatingIP(v.CloneWith(v.Key, &attr, ..)) with the attr parameter")
	}
}

// unspillAddrOfParam: v is the address of the cell a by-value parameter was spilled into.
func unspillAddrOfParam(v ssa.Value, p *ssa.Parameter) bool {
	a, ok := v.(*ssa.Alloc)
	if !ok {
		return false
	}
	for _, ref := range *a.Referrers() {
		if st, ok := ref.(*ssa.Store); ok && st.Addr == ssa.Value(a) && st.Val == ssa.Value(p) {
			return true
		}
	}
	return false
}

// C05.R11 — the object written to the store and the in-memory update carry the same key, attributes and time, and the
// clone handed to the store is not modified after it was taken.
func ruleCloneMatchesAssign(c *Ctx, rule string) {
	n := 0
	for _, fn := range ipamMethods(c) {
		ups := calls(fn, "(*crdIpam).updateFloatingIP")
		asg := calls(fn, "(*FloatingIP).Assign")
		if len(ups) == 0 || len(asg) == 0 {
			continue
		}
		for _, u := range ups {
			cw, _ := callOf(callArgs(u)[0])
			if cw == nil || !nameMatch(calleeName(cw), "(*FloatingIP).CloneWith") {
				c.ob(rule, fn, "store update is given a clone of the entry", u, false, "updateFloatingIP's argument is not a direct CloneWith result (a clone modified or built elsewhere cannot be compared with the in-memory update)")
				continue
			}
			// the clone must not be written after cloning
			modified := false
			for _, ref := range *cw.Referrers() {
				if fa, ok := ref.(*ssa.FieldAddr); ok {
					for _, r2 := range *fa.Referrers() {
						if st, ok := r2.(*ssa.Store); ok && st.Addr == ssa.Value(fa) {
							modified = true
						}
					}
				}
			}
			// the matching Assign: on the same receiver, reachable only after the update succeeded
			for _, a := range asg {
				if !sameAccessOrValue(a.Common().Args[0], cw.Call.Args[0]) && a.Common().Args[0] != cw.Call.Args[0] {
					continue
				}
				if ok, dec := onlyAfterSuccess(fn, u, a); !ok || !dec {
					continue
				}
				n++
				same := true
				for i := 1; i <= 3; i++ {
					if !sameAccessOrValue(a.Common().Args[i], cw.Call.Args[i]) {
						same = false
					}
				}
				// no store into the attr cell between the clone and the Assign
				between := c.reachAfter(cw, newCut().instr(a))
				touched := false
				if cell, ok := cw.Call.Args[2].(*ssa.Alloc); ok {
					for in := range between.instrs {
						if st, ok := in.(*ssa.Store); ok {
							if b, _ := cellPath(st.Addr); b == ssa.Value(cell) {
								touched = true
							}
						}
					}
				}
				c.ob(rule, fn, "store clone and memory Assign carry the same key, attr and time", a, same && !modified && !touched,
					fmt.Sprintf("CloneWith(k, a, t) / Assign(k, a, t) with identical operands=%v; clone modified after cloning=%v; attr cell written in between=%v", same, modified, touched))
			}
		}
	}
	if n == 0 {
		c.undecided(rule, nil, "CloneWith/Assign pairs", nil, "no update-then-assign pair found in the mutators")
	}
}

// exact-key queries compare keys for equality, prefix queries are issued only with pool prefixes.
func ruleExactKeyQueries(c *Ctx, rule string) {
	for _, name := range []string{"(*crdIpam).First", "(*crdIpam).ByKeyAndIPRanges", "(*crdIpam).ReserveIP", "(*crdIpam).Release", "(*crdIpam).ReleaseIPs", "(*crdIpam).UpdateAttr", "(*crdIpam).AllocateInSubnetWithKey"} {
		fn := c.MustFn(rule, fipPkg, name)
		if fn == nil {
			continue
		}
		bad := 0
		eq := 0
		for _, f := range append(withAnon(fn), helperFns(fn, 2)...) {
			allInstrs(f, func(in ssa.Instruction) {
				switch x := in.(type) {
				case *ssa.Call:
					n := calleeName(x)
					if n == "strings.HasPrefix" || n == "strings.Contains" || n == "strings.HasSuffix" || n == "strings.EqualFold" {
						for _, a := range x.Call.Args {
							if pathEndsWith(a, "Key") {
								bad++
							}
						}
					}
				case *ssa.BinOp:
					if (x.Op == token.EQL || x.Op == token.NEQ) && (pathEndsWith(x.X, "Key") || pathEndsWith(x.Y, "Key")) {
						eq++
					}
				}
			})
		}
		c.ob(rule, fn, "owner key compared for equality", nil, bad == 0 && eq > 0, fmt.Sprintf("%d ==/!= comparisons of <entry>.Key, %d prefix/substring tests (a pod key may be a string prefix of another pod's key: web-1 / web-10)", eq, bad))
	}
	// ByPrefix callers
	n := 0
	for _, fn := range c.SrcFns {
		if isGenerated(fn) {
			continue
		}
		for _, call := range callsLocal(fn, "IPAM).ByPrefix") {
			n++
			a := callArgs(call)[0]
			ok := isResultOf(a, 0, "(*KeyObj).PoolPrefix")
			if s, isC := constStringVal(a); isC && s == "" {
				ok = true
			}
			if !ok {
				if p, isP := unspill(a).(*ssa.Parameter); isP {
					// a parameter: accepted for the list API's keyword / prefix query only
					var fromKeyword func(q *ssa.Parameter, d int) bool
					fromKeyword = func(q *ssa.Parameter, d int) bool {
						if q.Parent() == nil || q.Parent().Pkg == nil || q.Parent().Pkg.Pkg.Path() != modPath+apiPkg {
							return false
						}
						if q.Name() == "keyword" {
							return true
						}
						// an unexported helper of the list API: every call site hands it the keyword
						acts := actualsOf(q)
						if len(acts) == 0 || d > 2 {
							return false
						}
						for _, a := range acts {
							q2, isP := unspill(a).(*ssa.Parameter)
							if !isP || !fromKeyword(q2, d+1) {
								return false
							}
						}
						return true
					}
					ok = fromKeyword(p, 0)
				}
				if ld, isLd := a.(*ssa.UnOp); isLd {
					if _, isFV := ld.X.(*ssa.FreeVar); isFV {
						ok = false
					}
				}
				// a local that only ever holds PoolPrefix() results
				if !ok && dependsOn(a, func(x ssa.Value) bool { return isResultOf(x, 0, "(*KeyObj).PoolPrefix") }) {
					ok = true
				}
			}
			c.ob(rule, fn, "prefix query issued with a pool/app prefix", call, ok, "IPAM.ByPrefix is called with \"\", a KeyObj.PoolPrefix() value or the list API's keyword — never with a pod key")
		}
	}
	if n < 4 {
		c.undecided(rule, nil, "ByPrefix callers", nil, fmt.Sprintf("expected at least 4 ByPrefix call sites, found %d", n))
	}
}

// naturalLoop: the blocks of the natural loop(s) with header h (h plus every block that reaches a back-edge source
// without passing h).
func naturalLoop(h *ssa.BasicBlock) map[*ssa.BasicBlock]bool {
	loop := map[*ssa.BasicBlock]bool{h: true}
	var work []*ssa.BasicBlock
	for _, p := range h.Preds {
		if h.Dominates(p) && !loop[p] {
			loop[p] = true
			work = append(work, p)
		}
	}
	for len(work) > 0 {
		b := work[len(work)-1]
		work = work[:len(work)-1]
		for _, p := range b.Preds {
			if !loop[p] {
				loop[p] = true
				work = append(work, p)
			}
		}
	}
	return loop
}

// finderForm: the search over the configured pools was extracted into a helper that returns the matching pool or nil.
// Decides: the helper returns nil only after its loop was exhausted and a pool only behind pool.Contains(ip); in fn the
// deletion list is appended to only on the `result == nil` edge and the rebuilt table is updated only on the other one.
func finderForm(c *Ctx, rule string, fn *ssa.Function, appends []*ssa.Store) bool {
	var finder *ssa.Call
	var h *ssa.Function
	allInstrs(fn, func(in ssa.Instruction) {
		if call, ok := in.(*ssa.Call); ok && finder == nil {
			if g := helperOf(call, nil); g != nil && g.Signature.Results().Len() == 1 && typeNameOf(g.Signature.Results().At(0).Type()) == "FloatingIPPool" {
				finder, h = call, g
			}
		}
	})
	if finder == nil {
		return false
	}
	contains := guardEdges(h, predCall("(*FloatingIPPool).Contains", nil))
	// helper: nil only on exhaustion, non-nil only behind Contains of that pool
	okH := len(contains) > 0
	for _, ret := range returns(h) {
		rv := retVal(ret, 0)
		if isNilConst(rv) {
			hdr := (*ssa.BasicBlock)(nil)
			for _, b := range h.Blocks {
				for _, p := range b.Preds {
					if b.Dominates(p) && (hdr == nil || hdr.Dominates(b)) {
						hdr = b
					}
				}
			}
			if hdr == nil {
				okH = false
				continue
			}
			loop := naturalLoop(hdr)
			ct := newCut()
			for i, sct := range hdr.Succs {
				if !loop[sct] {
					ct.edge(edge{hdr, i})
				}
			}
			if reachFromEntry(h, ct).has(ret) {
				okH = false
			}
		} else {
			same := false
			for _, e := range contains {
				if call, ok := e.from.Instrs[len(e.from.Instrs)-1].(*ssa.If).Cond.(*ssa.Call); ok && (call.Call.Args[0] == rv || sameAccess(call.Call.Args[0], rv)) {
					same = true
				}
			}
			if !same || !guardedBy(h, ret, contains) {
				okH = false
			}
		}
	}
	c.ob(rule, h, "the pool finder answers nil only after every pool was tried, and a pool only if its ranges contain the ip", nil, okH, "nil return unreachable without the exhaustion edge of the search loop; non-nil returns behind that pool's Contains(ip)")
	isNilEdge := guardEdges(fn, predEq(func(v ssa.Value) bool { return v == ssa.Value(finder) }, isNilConst))
	var notNil []edge
	for _, e := range isNilEdge {
		notNil = append(notNil, edge{e.from, 1 - e.succ})
	}
	for _, a := range appends {
		c.ob(rule, fn, "an object is classified 'in no configured pool' only after every pool was tried", a, guardedBy(fn, a, isNilEdge), "the append to the deletion list is reachable only through the `finder(..) == nil` edge")
	}
	nIns := 0
	allInstrs(fn, func(in ssa.Instruction) {
		if mu, ok := in.(*ssa.MapUpdate); ok && typeNameOf(mu.Value.Type()) == "FloatingIP" && loopHeaderOf(mu) != nil && loopHeaderOf(mu) == loopHeaderOf(finder) {
			nIns++
			c.ob(rule, fn, "object queued for deletion only if no configured pool contains it", mu, guardedBy(fn, mu, notNil), "the insertion into the rebuilt table is reachable only through the `finder(..) != nil` edge")
		}
	})
	return nIns > 0
}
