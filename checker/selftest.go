package main

// runSelfTests is filled in selftest_impl.go once the engines exist.
var selfTestHook func(c *Ctx, prop string)

func runSelfTests(c *Ctx, prop string) {
	if selfTestHook != nil {
		selfTestHook(c, prop)
	}
}
