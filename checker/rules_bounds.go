package main

import (
	"fmt"
	"go/token"
	"go/types"
	"strings"

	"golang.org/x/tools/go/ssa"
)

// lenOfSame: v is len(s) for the slice value s (same SSA value or same access)
func isLenOf(v ssa.Value, s ssa.Value) bool {
	call, ok := stripConv(v).(*ssa.Call)
	if !ok {
		return false
	}
	b, ok := call.Call.Value.(*ssa.Builtin)
	if !ok || b.Name() != "len" || len(call.Call.Args) != 1 {
		return false
	}
	return s == nil || call.Call.Args[0] == s || sameAccess(call.Call.Args[0], s)
}

// steppedIndexSites: IndexAddr / Index into a slice whose index is x+const or x-const of a non-constant x
func steppedIndexSites(fn *ssa.Function) []ssa.Instruction {
	var out []ssa.Instruction
	allInstrs(fn, func(in ssa.Instruction) {
		var x, idx ssa.Value
		switch a := in.(type) {
		case *ssa.IndexAddr:
			x, idx = a.X, a.Index
		case *ssa.Index:
			x, idx = a.X, a.Index
		default:
			return
		}
		if _, ok := x.Type().Underlying().(*types.Slice); !ok {
			if _, ok := x.Type().Underlying().(*types.Basic); !ok { // strings too
				return
			}
		}
		bo, ok := stripConv(idx).(*ssa.BinOp)
		if !ok || bo.Op != token.ADD {
			return
		}
		if n, isC := constIntVal(bo.Y); !isC || n <= 0 {
			return
		}
		if _, isC := bo.X.(*ssa.Const); isC {
			return
		}
		out = append(out, in)
	})
	return out
}

// indexGuarded: the index value idx of slice s is compared with len(s) on an edge dominating the access
func indexGuarded(fn *ssa.Function, at ssa.Instruction, s, idx ssa.Value) bool {
	idx = stripConv(idx)
	var es []edge
	for _, b := range fn.Blocks {
		if len(b.Instrs) == 0 {
			continue
		}
		ifi, ok := b.Instrs[len(b.Instrs)-1].(*ssa.If)
		if !ok {
			continue
		}
		bo, ok := ifi.Cond.(*ssa.BinOp)
		if !ok {
			continue
		}
		l, r := stripConv(bo.X), stripConv(bo.Y)
		op := bo.Op
		if sameStep(l, idx) {
			l = idx
		}
		if sameStep(r, idx) {
			r = idx
		}
		// x < len-c' with c' >= c guards x+c
		if ib, ok := idx.(*ssa.BinOp); ok && (l == stripConv(ib.X) || sameAccess(l, ib.X)) {
			if sb, ok := r.(*ssa.BinOp); ok && sb.Op == token.SUB && isLenOf(sb.X, s) {
				c1, ok1 := constIntVal(ib.Y)
				c2, ok2 := constIntVal(sb.Y)
				if ok1 && ok2 && c2 >= c1 && op == token.LSS {
					es = append(es, edge{b, 0})
					continue
				}
			}
		}
		if isLenOf(l, s) && r == idx { // len op idx  ->  idx op' len
			l, r = r, l
			switch op {
			case token.LSS:
				op = token.GTR
			case token.GTR:
				op = token.LSS
			case token.LEQ:
				op = token.GEQ
			case token.GEQ:
				op = token.LEQ
			}
		}
		if l != idx || !isLenOf(r, s) {
			continue
		}
		switch op {
		case token.LSS: // idx < len : true edge safe
			es = append(es, edge{b, 0})
		case token.GEQ, token.EQL: // idx >= len / idx == len : false edge safe (== is enough for a unit step from a valid index)
			es = append(es, edge{b, 1})
		case token.NEQ:
			es = append(es, edge{b, 0})
		}
	}
	return len(es) > 0 && guardedBy(fn, at, es)
}

// sameStep: a and b are the same SSA value or both x+c for the same x and c
func sameStep(a, b ssa.Value) bool {
	if a == b {
		return true
	}
	ba, ok1 := a.(*ssa.BinOp)
	bb, ok2 := b.(*ssa.BinOp)
	if !ok1 || !ok2 || ba.Op != bb.Op {
		return false
	}
	ca, ok1 := constIntVal(ba.Y)
	cb, ok2 := constIntVal(bb.Y)
	return ok1 && ok2 && ca == cb && (ba.X == bb.X || sameAccess(ba.X, bb.X))
}

var steppedIndexExempt = map[string]string{
	"(*@/pkg/ipam/floatingip.FloatingIPPool).RemoveIP": "IPRanges[i+1] is written right after the slice was extended by one element at position i+1 in the same branch",
}

// C18.R9 — an index that was stepped (i+1, j-1, ...) is compared with the length of the slice it indexes
func ruleSteppedIndexChecked(c *Ctx, rule string, explore bool) {
	n := 0
	for _, fn := range c.SrcFns {
		for _, in := range steppedIndexSites(fn) {
			var s, idx ssa.Value
			switch a := in.(type) {
			case *ssa.IndexAddr:
				s, idx = a.X, a.Index
			case *ssa.Index:
				s, idx = a.X, a.Index
			}
			ok := indexGuarded(fn, in, s, idx)
			ok2 := ok || indexGuarded(fn, in, nil, idx)
			if explore {
				fmt.Printf("STEPPED %s %s guarded=%v any=%v\n", c.instrPos(in), fnName(fn), ok, ok2)
				continue
			}
			n++
			if !ok2 {
				if why, ex := steppedIndexExempt[fnName(fn)]; ex {
					c.exempt(rule, fn, "stepped index", in, why)
					continue
				}
			}
			c.ob(rule, fn, "index x+c is compared with a length before it is used", in, ok2, "the very value used as index (or x against len-c) is tested against len(...) on an edge dominating the access; a test of x alone does not bound x+c")
		}
	}
}

// ---- exploration helper: decode targets ----
func exploreDecodeTargets(c *Ctx) {
	for _, fn := range c.SrcFns {
		if isGenerated(fn) {
			continue
		}
		for _, u := range callsLocal(fn, "encoding/json.Unmarshal", "(*encoding/json.Decoder).Decode", "(*github.com/emicklei/go-restful.Request).ReadEntity", "sigs.k8s.io/yaml.Unmarshal", "github.com/ghodss/yaml.Unmarshal") {
			args := u.Common().Args
			a := args[len(args)-1]
			if mi, ok := a.(*ssa.MakeInterface); ok {
				a = mi.X
			}
			fmt.Printf("DECODE %s %s target=%s\n", c.instrPos(u), fnName(fn), a.Type())
		}
	}
}

func exploreDecodedFields(c *Ctx) {
	seenT := map[*types.Named]bool{}
	var visitT func(t types.Type, depth int)
	visitT = func(t types.Type, depth int) {
		for {
			if p, ok := t.(*types.Pointer); ok {
				t = p.Elem()
				continue
			}
			if s, ok := t.(*types.Slice); ok {
				t = s.Elem()
				continue
			}
			if m, ok := t.(*types.Map); ok {
				t = m.Elem()
				continue
			}
			break
		}
		n, ok := t.(*types.Named)
		if !ok || seenT[n] || n.Obj().Pkg() == nil || !strings.HasPrefix(n.Obj().Pkg().Path(), "tkestack.io/galaxy") {
			return
		}
		st, ok := n.Underlying().(*types.Struct)
		if !ok {
			return
		}
		seenT[n] = true
		for i := 0; i < st.NumFields(); i++ {
			f := st.Field(i)
			ft := f.Type()
			kind := ""
			switch u := ft.Underlying().(type) {
			case *types.Pointer:
				kind = "ptr"
			case *types.Slice:
				if _, ok := u.Elem().Underlying().(*types.Pointer); ok {
					kind = "slice-of-ptr"
				}
			case *types.Map:
				if _, ok := u.Elem().Underlying().(*types.Pointer); ok {
					kind = "map-of-ptr"
				}
			}
			if kind != "" {
				fmt.Printf("DFIELD %s.%s %s %s\n", n.Obj().Name(), f.Name(), kind, ft)
			}
			if depth < 3 {
				visitT(ft, depth+1)
			}
		}
	}
	for _, fn := range c.SrcFns {
		if isGenerated(fn) {
			continue
		}
		for _, u := range callsLocal(fn, "encoding/json.Unmarshal", "(*encoding/json.Decoder).Decode", "(*github.com/emicklei/go-restful.Request).ReadEntity") {
			args := u.Common().Args
			a := args[len(args)-1]
			if mi, ok := a.(*ssa.MakeInterface); ok {
				a = mi.X
			}
			visitT(a.Type(), 0)
		}
	}
}

func exploreConstIndex(c *Ctx) {
	for _, fn := range c.SrcFns {
		if isGenerated(fn) {
			continue
		}
		allInstrs(fn, func(in ssa.Instruction) {
			var x, idx ssa.Value
			switch a := in.(type) {
			case *ssa.IndexAddr:
				x, idx = a.X, a.Index
			case *ssa.Index:
				x, idx = a.X, a.Index
			default:
				return
			}
			k, ok := constIntVal(idx)
			if !ok {
				return
			}
			if _, isSl := x.Type().Underlying().(*types.Slice); !isSl {
				if b, isB := x.Type().Underlying().(*types.Basic); !isB || b.Kind() != types.String {
					return
				}
			}
			src := "?"
			switch s := stripConv(x).(type) {
			case *ssa.Call:
				src = calleeName(s)
			case *ssa.Slice:
				src = "slice-expr"
			case *ssa.UnOp:
				src = "load"
			case *ssa.Extract:
				if cl, ok := s.Tuple.(*ssa.Call); ok {
					src = "result of " + calleeName(cl)
				}
			case *ssa.Parameter:
				src = "param"
			case *ssa.Phi:
				src = "phi"
			}
			if al, ok := x.(*ssa.Alloc); ok {
				_ = al
				return
			}
			// skip fresh slices: x = slice of new array (varargs)
			if sl, ok := x.(*ssa.Slice); ok {
				if _, ok := sl.X.(*ssa.Alloc); ok {
					return
				}
			}
			fmt.Printf("CONSTIDX %s %s [%d] of %s guardedAny=%v\n", c.instrPos(in), fnName(fn), k, src, constIndexGuarded(fn, in, x, k))
		})
	}
}

// constIndexGuarded: len(x) is compared with a constant on an edge dominating the access such that len(x) > k holds
func constIndexGuarded(fn *ssa.Function, at ssa.Instruction, x ssa.Value, k int64) bool {
	var es []edge
	for _, b := range fn.Blocks {
		ifi, ok := b.Instrs[len(b.Instrs)-1].(*ssa.If)
		if !ok {
			continue
		}
		bo, ok := ifi.Cond.(*ssa.BinOp)
		if !ok {
			continue
		}
		l, r, op := bo.X, bo.Y, bo.Op
		if isLenOf(r, x) {
			l, r = r, l
			switch op {
			case token.LSS:
				op = token.GTR
			case token.GTR:
				op = token.LSS
			case token.LEQ:
				op = token.GEQ
			case token.GEQ:
				op = token.LEQ
			}
		}
		if !isLenOf(l, x) {
			continue
		}
		n, ok := constIntVal(r)
		if !ok {
			continue
		}
		switch op {
		case token.EQL: // len == n : true edge safe if n > k ; false edge safe only if n==0 && k==0? (len != 0 => len >= 1)
			if n > k {
				es = append(es, edge{b, 0})
			}
			if n == 0 && k == 0 {
				es = append(es, edge{b, 1})
			}
		case token.NEQ:
			if n > k {
				es = append(es, edge{b, 1})
			}
			if n == 0 && k == 0 {
				es = append(es, edge{b, 0})
			}
		case token.GTR: // len > n : true safe if n >= k
			if n >= k {
				es = append(es, edge{b, 0})
			}
		case token.GEQ: // len >= n : true safe if n > k
			if n > k {
				es = append(es, edge{b, 0})
			}
		case token.LSS: // len < n : false edge => len >= n safe if n > k
			if n > k {
				es = append(es, edge{b, 1})
			}
		case token.LEQ: // len <= n : false => len > n safe if n >= k
			if n >= k {
				es = append(es, edge{b, 1})
			}
		}
	}
	return len(es) > 0 && guardedBy(fn, at, es)
}

func exploreTypeAsserts(c *Ctx) {
	for _, fn := range c.SrcFns {
		if isGenerated(fn) {
			continue
		}
		allInstrs(fn, func(in ssa.Instruction) {
			ta, ok := in.(*ssa.TypeAssert)
			if !ok || ta.CommaOk {
				return
			}
			fmt.Printf("TASSERT %s %s .(%s)\n", c.instrPos(in), fnName(fn), short(ta.AssertedType.String()))
		})
	}
}

func exploreSharedFields(c *Ctx) {
	la := c.locks()
	classified := map[string]bool{}
	types_ := map[string]string{}
	for _, gs := range guardSpecs {
		types_[gs.Type] = gs.Pkg
		for _, f := range gs.Fields {
			classified[gs.Type+"."+f] = true
		}
	}
	for _, ws := range writeOnceSpecs {
		types_[ws.Type] = ws.Pkg
		for _, f := range ws.Fields {
			classified[ws.Type+"."+f] = true
		}
	}
	for tn, pkg := range types_ {
		nt := c.namedType(pkg, tn)
		if nt == nil {
			continue
		}
		st := nt.Underlying().(*types.Struct)
		for i := 0; i < st.NumFields(); i++ {
			f := st.Field(i)
			if classified[tn+"."+f.Name()] {
				continue
			}
			// stores
			nst, nfresh := 0, 0
			var where []string
			for _, fn := range c.SrcFns {
				allInstrs(fn, func(in ssa.Instruction) {
					s, ok := in.(*ssa.Store)
					if !ok {
						return
					}
					fa, ok := s.Addr.(*ssa.FieldAddr)
					if !ok || fieldVar(fa.X.Type(), fa.Field) != f {
						return
					}
					nst++
					if la.isFresh(fa.X) {
						nfresh++
					} else {
						where = append(where, fnName(fn))
					}
				})
			}
			fmt.Printf("SFIELD %s.%s %s stores=%d fresh=%d nonfresh-in=%v\n", tn, f.Name(), short(f.Type().String()), nst, nfresh, where)
		}
	}
}

// C18.R12 — a constant index into a slice or string is covered by a length test of that slice (or of the set the list
// was made from), is [0] of a strings.Split result, or is one of the sites confirmed by reading
var constIndexExempt = map[string]string{
	"(*@/pkg/ipam/crd.crdCache).GetReplicas":               "spec.versions of a served CustomResourceDefinition is never empty (the API server defaults it from spec.version)",
	"(*@/pkg/ipam/schedulerplugin.crdKey).popularCache":    "spec.versions of a served CustomResourceDefinition is never empty",
	"@/pkg/utils/ips.ParseIPv4Mask":                        "net.ParseIP returns nil (tested) or a 16-byte slice",
	"@/pkg/utils/ipset.getIPSetVersionString":              "output of the local ipset binary, not an input surface of the property",
	"@/pkg/utils/iptables.getIPTablesRestoreVersionString": "output of the local iptables-restore binary",
	"@/pkg/utils/iptables.getIPTablesVersionString":        "output of the local iptables binary",
	"@/pkg/utils/nets.ParseIPRange":                        "behind strings.Contains(ipr, separator): SplitN(.., 2) has two parts",
}

func setLenGuarded(fn *ssa.Function, at ssa.Instruction, x ssa.Value, k int64) bool {
	// x = S.List() / S.UnsortedList(); guard: S.Len() > 0 / == 0
	call, ok := stripConv(x).(*ssa.Call)
	if !ok || !matchAny(calleeName(call), []string{"sets.String).List", "sets.String).UnsortedList"}) || len(call.Call.Args) == 0 || k != 0 {
		return false
	}
	set := call.Call.Args[0]
	var es []edge
	for _, b := range fn.Blocks {
		ifi, ok := b.Instrs[len(b.Instrs)-1].(*ssa.If)
		if !ok {
			continue
		}
		for _, cond := range condLeaves(ifi.Cond) {
			bo, ok := cond.(*ssa.BinOp)
			if !ok {
				continue
			}
			lc, ok := bo.X.(*ssa.Call)
			if !ok || !nameMatch(calleeName(lc), "sets.String).Len") || len(lc.Call.Args) == 0 {
				continue
			}
			if !(lc.Call.Args[0] == set || sameAccess(lc.Call.Args[0], set)) {
				continue
			}
			n, isC := constIntVal(bo.Y)
			if !isC || n != 0 {
				continue
			}
			switch bo.Op {
			case token.GTR, token.NEQ:
				es = append(es, edge{b, 0})
			case token.EQL, token.LEQ:
				es = append(es, edge{b, 1})
			}
		}
	}
	return len(es) > 0 && guardedBy(fn, at, es)
}

func condLeaves(v ssa.Value) []ssa.Value { return []ssa.Value{v} }

func ruleConstIndexChecked(c *Ctx, rule string) {
	n := 0
	for _, fn := range c.SrcFns {
		p := fn.Pkg.Pkg.Path()
		if isGenerated(fn) || !strings.HasPrefix(p, modPath+"pkg/") || strings.Contains(p, "/testing") || strings.Contains(p, "/fake") || strings.HasSuffix(p, "pkg/utils/test") || strings.Contains(p, "/client/") {
			continue
		}
		if strings.HasSuffix(c.Fset.Position(fn.Pos()).Filename, "/test.go") {
			continue
		}
		allInstrs(fn, func(in ssa.Instruction) {
			var x, idx ssa.Value
			switch a := in.(type) {
			case *ssa.IndexAddr:
				x, idx = a.X, a.Index
			case *ssa.Index:
				x, idx = a.X, a.Index
			default:
				return
			}
			k, ok := constIntVal(idx)
			if !ok {
				return
			}
			if _, isSl := x.Type().Underlying().(*types.Slice); !isSl {
				if b, isB := x.Type().Underlying().(*types.Basic); !isB || b.Kind() != types.String {
					return
				}
			}
			if _, ok := x.(*ssa.Alloc); ok {
				return
			}
			if sl, ok := x.(*ssa.Slice); ok {
				if _, ok := sl.X.(*ssa.Alloc); ok {
					return // a fresh array (varargs, literal)
				}
			}
			n++
			okG := constIndexGuarded(fn, in, x, k) || setLenGuarded(fn, in, x, k)
			if !okG && k == 0 {
				if call, isCall := stripConv(x).(*ssa.Call); isCall && matchAny(calleeName(call), []string{"strings.Split", "strings.SplitN", "strings.SplitAfter"}) {
					if sep, isC := constStringVal(call.Call.Args[1]); isC && sep != "" {
						okG = true
					} else if g, isG := call.Call.Args[1].(*ssa.Global); isG && g != nil {
						okG = true
					}
				}
			}
			if !okG {
				if why, ex := constIndexExempt[fnName(fn)]; ex {
					c.exempt(rule, fn, fmt.Sprintf("constant index [%d]", k), in, why)
					return
				}
			}
			c.ob(rule, fn, fmt.Sprintf("constant index [%d] is covered by a length test", k), in, okG, "len(x) (or the Len() of the set the list was made from) is compared with a constant on an edge dominating the access such that len(x) > index; [0] of strings.Split with a non-empty separator always exists")
		})
	}
	if n < 30 {
		c.undecided(rule, nil, "constant index sites", nil, fmt.Sprintf("expected at least 30 sites in pkg/, found %d", n))
	}
}
