package main

import (
	"fmt"
	"go/token"
	"go/types"
	"strings"

	"golang.org/x/tools/go/ssa"
)

// lenOfSame: v is len(s) for the slice value s (same SSA value or same access)
func isLenOf(v ssa.Value, s ssa.Value) bool {
	call, ok := stripConv(v).(*ssa.Call)
	if !ok {
		return false
	}
	b, ok := call.Call.Value.(*ssa.Builtin)
	if !ok || b.Name() != "len" || len(call.Call.Args) != 1 {
		return false
	}
	return s == nil || call.Call.Args[0] == s || sameAccess(call.Call.Args[0], s)
}

// steppedIndexSites: IndexAddr / Index into a slice whose index is x+const or x-const of a non-constant x
func steppedIndexSites(fn *ssa.Function) []ssa.Instruction {
	var out []ssa.Instruction
	allInstrs(fn, func(in ssa.Instruction) {
		var x, idx ssa.Value
		switch a := in.(type) {
		case *ssa.IndexAddr:
			x, idx = a.X, a.Index
		case *ssa.Index:
			x, idx = a.X, a.Index
		default:
			return
		}
		if _, ok := x.Type().Underlying().(*types.Slice); !ok {
			if _, ok := x.Type().Underlying().(*types.Basic); !ok { // strings too
				return
			}
		}
		bo, ok := stripConv(idx).(*ssa.BinOp)
		if !ok || bo.Op != token.ADD {
			return
		}
		if n, isC := constIntVal(bo.Y); !isC || n <= 0 {
			return
		}
		if _, isC := bo.X.(*ssa.Const); isC {
			return
		}
		out = append(out, in)
	})
	return out
}

// indexGuarded: the index value idx of slice s is compared with len(s) on an edge dominating the access
func indexGuarded(fn *ssa.Function, at ssa.Instruction, s, idx ssa.Value) bool {
	idx = stripConv(idx)
	var es []edge
	for _, b := range fn.Blocks {
		if len(b.Instrs) == 0 {
			continue
		}
		ifi, ok := b.Instrs[len(b.Instrs)-1].(*ssa.If)
		if !ok {
			continue
		}
		bo, ok := ifi.Cond.(*ssa.BinOp)
		if !ok {
			continue
		}
		l, r := stripConv(bo.X), stripConv(bo.Y)
		op := bo.Op
		if sameStep(l, idx) {
			l = idx
		}
		if sameStep(r, idx) {
			r = idx
		}
		// x < len-c' with c' >= c guards x+c
		if ib, ok := idx.(*ssa.BinOp); ok && (l == stripConv(ib.X) || sameAccess(l, ib.X)) {
			if sb, ok := r.(*ssa.BinOp); ok && sb.Op == token.SUB && isLenOf(sb.X, s) {
				c1, ok1 := constIntVal(ib.Y)
				c2, ok2 := constIntVal(sb.Y)
				if ok1 && ok2 && c2 >= c1 && op == token.LSS {
					es = append(es, edge{b, 0})
					continue
				}
			}
		}
		if isLenOf(l, s) && r == idx { // len op idx  ->  idx op' len
			l, r = r, l
			switch op {
			case token.LSS:
				op = token.GTR
			case token.GTR:
				op = token.LSS
			case token.LEQ:
				op = token.GEQ
			case token.GEQ:
				op = token.LEQ
			}
		}
		if l != idx || !isLenOf(r, s) {
			continue
		}
		switch op {
		case token.LSS: // idx < len : true edge safe
			es = append(es, edge{b, 0})
		case token.GEQ, token.EQL: // idx >= len / idx == len : false edge safe (== is enough for a unit step from a valid index)
			es = append(es, edge{b, 1})
		case token.NEQ:
			es = append(es, edge{b, 0})
		}
	}
	return len(es) > 0 && guardedBy(fn, at, es)
}

// sameStep: a and b are the same SSA value or both x+c for the same x and c
func sameStep(a, b ssa.Value) bool {
	if a == b {
		return true
	}
	ba, ok1 := a.(*ssa.BinOp)
	bb, ok2 := b.(*ssa.BinOp)
	if !ok1 || !ok2 || ba.Op != bb.Op {
		return false
	}
	ca, ok1 := constIntVal(ba.Y)
	cb, ok2 := constIntVal(bb.Y)
	return ok1 && ok2 && ca == cb && (ba.X == bb.X || sameAccess(ba.X, bb.X))
}

var steppedIndexExempt = map[string]string{
	"(*@/pkg/ipam/floatingip.FloatingIPPool).RemoveIP": "IPRanges[i+1] is written right after the slice was extended by one element at position i+1 in the same branch",
}

// C18.R9 — an index that was stepped (i+1, j-1, ...) is compared with the length of the slice it indexes
func ruleSteppedIndexChecked(c *Ctx, rule string, explore bool) {
	n := 0
	for _, fn := range c.SrcFns {
		for _, in := range steppedIndexSites(fn) {
			var s, idx ssa.Value
			switch a := in.(type) {
			case *ssa.IndexAddr:
				s, idx = a.X, a.Index
			case *ssa.Index:
				s, idx = a.X, a.Index
			}
			ok := indexGuarded(fn, in, s, idx)
			ok2 := ok || indexGuarded(fn, in, nil, idx)
			if explore {
				fmt.Printf("STEPPED %s %s guarded=%v any=%v\n", c.instrPos(in), fnName(fn), ok, ok2)
				continue
			}
			n++
			if !ok2 {
				if why, ex := steppedIndexExempt[fnName(fn)]; ex {
					c.exempt(rule, fn, "stepped index", in, why)
					continue
				}
			}
			c.ob(rule, fn, "index x+c is compared with a length before it is used", in, ok2, "the very value used as index (or x against len-c) is tested against len(...) on an edge dominating the access; a test of x alone does not bound x+c")
		}
	}
}

// ---- exploration helper: decode targets ----
func exploreDecodeTargets(c *Ctx) {
	for _, fn := range c.SrcFns {
		if isGenerated(fn) {
			continue
		}
		for _, u := range calls(fn, "encoding/json.Unmarshal", "(*encoding/json.Decoder).Decode", "(*github.com/emicklei/go-restful.Request).ReadEntity", "sigs.k8s.io/yaml.Unmarshal", "github.com/ghodss/yaml.Unmarshal") {
			args := u.Common().Args
			a := args[len(args)-1]
			if mi, ok := a.(*ssa.MakeInterface); ok {
				a = mi.X
			}
			fmt.Printf("DECODE %s %s target=%s\n", c.instrPos(u), fnName(fn), a.Type())
		}
	}
}

func exploreDecodedFields(c *Ctx) {
	seenT := map[*types.Named]bool{}
	var visitT func(t types.Type, depth int)
	visitT = func(t types.Type, depth int) {
		for {
			if p, ok := t.(*types.Pointer); ok {
				t = p.Elem()
				continue
			}
			if s, ok := t.(*types.Slice); ok {
				t = s.Elem()
				continue
			}
			if m, ok := t.(*types.Map); ok {
				t = m.Elem()
				continue
			}
			break
		}
		n, ok := t.(*types.Named)
		if !ok || seenT[n] || n.Obj().Pkg() == nil || !strings.HasPrefix(n.Obj().Pkg().Path(), "tkestack.io/galaxy") {
			return
		}
		st, ok := n.Underlying().(*types.Struct)
		if !ok {
			return
		}
		seenT[n] = true
		for i := 0; i < st.NumFields(); i++ {
			f := st.Field(i)
			ft := f.Type()
			kind := ""
			switch u := ft.Underlying().(type) {
			case *types.Pointer:
				kind = "ptr"
			case *types.Slice:
				if _, ok := u.Elem().Underlying().(*types.Pointer); ok {
					kind = "slice-of-ptr"
				}
			case *types.Map:
				if _, ok := u.Elem().Underlying().(*types.Pointer); ok {
					kind = "map-of-ptr"
				}
			}
			if kind != "" {
				fmt.Printf("DFIELD %s.%s %s %s\n", n.Obj().Name(), f.Name(), kind, ft)
			}
			if depth < 3 {
				visitT(ft, depth+1)
			}
		}
	}
	for _, fn := range c.SrcFns {
		if isGenerated(fn) {
			continue
		}
		for _, u := range calls(fn, "encoding/json.Unmarshal", "(*encoding/json.Decoder).Decode", "(*github.com/emicklei/go-restful.Request).ReadEntity") {
			args := u.Common().Args
			a := args[len(args)-1]
			if mi, ok := a.(*ssa.MakeInterface); ok {
				a = mi.X
			}
			visitT(a.Type(), 0)
		}
	}
}
