package main

// E4 — wrap-around of fixed-width arithmetic.

import (
	"go/token"
	"go/types"

	"golang.org/x/tools/go/ssa"
)

func narrowInt(t types.Type) (bits int, unsigned bool, ok bool) {
	b, isB := t.Underlying().(*types.Basic)
	if !isB {
		return 0, false, false
	}
	switch b.Kind() {
	case types.Uint8:
		return 8, true, true
	case types.Uint16:
		return 16, true, true
	case types.Uint32:
		return 32, true, true
	case types.Uint, types.Uint64, types.Uintptr:
		return 64, true, true
	case types.Int8:
		return 8, false, true
	case types.Int16:
		return 16, false, true
	case types.Int32:
		return 32, false, true
	}
	return 0, false, false
}

type wrapLoop struct {
	fn   *ssa.Function
	cond *ssa.BinOp
	iff  *ssa.If
	why  string
}

// inclusiveLoops finds loops whose continuation condition is `i <= B` (or `B >= i`) on a fixed-width unsigned
// (or <=32 bit signed) induction value that is incremented in the loop, where B is not a constant below the type
// maximum: if B can be the maximum the condition can never become false and i wraps.
func inclusiveLoops(fn *ssa.Function) []wrapLoop {
	var out []wrapLoop
	allInstrs(fn, func(in ssa.Instruction) {
		iff, ok := in.(*ssa.If)
		if !ok {
			return
		}
		bo, ok := iff.Cond.(*ssa.BinOp)
		if !ok {
			return
		}
		var iv, bound ssa.Value
		switch bo.Op {
		case token.LEQ:
			iv, bound = bo.X, bo.Y
		case token.GEQ:
			iv, bound = bo.Y, bo.X
		default:
			return
		}
		bits, _, ok := narrowInt(iv.Type())
		if !ok {
			return
		}
		// induction: iv is a phi one of whose edges is iv + const (directly or through the loop)
		ph, ok := iv.(*ssa.Phi)
		if !ok {
			return
		}
		inc := false
		for _, e := range ph.Edges {
			if add, ok := e.(*ssa.BinOp); ok && add.Op == token.ADD && (add.X == ssa.Value(ph) || add.Y == ssa.Value(ph)) {
				if _, isC := add.X.(*ssa.Const); isC {
					inc = true
				}
				if _, isC := add.Y.(*ssa.Const); isC {
					inc = true
				}
			}
		}
		if !inc {
			return
		}
		// is the test a loop condition? the true successor must be able to come back to the test
		if !blockReaches(iff.Block().Succs[0], iff.Block()) {
			return
		}
		if k, isC := bound.(*ssa.Const); isC {
			max := uint64(1)<<uint(bits) - 1
			if k.Uint64() < max {
				return
			}
		}
		out = append(out, wrapLoop{fn: fn, cond: bo, iff: iff, why: "loop continues while i <= bound on a fixed-width counter that is incremented: if the bound is the type maximum the counter wraps and the loop cannot exit through its condition"})
	})
	return out
}

// narrowArithInOrdering finds ordering comparisons one of whose operands is a fixed-width unsigned x±c (no widening).
func narrowArithInOrdering(fn *ssa.Function) []*ssa.BinOp {
	var out []*ssa.BinOp
	allInstrs(fn, func(in ssa.Instruction) {
		cmp, ok := in.(*ssa.BinOp)
		if !ok {
			return
		}
		switch cmp.Op {
		case token.LSS, token.LEQ, token.GTR, token.GEQ:
		default:
			return
		}
		for _, o := range []ssa.Value{cmp.X, cmp.Y} {
			ar, ok := o.(*ssa.BinOp)
			if !ok || (ar.Op != token.ADD && ar.Op != token.SUB) {
				continue
			}
			bits, uns, ok := narrowInt(ar.Type())
			if !ok || !uns || bits > 32 {
				continue
			}
			_, cx := ar.X.(*ssa.Const)
			_, cy := ar.Y.(*ssa.Const)
			if cx == cy { // both const or neither: not the x±c shape
				continue
			}
			out = append(out, cmp)
		}
	})
	return out
}
