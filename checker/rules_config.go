package main

import (
	"fmt"
	"go/token"
	"strings"

	"golang.org/x/tools/go/ssa"
)

const netsPkg = "pkg/utils/nets"

func isGenerated(fn *ssa.Function) bool {
	p := fn.Pkg.Pkg.Path()
	return strings.Contains(p, "/pkg/ipam/client/") || strings.HasSuffix(p, "/rpc") || strings.Contains(p, "/apis/galaxy/v1alpha1")
}

// C18.R3 — inclusive loops over fixed-width counters terminate.
func ruleInclusiveLoops(c *Ctx, rule string) {
	n := 0
	for _, fn := range c.SrcFns {
		if isGenerated(fn) {
			continue
		}
		for _, l := range inclusiveLoops(fn) {
			n++
			c.ob(rule, fn, "loop `i <= bound` with i++ on a fixed-width counter", l.iff, false, l.why)
		}
	}
	// the range walk: the instance confirmed by reading
	if fn := c.MustFn(rule, fipPkg, "walkIPRanges"); fn != nil {
		// the walk visits [first,last]: its loop must exit on equality with the bound (or be otherwise guarded)
		loops := inclusiveLoops(fn)
		calls := 0
		allInstrs(fn, func(in ssa.Instruction) {
			if call, ok := in.(*ssa.Call); ok && call.Call.Value == ssa.Value(pAt(fn, 1)) {
				calls++
			}
		})
		c.ob(rule, fn, "range walk terminates for ranges ending at 255.255.255.255", nil, len(loops) == 0 && calls > 0,
			fmt.Sprintf("no `counter <= last` continuation on the uint32 counter (%d found); the callback is invoked in the loop (%d call sites)", len(loops), calls))
		// the exit test compares the counter with the last address for equality before incrementing
		eq := guardEdges(fn, predEq(func(v ssa.Value) bool {
			return dependsOn(v, func(x ssa.Value) bool { return isResultOf(x, 0, netsPkg+".IPToInt") })
		},
			func(v ssa.Value) bool { return isResultOf(v, 0, netsPkg+".IPToInt") }))
		inc := 0
		okOrder := true
		allInstrs(fn, func(in ssa.Instruction) {
			if add, ok := in.(*ssa.BinOp); ok && add.Op == token.ADD {
				if bits, uns, ok := narrowInt(add.Type()); ok && uns && bits == 32 {
					inc++
					// the increment must be reachable only through the "not equal" edge
					var neq []edge
					for _, e := range eq {
						neq = append(neq, edge{e.from, 1 - e.succ})
					}
					if !guardedBy(fn, add, neq) {
						okOrder = false
					}
				}
			}
		})
		c.ob(rule, fn, "the counter is incremented only while it differs from the last address", nil, inc > 0 && okOrder && len(eq) > 0, "first++ is reachable only through the first != last edge, so it never wraps past the range end")
	}
	c.note("%s: %d inclusive fixed-width loops found in non-generated module code", rule, n)
}

// C20 — decode validates.
func ruleConfigDecode(c *Ctx, rule string) {
	if fn := c.MustFn(rule, fipPkg, "fipCheck"); fn != nil {
		bad := narrowArithInOrdering(fn)
		n := 0
		allInstrs(fn, func(in ssa.Instruction) {
			if cmp, ok := in.(*ssa.BinOp); ok {
				switch cmp.Op {
				case token.LSS, token.LEQ, token.GTR, token.GEQ:
					if dependsOn(cmp, func(x ssa.Value) bool { return isResultOf(x, 0, netsPkg+".IPToInt") }) {
						n++
					}
				}
			}
		})
		c.ob(rule, fn, "IPToInt(prev.Last)+1 in ordering comparison", nil, len(bad) == 0 && n > 0,
			fmt.Sprintf("%d ordering comparison(s) over IPToInt values, %d of them with a 32-bit x±c operand (which wraps at 255.255.255.255)", n, len(bad)))
		// both ends of every range are tested against the pool subnet and a miss is an error
		cont := guardEdges(fn, negate(predCall("(*net.IPNet).Contains", nil)))
		ei := errResultIndex(fn)
		okC := len(cont) == 2
		ends := map[string]bool{}
		for _, e := range cont {
			iff := e.from.Instrs[len(e.from.Instrs)-1].(*ssa.If)
			_, p := fieldPath(iff.Cond.(*ssa.Call).Call.Args[1])
			if len(p) > 0 {
				ends[p[len(p)-1]] = true
			}
			r := reachFromEdge(e, nil)
			for _, ret := range returns(fn) {
				if r.has(ret) && !nonNilErrOperand(retVal(ret, ei), nil) {
					okC = false
				}
			}
			// nothing but the error return follows
			if r.has(iff) {
				okC = false
			}
		}
		c.ob(rule, fn, "both ends of every range must lie in the pool subnet", nil, okC && ends["First"] && ends["Last"], "the not-contained edges of First and Last reach only error returns")
		// the order test's "bad order" edge is an error
		ord := guardEdges(fn, func(v ssa.Value) (bool, int) {
			bo, ok := v.(*ssa.BinOp)
			if !ok || (bo.Op != token.LEQ && bo.Op != token.GEQ && bo.Op != token.LSS && bo.Op != token.GTR) {
				return false, 0
			}
			return dependsOn(bo, func(x ssa.Value) bool { return isResultOf(x, 0, netsPkg+".IPToInt") }), 0
		})
		okO := len(ord) >= 1
		for _, e := range ord {
			r := reachFromEdge(e, nil)
			for _, ret := range returns(fn) {
				if r.has(ret) && !nonNilErrOperand(retVal(ret, ei), nil) {
					okO = false
				}
			}
		}
		c.ob(rule, fn, "unsorted / mergeable / overlapping ranges are an error", nil, okO, "the `First(i) <= Last(i-1)+1` edge reaches only error returns")
		// the order test relates the START of a range to the END of the previous one
		okFL := false
		allInstrs(fn, func(in ssa.Instruction) {
			cmp, ok := in.(*ssa.BinOp)
			if !ok {
				return
			}
			switch cmp.Op {
			case token.LSS, token.LEQ, token.GTR, token.GEQ:
			default:
				return
			}
			has := func(v ssa.Value, f string) bool {
				return dependsOn(v, func(x ssa.Value) bool { return isFieldLoadNamed(x, f) || pathEndsWith(x, f) })
			}
			if (has(cmp.X, "First") && !has(cmp.X, "Last") && has(cmp.Y, "Last") && !has(cmp.Y, "First")) ||
				(has(cmp.Y, "First") && !has(cmp.Y, "Last") && has(cmp.X, "Last") && !has(cmp.X, "First")) {
				okFL = true
			}
		})
		c.ob(rule, fn, "the order test compares a range's First with the previous range's Last", nil, okFL, "one operand derives only from .First, the other only from .Last")
	}
	if fn := c.MustFn(rule, fipPkg, "(*FloatingIPPool).UnmarshalJSON"); fn != nil {
		fc := calls(fn, fipPkg+".fipCheck")
		ei := errResultIndex(fn)
		n, ok := 0, len(fc) == 1
		for _, ret := range returns(fn) {
			v := retVal(ret, ei)
			if len(fc) == 1 && v == fc[0].Value() {
				n++
				continue
			}
			if !nonNilErrOperand(v, nil) {
				// an err variable tested non-nil is fine
				okv := false
				for _, call := range calls(fn, "encoding/json.Unmarshal") {
					for _, ev := range errValues(call) {
						if ev == v {
							okv = true
						}
					}
				}
				if !okv {
					ok = false
				}
			}
		}
		c.ob(rule, fn, "a pool decodes successfully only through fipCheck", nil, ok && n == 1, "every return is an error, except the one that returns fipCheck(pool)")
		pr := calls(fn, netsPkg+".ParseIPRange")
		okP := len(pr) == 1
		if okP {
			nn := guardEdges(fn, predNeq(func(v ssa.Value) bool { return v == pr[0].Value() }, isNilConst))
			okP = len(nn) == 1
			if okP {
				r := reachFromEdge(edge{nn[0].from, 1 - nn[0].succ}, nil)
				k := 0
				for _, ret := range returns(fn) {
					if r.has(ret) {
						k++
						if !nonNilErrOperand(retVal(ret, ei), nil) {
							okP = false
						}
					}
				}
				if r.has(pr[0]) || k == 0 {
					okP = false // must not continue with the next range
				}
			}
		}
		c.ob(rule, fn, "an unparsable range rejects the whole pool", nil, okP, "the nil edge of ParseIPRange reaches only an error return (no skipping)")
		// mandatory fields
		for _, f := range []string{"Gateway", "Subnet"} {
			nilE := guardEdges(fn, predEq(func(v ssa.Value) bool { return pathEndsWith(v, f) }, isNilConst))
			okF := len(nilE) == 1
			if okF {
				r := reachFromEdge(nilE[0], nil)
				for _, ret := range returns(fn) {
					if r.has(ret) && !nonNilErrOperand(retVal(ret, ei), nil) {
						okF = false
					}
				}
			}
			c.ob(rule, fn, "missing "+strings.ToLower(f)+" is rejected", nil, okF, "the "+f+" == nil edge reaches only error returns")
		}
	}
	if fn := c.MustFn(rule, netsPkg, "ParseIPRange"); fn != nil {
		gt := guardEdges(fn, func(v ssa.Value) (bool, int) {
			bo, ok := v.(*ssa.BinOp)
			if !ok {
				return false, 0
			}
			isI := func(x ssa.Value) bool { return isResultOf(x, 0, netsPkg+".IPToInt") }
			if !isI(bo.X) || !isI(bo.Y) {
				return false, 0
			}
			switch bo.Op {
			case token.GTR:
				return true, 0
			case token.LEQ:
				return true, 1
			}
			return false, 0
		})
		ok := len(gt) == 1
		if ok {
			r := reachFromEdge(gt[0], nil)
			for _, ret := range returns(fn) {
				if r.has(ret) && !isNilConst(retVal(ret, 0)) {
					ok = false
				}
			}
		}
		c.ob(rule, fn, "a range with first > last is rejected", nil, ok, "the IPToInt(first) > IPToInt(last) edge returns nil")
		// unparsable ends are rejected
		nilIP := 0
		allInstrs(fn, func(in ssa.Instruction) {
			if call, ok := in.(*ssa.Call); ok && calleeName(call) == "net.ParseIP" {
				nilIP++
			}
		})
		c.ob(rule, fn, "both ends are parsed as addresses", nil, nilIP >= 3, fmt.Sprintf("%d net.ParseIP calls (first, last, single)", nilIP))
	}
}

// C18.R6 — paging parameters parsed from a request are clamped to a constant range before any arithmetic
// (page*size feeds a slice bound: without an upper bound it overflows to a negative index).
func rulePagingClamped(c *Ctx, rule string) {
	for _, name := range []string{"ParsePage", "ParseSize"} {
		fn := c.MustFn(rule, "pkg/utils/page", name)
		if fn == nil {
			continue
		}
		at := calls(fn, "strconv.Atoi")
		if len(at) != 1 {
			c.undecided(rule, fn, "strconv.Atoi", nil, "expected one Atoi call")
			continue
		}
		var raw ssa.Value
		for _, ref := range *at[0].Value().Referrers() {
			if ex, ok := ref.(*ssa.Extract); ok && ex.Index == 0 {
				raw = ex
			}
		}
		cmpConst := func(ops ...token.Token) []edge {
			// edges on which `raw OP const` is FALSE (i.e. the bound holds)
			return guardEdges(fn, func(v ssa.Value) (bool, int) {
				bo, ok := v.(*ssa.BinOp)
				if !ok || bo.X != raw {
					return false, 0
				}
				if _, isC := bo.Y.(*ssa.Const); !isC {
					return false, 0
				}
				for _, op := range ops {
					if bo.Op == op {
						return true, 1
					}
				}
				return false, 0
			})
		}
		upper := cmpConst(token.GTR, token.GEQ)
		lower := cmpConst(token.LSS, token.LEQ)
		// find the phi edges that carry the raw value to the return
		n, ok := 0, true
		var curRet *ssa.Return
		var visit func(v ssa.Value, seen map[ssa.Value]bool)
		visit = func(v ssa.Value, seen map[ssa.Value]bool) {
			if seen[v] {
				return
			}
			seen[v] = true
			if v == raw {
				// returned directly (early-return form): the return itself must lie behind both bounds
				n++
				if curRet == nil || !guardedBy(fn, curRet, upper) || !guardedBy(fn, curRet, lower) {
					ok = false
				}
				return
			}
			ph, isPhi := v.(*ssa.Phi)
			if !isPhi {
				return
			}
			for i, e := range ph.Edges {
				if e == raw {
					n++
					pred := ph.Block().Preds[i]
					// the edge itself may be the guard edge: test reachability of the phi block via this pred only
					// through both bounds: remove bound edges and see whether pred->phi is still reachable
					cutU := newCut().edge(upper...)
					cutL := newCut().edge(lower...)
					if predEdgeReachable(fn, pred, ph.Block(), cutU) || predEdgeReachable(fn, pred, ph.Block(), cutL) || len(upper) == 0 || len(lower) == 0 {
						ok = false
					}
				} else {
					visit(e, seen)
				}
			}
		}
		for _, ret := range returns(fn) {
			curRet = ret
			visit(retVal(ret, 0), map[ssa.Value]bool{})
		}
		c.ob(rule, fn, "parsed value is returned only when inside a constant range", at[0], ok && n > 0,
			fmt.Sprintf("the raw strconv.Atoi result reaches the return on %d merge edge(s), each only past a constant lower-bound and a constant upper-bound comparison (upper=%d lower=%d tests)", n, len(upper), len(lower)))
	}
}

// predEdgeReachable: can control flow from entry traverse the edge pred->succ under the cut?
func predEdgeReachable(fn *ssa.Function, pred, succ *ssa.BasicBlock, c *cut) bool {
	r := reachFromEntry(fn, c)
	if len(pred.Instrs) == 0 {
		return false
	}
	last := pred.Instrs[len(pred.Instrs)-1]
	if !r.has(last) {
		return false
	}
	for i, s := range pred.Succs {
		if s == succ && !c.edges[edge{pred, i}] {
			return true
		}
	}
	return false
}
