package main

import (
	"fmt"
	"go/constant"
	"go/types"
	"strings"

	"golang.org/x/tools/go/ssa"
)

const utilPkg = "pkg/ipam/schedulerplugin/util"
const apiPkg = "pkg/ipam/api"

// C11.R1 — both API handlers default an omitted appType to the statefulset prefix.
func ruleAppTypeDefault(c *Ctx, rule string) {
	sts, _ := c.constString(utilPkg, "StatefulsetPrefixKey")
	for _, name := range []string{"(*Controller).ListIPs", "(*Controller).ReleaseIPs"} {
		fn := c.MustFn(rule, apiPkg, name)
		if fn == nil {
			continue
		}
		ks := calls(fn, utilPkg+".NewKeyObj")
		if len(ks) != 1 {
			c.undecided(rule, fn, "NewKeyObj", nil, fmt.Sprintf("expected one NewKeyObj call, found %d", len(ks)))
			continue
		}
		v := callArgs(ks[0])[0]
		host := fn
		if ks[0].Parent() != fn {
			// the key is built in a helper from a parameter (struct): look at what the caller passes
			if w := throughStructParam(v); w != nil {
				v = w
			} else if w := throughParams(v); w != v {
				v = w
			}
		}
		if ins, isIns := v.(ssa.Instruction); isIns && ins.Parent() != nil {
			host = ins.Parent()
		}
		ph, isPhi := v.(*ssa.Phi)
		okDef, okConv := false, false
		if isPhi {
			for i, e := range ph.Edges {
				if s, ok := constStringVal(e); ok && s == sts {
					// the edge must come from the appType == "" branch
					pred := ph.Block().Preds[i]
					empty := guardEdges(host, predEq(func(x ssa.Value) bool {
						return pathEndsWith(x, "AppType") || isResultOf(x, 0, "(*Request).QueryParameter")
					}, func(x ssa.Value) bool { s, ok := constStringVal(x); return ok && s == "" }))
					if len(pred.Instrs) > 0 && guardedBy(host, pred.Instrs[0], empty) {
						okDef = true
					}
					// or the merge edge itself is the appType == "" edge (default assigned before the test)
					for _, e := range empty {
						if e.from == pred && e.from.Succs[e.succ] == ph.Block() {
							okDef = true
						}
					}
				}
				if isResultOf(e, 0, utilPkg+".GetAppTypePrefix") {
					okConv = true
				}
			}
		}
		// helper form: prefix := helper(appType) with `if appType == "" { return sts }; return GetAppTypePrefix(appType)`
		if call, isCall := v.(*ssa.Call); !isPhi && isCall {
			if h := helperOf(call, nil); h != nil && len(h.Params) >= 1 {
				empty := guardEdges(h, predEq(func(x ssa.Value) bool { _, isP := unspill(x).(*ssa.Parameter); return isP },
					func(x ssa.Value) bool { s, ok := constStringVal(x); return ok && s == "" }))
				allOK := true
				for _, ret := range returns(h) {
					rv := retVal(ret, 0)
					if s, ok := constStringVal(rv); ok && s == sts {
						if guardedBy(h, ret, empty) {
							okDef = true
						} else {
							allOK = false
						}
					} else if isResultOf(rv, 0, utilPkg+".GetAppTypePrefix") {
						okConv = true
					} else {
						allOK = false
					}
				}
				if !allOK {
					okDef = false
				}
			}
		}
		c.ob(rule, fn, "appTypePrefix default StatefulsetPrefixKey", ks[0], okDef && okConv,
			fmt.Sprintf("the prefix given to NewKeyObj is the constant %q on the appType==\"\" edge (found=%v) and GetAppTypePrefix(appType) otherwise (found=%v); a dead store of the default shows up as a missing phi", sts, okDef, okConv))
		// an unknown/empty prefix is rejected before a key is built
		rej := guardEdges(host, predEq(func(x ssa.Value) bool { return x == v }, func(x ssa.Value) bool { s, ok := constStringVal(x); return ok && s == "" }))
		okR := len(rej) > 0
		for _, e := range rej {
			if reachFromEdge(e, nil).has(ks[0]) {
				okR = false
			}
		}
		c.ob(rule, fn, "an empty prefix is rejected before a key is built", ks[0], okR, "NewKeyObj unreachable from the appTypePrefix == \"\" edge")
	}
}

// C11.R2 — list -> release closure of the app-type prefixes.
func rulePrefixRoundTrip(c *Ctx, rule string) {
	toType := c.MustFn(rule, utilPkg, "GetAppType")
	toPrefix := c.MustFn(rule, utilPkg, "GetAppTypePrefix")
	if toType == nil || toPrefix == nil {
		return
	}
	// the constant prefixes FormatKey can store
	fk := c.MustFn(rule, utilPkg, "FormatKey")
	prefixes := map[string]bool{}
	if fk != nil {
		allInstrs(fk, func(in ssa.Instruction) {
			if st, ok := in.(*ssa.Store); ok {
				if fa, ok := st.Addr.(*ssa.FieldAddr); ok && fieldName(fa.X.Type(), fa.Field) == "AppTypePrefix" {
					if s, ok := constStringVal(st.Val); ok {
						prefixes[s] = true
					} else {
						// a computed prefix must come from the canonicaliser the release API uses too
						call, _ := callOf(st.Val)
						c.ob(rule, fk, "a computed app-type prefix is GetAppTypePrefix(kind)", st, call != nil && nameMatch(calleeName(call), utilPkg+".GetAppTypePrefix"),
							"FormatKey stores either one of the prefix constants or the result of GetAppTypePrefix: key writer and release API canonicalise owner kinds with the same function")
					}
				}
			}
		})
	}
	// plus the image of GetAppTypePrefix on a representative custom kind
	if v, ok := evalConstFn(toPrefix, []constant.Value{constant.MakeString("TApp")}); ok {
		prefixes[constant.StringVal(v)] = true
	} else {
		c.undecided(rule, toPrefix, "constant folding", nil, "GetAppTypePrefix is outside the shape the constant folder supports (pure string function without loops)")
	}
	if len(prefixes) < 3 {
		c.undecided(rule, fk, "prefix constants", nil, fmt.Sprintf("expected at least 3 constant prefixes stored by FormatKey, found %d", len(prefixes)))
	}
	for _, p := range keys(prefixes) {
		t, ok1 := evalConstFn(toType, []constant.Value{constant.MakeString(p)})
		if !ok1 {
			c.undecided(rule, toType, "constant folding of GetAppType("+p+")", nil, "outside the supported shape")
			continue
		}
		back, ok2 := evalConstFn(toPrefix, []constant.Value{t})
		if !ok2 {
			c.undecided(rule, toPrefix, "constant folding of GetAppTypePrefix", nil, "outside the supported shape")
			continue
		}
		c.ob(rule, toPrefix, fmt.Sprintf("constant prefix %s is a fixed point of GetAppTypePrefix∘GetAppType", p), nil, constant.StringVal(back) == p,
			fmt.Sprintf("GetAppType(%q) folds to %s, GetAppTypePrefix of that folds to %s (the list API reports the former, the release API rebuilds the key from the latter)", p, t.ExactString(), back.ExactString()))
	}
}

// C11.R3 — one key codec: keys are built and parsed only in package util with agreeing separators.
func ruleKeyCodec(c *Ctx, rule string) {
	n := 0
	for _, fn := range c.SrcFns {
		allInstrs(fn, func(in ssa.Instruction) {
			st, ok := in.(*ssa.Store)
			if !ok {
				return
			}
			fa, ok := st.Addr.(*ssa.FieldAddr)
			if !ok || fieldName(fa.X.Type(), fa.Field) != "KeyInDB" || typeNameOf(fa.X.Type()) != "KeyObj" {
				return
			}
			n++
			c.ob(rule, fn, "KeyInDB written only by the key codec", st, fn.Pkg.Pkg.Path() == modPath+utilPkg, "stores to KeyObj.KeyInDB outside package util would fork the key format")
		})
	}
	if n == 0 {
		c.undecided(rule, nil, "KeyInDB stores", nil, "no store to KeyObj.KeyInDB found")
	}
	gen := c.MustFn(rule, utilPkg, "(*KeyObj).genKey")
	rp := c.MustFn(rule, utilPkg, "resolvePodKey")
	pk := c.MustFn(rule, utilPkg, "ParseKey")
	if gen == nil || rp == nil || pk == nil {
		return
	}
	// writer: the Sprintf format producing the pod key
	var fmts []string
	for _, call := range calls(gen, "fmt.Sprintf") {
		if s, ok := constStringVal(call.Common().Args[0]); ok {
			fmts = append(fmts, s)
		}
	}
	podFmt := ""
	for _, f := range fmts {
		if strings.Count(f, "%s") == 5 {
			podFmt = f
		}
	}
	// reader: strings.Split(key, sep) and the expected number of parts
	sep, want := "", int64(-1)
	for _, call := range calls(rp, "strings.Split") {
		sep, _ = constStringVal(call.Common().Args[1])
	}
	allInstrs(rp, func(in ssa.Instruction) {
		if bo, ok := in.(*ssa.BinOp); ok {
			if k, ok := constIntVal(bo.Y); ok {
				if call, ok := bo.X.(*ssa.Call); ok && calleeName(call) == "builtin.len" {
					want = k
				}
			}
		}
	})
	seps := strings.Count(podFmt, sep)
	// each app-type prefix carries exactly one separator at its end
	okP := true
	var pcs []string
	for _, name := range []string{"DeploymentPrefixKey", "StatefulsetPrefixKey", "NoRefAppTypePrefix"} {
		s, ok := c.constString(utilPkg, name)
		pcs = append(pcs, s)
		if !ok || sep == "" || strings.Count(s, sep) != 1 || !strings.HasSuffix(s, sep) {
			okP = false
		}
	}
	c.ob(rule, gen, "writer and parser agree on separator and number of parts", nil, sep != "" && podFmt != "" && okP && int64(seps+1+1) == want,
		fmt.Sprintf("genKey format %q has %d separators %q, each app-type prefix %v ends in exactly one, resolvePodKey expects %d parts", podFmt, seps, sep, pcs, want))
	// pool prefix constant: same constant at writer and parser
	pool, _ := c.constString(utilPkg, "poolPrefix")
	usesPool := func(fn *ssa.Function) bool {
		found := false
		allInstrsX(fn, func(in ssa.Instruction) { // the constant may be used through a shared same-package helper
			for _, op := range in.Operands(nil) {
				if *op != nil {
					if s, ok := constStringVal(*op); ok && s == pool {
						found = true
					}
				}
			}
			// varargs: constants stored into the interface slice
			if mi, ok := in.(*ssa.MakeInterface); ok {
				if s, ok := constStringVal(mi.X); ok && s == pool {
					found = true
				}
			}
		})
		return found
	}
	pp := c.MustFn(rule, utilPkg, "(*KeyObj).PoolPrefix")
	pa := c.MustFn(rule, utilPkg, "(*KeyObj).PoolAppPrefix")
	okPool := pool != "" && usesPool(gen) && usesPool(pk) && pp != nil && usesPool(pp) && pa != nil && usesPool(pa)
	c.ob(rule, pk, "pool prefix constant shared by genKey, PoolPrefix, PoolAppPrefix and ParseKey", nil, okPool, fmt.Sprintf("constant %q used at all four sites", pool))
	// ParseKey strips exactly the pool prefix it tested for
	hp := guardEdges(pk, predCall("strings.HasPrefix", func(call *ssa.Call) bool { s, ok := constStringVal(call.Call.Args[1]); return ok && s == pool }))
	c.ob(rule, pk, "ParseKey recognises pool keys by the pool prefix", nil, len(hp) == 1, "strings.HasPrefix(key, poolPrefix)")
	// the pool-name split keeps the remainder intact: SplitN(.., sep, 2)
	okSplit := false
	for _, call := range calls(pk, "strings.SplitN") {
		s, _ := constStringVal(call.Common().Args[1])
		k, _ := constIntVal(call.Common().Args[2])
		if s == sep && k == 2 {
			okSplit = true
		}
	}
	for _, call := range calls(pk, "strings.Cut") {
		if s, _ := constStringVal(call.Common().Args[1]); s == sep {
			okSplit = true // Cut is SplitN(.., sep, 2)
		}
	}
	c.ob(rule, pk, "pool name is split off with SplitN(.., sep, 2)", nil, okSplit, "the pod part of a pool key is not split further at this point")
	_ = types.Typ
}
