package main

func init() {
	register(&propDef{ID: "C05", Title: "Persisted FloatingIPs equal in-memory state; restart and crash safe",
		Explanation: "Decides necessary conditions of store/memory agreement on every path of every IPAM mutator: (R1) each in-memory mutation (table write, syncCacheAfter*, Assign on a table-resident object; sites computed by the lockset engine as W-accesses of cacheLock state) is reachable only through the err==nil edge of a store call and unreachable from any err!=nil edge; (R2) the multi-IP allocator rolls created objects back in a loop, returns a non-nil error, inserts into memory only after all creates and creates nothing before 'not enough ips'; (R3) ConfigurePool lists the store with cacheLock held in W; (R4) the FloatingIPSpec/Attr fields written by assign are exactly those restored by ConfigurePool/unmarshalAttr; (R5) a failed decode or failed ConfigurePool leaves the remembered configuration untouched. (R12) Bind queues a release event only for a pod that no longer exists (NotFound), never for a Conflict answer of an already bound pod; (R13) from the success edge of every createFloatingIP no nil-error return is reachable without syncCacheAfterCreate. Does not decide crash-at-any-point + restart + resync behaviour, nor agreement after a failed second store call inside a per-IP loop beyond per-iteration ordering. (R15 = C04.R8) a reload attaches every stored ip to the pool whose ranges contain it, trying every pool before calling it unconfigured.",
		Assumptions: []string{"paths are CFG paths (no feasibility reasoning)", "store = the generated FloatingIPInterface client reached through create/update/deleteFloatingIP"},
		Run: func(c *Ctx) {
			c.Rule("C05.R1", "store first, memory after, in every mutator (8 mutators)", 8)
			ruleStoreFirst(c, "C05.R1")
			c.Rule("C05.R2", "multi-IP rollback / memory after all creates / nothing created before ErrNoEnoughIP", 1)
			ruleMultiIPAllOrNothing(c, "C05.R2")
			c.Rule("C05.R3", "reload snapshot (store List) taken inside the cacheLock critical section", 1)
			ruleListUnderLock(c, "C05.R3")
			c.Rule("C05.R11", "store clone and memory update carry the same values", 1)
			ruleCloneMatchesAssign(c, "C05.R11")
			c.Rule("C05.R4", "persisted fields = restored fields (FloatingIPSpec, Attr)", 1)
			rulePersistRestoreAgree(c, "C05.R4")
			c.Rule("C05.R5", "reload is all-or-nothing at the caller", 1)
			ruleReloadAllOrNothing(c, "C05.R5")
			c.Rule("C05.R6", "lookup, store write and memory update in one critical section", 7)
			ruleOneCriticalSection(c, "C05.R6")
			c.Rule("C05.R9", "no error of the ipam / store / provider layer is silently dropped in galaxy-ipam", 60)
			ruleNoDroppedErrors(c, "C05.R9", []string{"pkg/ipam/floatingip", "pkg/ipam/schedulerplugin", "pkg/ipam/api"}, droppedErrExceptions)
			c.Rule("C05.R10", "UpdateAttr persists on every successful return", 1)
			ruleUpdateAttrAlwaysWrites(c, "C05.R10")
			c.Rule("C05.R12", "release events are queued only for pods that are gone (a bound pod keeps its ip across a crash-and-retry of bind)", 2)
			ruleReleaseEventsQueued(c, "C05.R12")
			c.Rule("C05.R13", "a successful store create is always followed by the cache update", 1)
			ruleCreateThenCache(c, "C05.R13")
			c.Rule("C05.R15", "a restart attaches every stored ip to the pool whose ranges contain it", 1)
			ruleReloadPoolMatch(c, "C05.R15")
			ruleReloadDeletesOnlyForeign(c, "C05.R15")
			c.Rule("C05.R14", "the object written to the store went through assign()", 2)
			ruleStoreWritesAssigned(c, "C05.R14")
			c.Rule("C05.R7", "an IP enters the allocated table only after the Create of that object succeeded (per object)", 1)
			ruleCreateBeforeCache(c, "C05.R7")
			c.Rule("C05.R8", "errors of the store client are returned by the store wrappers", 2)
			ruleStoreErrorsPropagate(c, "C05.R8")
		}})
	register(&propDef{ID: "C08", Title: "Multi-IP requests get one IP per range, all or nothing",
		Explanation: "Decides: (R1-R3 = C05.R2) rollback loop + non-nil error on a failed create, memory only after all creates, ErrNoEnoughIP unreachable after a create; (R4) a candidate is picked only if it is in the unallocated table, its pool lists the node subnet, and it was not chosen for an earlier range; (R5) in Bind the pod is bound only after allocateIP succeeded. (R9) the rollback loop reaches index 0 (ascending from 0 or descending while j >= 0), and a reload attaches a stored ip to the pool whose ranges contain it. Does not decide 'i-th IP in i-th range', result order, or partially pre-owned ranges (index arithmetic over runtime slices). (R10 = C04.R10) the UID refusal of allocateIP precedes every allocator call: a refused bind has allocated nothing. (R11) deleteFloatingIP has no return that does not pass the client's Delete and does not read the in-memory tables. (R12) on the requested-ranges side of getSubnet, a success return that does not go on to allocate returns a value that went through Intersection (helpers followed).",
		Assumptions: []string{"paths are CFG paths"},
		Run: func(c *Ctx) {
			c.Rule("C08.R1", "multi-IP rollback / memory after all creates / nothing created before ErrNoEnoughIP", 1)
			ruleMultiIPAllOrNothing(c, "C08.R1")
			c.Rule("C08.R4", "candidate guards in the range walk callback", 1)
			ruleCandidateGuards(c, "C08.R4")
			c.Rule("C08.R6", "reported ips are the lookup for the full request, in its order", 1)
			ruleReportedInRequestOrder(c, "C08.R6")
			c.Rule("C08.R7", "a store failure is a failure: errors of the store client are returned; memory is touched only after a successful store call; created objects are fresh copies of unallocated entries", 13)
			ruleStoreErrorsPropagate(c, "C08.R7")
			ruleStoreFirst(c, "C08.R7")
			ruleOnlyUnallocatedCreated(c, "C08.R7")
			c.Rule("C08.R10", "a bind refused by the UID guard has allocated nothing", 2)
			ruleUIDGuard(c, "C08.R10")
			c.Rule("C08.R12", "with requested ranges an early answer is the intersection over all held ips", 1)
			ruleEarlyExitIntersection(c, "C08.R12")
			c.Rule("C08.R11", "the store delete primitive is unconditional (rollback deletes are never refused)", 1)
			ruleStoreDeleteUnconditional(c, "C08.R11")
			c.Rule("C08.R9", "the rollback covers the first created object; a reload attaches stored ips to the pool whose ranges contain them", 1)
			ruleRollbackCoversFirst(c, "C08.R9")
			ruleReloadPoolMatch(c, "C08.R9")
			c.Rule("C08.R5", "no bind after a failed allocation", 1)
			ruleBindAfterAllocate(c, "C08.R5")
		}})
	register(&propDef{ID: "C09", Title: "Reserved and de-configured IPs are never allocated; reload is lossless",
		Explanation: "Decides: (R1) every object given to createFloatingIP is built by New from an entry read out of unallocatedFIPs (reserved objects live in allocatedFIPs, de-configured addresses in neither table); (R2 = C05.R3) the reload snapshot is taken inside the cacheLock critical section, so an allocation made while a reload is in progress is either in the snapshot or waits for the lock; (R3) the reservation watch handlers move only what they found, behind the reserved-label filter; (R4) reload queues for deletion only objects that no configured pool contains. (R11) a successful store create is always followed by the cache update, also when a reload replaced the tables in between. Does not decide 'drops exactly the others' as a set equality nor the reservation-vs-watch race beyond the store conflict (C01.R3). (R12) once one of FloatingIPs / allocatedFIPs / unallocatedFIPs has been assigned in ConfigurePool, no return is reachable before the other two are.",
		Assumptions: []string{"paths are CFG paths"},
		Run: func(c *Ctx) {
			c.Rule("C09.R1", "only unallocated entries are created", 2)
			ruleOnlyUnallocatedCreated(c, "C09.R1")
			c.Rule("C09.R2", "reload snapshot inside the critical section", 1)
			ruleListUnderLock(c, "C09.R2")
			c.Rule("C09.R3", "reservation handlers guarded", 3)
			ruleReservationHandlers(c, "C09.R3")
			c.Rule("C09.R4", "reload deletes only objects outside every configured pool", 1)
			ruleReloadDeletesOnlyForeign(c, "C09.R4")
			c.Rule("C09.R8", "objects collected for the cache insert / rollback are exactly those this call created (a colliding reserved object is never touched)", 3)
			ruleCreateBeforeCache(c, "C09.R8")
			ruleMultiIPAllOrNothing(c, "C09.R8")
			c.Rule("C09.R9", "a failed reload is retried: the configuration is remembered only after ConfigurePool succeeded", 1)
			ruleReloadAllOrNothing(c, "C09.R9")
			c.Rule("C09.R10", "table entries move only through the paired helpers (a reserved ip is not left in the free table)", 3)
			ruleTablesOnlyThroughHelpers(c, "C09.R10")
			c.Rule("C09.R12", "a reload publishes pools, allocated and unallocated table together", 3)
			ruleReloadPublishesTogether(c, "C09.R12")
			c.Rule("C09.R11", "a successful store create is always followed by the cache update (also when a reload ran in between)", 1)
			ruleCreateThenCache(c, "C09.R11")
			c.Rule("C09.R5", "a store Create conflict (IP reserved but not yet seen) is returned, never absorbed", 2)
			ruleStoreErrorsPropagate(c, "C09.R5")
			c.Rule("C09.R6", "mutators keep lookup, store write and memory update in one critical section (a concurrent reload cannot interleave)", 7)
			ruleOneCriticalSection(c, "C09.R6")
			c.Rule("C09.R7", "tables only under the cache lock", 21)
			ruleGuardedBy(c, "C09.R7", []string{cacheLockID}, 15)
		}})
}

// errors deliberately ignored, one line of reason each (function -> callee)
var droppedErrExceptions = map[string]string{
	"(*@/pkg/ipam/schedulerplugin.FloatingIPPlugin).releaseIP -> ByKeyAndIPRanges": "the only implementation (crdIpam.ByKeyAndIPRanges) always returns a nil error and an empty result is handled; the variable is overwritten by the next call",
}
