package main

import (
	"fmt"
	"go/token"
	"go/types"
	"strings"

	"golang.org/x/tools/go/ssa"
)

// ---------- C01.R17 / C20.R9 ----------

// ruleRangeBoundsInclusive — membership is tested against the bounds themselves, and both bounds are inclusive: in the Contains
// functions every ordering comparison between the queried address and a range bound is one of `ip >= First`, `ip < First`,
// `ip <= Last`, `ip > Last` (either operand order). `ip >= Last` / `ip < Last` drop the last address, a bound computed by
// 32-bit arithmetic (First + Size) wraps at 255.255.255.255.
func ruleRangeBoundsInclusive(c *Ctx, rule string) {
	n := 0
	for _, it := range []struct{ pkg, name string }{{"pkg/utils/nets", "(IPRange).Contains"}, {fipPkg, "(*FloatingIPPool).Contains"}} {
		fn := c.MustFn(rule, it.pkg, it.name)
		if fn == nil {
			continue
		}
		ipParam := pAt(fn, 1)
		kind := func(v ssa.Value) string {
			dep := func(field string) bool {
				return dependsOnLocal(v, func(x ssa.Value) bool {
					if fa, ok := x.(*ssa.FieldAddr); ok && fieldName(fa.X.Type(), fa.Field) == field {
						return true
					}
					if f, ok := x.(*ssa.Field); ok && fieldName(f.X.Type(), f.Field) == field {
						return true
					}
					return false
				})
			}
			arith := false
			dependsOnLocal(v, func(x ssa.Value) bool {
				if bo, ok := x.(*ssa.BinOp); ok && (bo.Op == token.ADD || bo.Op == token.SUB) {
					arith = true
				}
				if call, ok := x.(*ssa.Call); ok && strings.HasSuffix(calleeName(call), ".Size") {
					arith = true
				}
				return false
			})
			isIP := ipParam != nil && dependsOnLocal(v, func(x ssa.Value) bool { return x == ssa.Value(ipParam) })
			f, l := dep("First"), dep("Last")
			switch {
			case arith:
				return "computed"
			case isIP && !f && !l:
				return "ip"
			case f && !l && !isIP:
				return "first"
			case l && !f && !isIP:
				return "last"
			}
			return "other"
		}
		for _, g := range append([]*ssa.Function{fn}, helperFns(fn, 1)...) {
			if g != fn && bareName(g) == "Contains" {
				continue // the range's own Contains is judged on its own
			}
			allInstrs(g, func(in ssa.Instruction) {
				bo, ok := in.(*ssa.BinOp)
				if !ok {
					return
				}
				switch bo.Op {
				case token.LSS, token.LEQ, token.GTR, token.GEQ:
				default:
					return
				}
				if b, isB := bo.X.Type().Underlying().(*types.Basic); !isB || b.Kind() != types.Uint32 {
					return
				}
				kx, ky := kind(bo.X), kind(bo.Y)
				if kx != "ip" && ky != "ip" {
					return
				}
				n++
				op := bo.Op
				if ky == "ip" { // mirror to ip OP bound
					kx, ky = ky, kx
					switch op {
					case token.LSS:
						op = token.GTR
					case token.LEQ:
						op = token.GEQ
					case token.GTR:
						op = token.LSS
					case token.GEQ:
						op = token.LEQ
					}
				}
				good := (ky == "first" && (op == token.GEQ || op == token.LSS)) || (ky == "last" && (op == token.LEQ || op == token.GTR))
				c.ob(rule, fn, "address compared with an inclusive bound", bo, good, fmt.Sprintf("ip %s <%s bound>: only `>= First`, `< First`, `<= Last`, `> Last` agree with the inclusive enumeration First..Last and with Size", op, ky))
			})
		}
	}
	if n == 0 {
		c.undecided(rule, nil, "bound comparisons of the Contains functions", nil, "none found")
	}
}

// ---------- C02.R15 / C07.R9 ----------

// ruleInformersStartedThenAwaited — the listers the release decisions and the pool size read ("not in the lister" = "does not
// exist") are complete before the first request or resync: StartInformers starts every factory and then waits for its caches
// with the process's own stop channel (no bounded wait, no wait before the start).
func ruleInformersStartedThenAwaited(c *Ctx, rule string) {
	fn := c.MustFn(rule, "pkg/ipam/context", "(*IPAMContext).StartInformers")
	if fn == nil {
		return
	}
	starts := calls(fn, "SharedInformerFactory).Start")
	waits := calls(fn, "SharedInformerFactory).WaitForCacheSync")
	if len(starts) == 0 || len(waits) == 0 {
		c.undecided(rule, fn, "Start / WaitForCacheSync", nil, fmt.Sprintf("found %d starts and %d waits", len(starts), len(waits)))
		return
	}
	recvField := func(ci ssa.CallInstruction) string {
		_, path := fieldPath(recvOf(ci))
		return strings.Join(path, ".")
	}
	stop := pAt(fn, 1)
	waited := map[string]bool{}
	for _, w := range waits {
		f := recvField(w)
		waited[f] = true
		var same []ssa.Instruction
		for _, s := range starts {
			if recvField(s) == f {
				same = append(same, s)
			}
		}
		okOrder := len(same) > 0 && precedes(w.Parent(), same, w)
		okStop := stop != nil && len(callArgs(w)) > 0 && sameParam(callArgs(w)[0], stop)
		c.ob(rule, fn, "cache of "+f+" awaited after its start, until it has synced", w, okOrder && okStop, fmt.Sprintf("Start of the same factory precedes WaitForCacheSync on every path (%v) and the wait ends only with the process's stop channel (%v)", okOrder, okStop))
	}
	for _, s := range starts {
		if f := recvField(s); !waited[f] {
			c.ob(rule, fn, "cache of "+f+" awaited", s, false, "the factory is started but its caches are never waited for")
		}
	}
}

// ---------- C03.R13 ----------

// ruleSyncAdoptsRunningOnly — the pod-ip sync (re)allocates the ip in a pod's annotation only for a Running pod: a finished pod whose
// object lingers must not get back the ip that its finish event released.
func ruleSyncAdoptsRunningOnly(c *Ctx, rule string) {
	fn := c.MustFn(rule, spPkg, "(*FloatingIPPlugin).syncPodIP")
	if fn == nil {
		return
	}
	ms := calls(fn, "(*FloatingIPPlugin).syncIP", "IPAM).AllocateSpecificIP")
	if len(ms) == 0 {
		c.undecided(rule, fn, "syncIP / AllocateSpecificIP", nil, "no adopting call found")
		return
	}
	running := guardEdgesX(fn, predEq(func(v ssa.Value) bool { return pathEndsWith(v, "Phase") }, func(v ssa.Value) bool {
		s, ok := constStringVal(v)
		return ok && s == "Running"
	}))
	for _, m := range ms {
		host := siteIn(fn, m)
		if host == nil {
			host = m
		}
		c.ob(rule, fn, "an ip is adopted only for a Running pod", m, len(running) > 0 && !reachFromEntry(fn, newCut().edge(running...)).has(host), shortCallee(m)+" is reachable only through the `Status.Phase == Running` edge (Pending, Succeeded, Failed and Unknown pods are left alone)")
	}
}

// ---------- C05.R16 / C04.R17 ----------

// ruleNotRunningOnlyFromAPIAnswer — podRunning says "not running" only on the strength of the API server's answer: every `return false`
// lies behind the not-running result of the classifier applied to the object (and error) the API server returned, or behind the
// empty-name test. An API error other than NotFound is classified as running by the classifier itself.
func ruleNotRunningOnlyFromAPIAnswer(c *Ctx, rule string) {
	fn := c.MustFn(rule, spPkg, "(*FloatingIPPlugin).podRunning")
	if fn == nil {
		return
	}
	api := callsLocal(fn, "PodInterface).Get")
	cls := callsLocal(fn, spPkg+".runningAndUidMatch")
	if len(api) == 0 || len(cls) == 0 {
		c.note("%s: podRunning no longer has the lister-then-API shape with a shared classifier; the inline form is judged by the fail-safe liveness rule", rule)
		c.ob(rule, fn, "liveness classifier shape", nil, true, "no shared classifier call: decided by the fail-safe liveness rule")
		return
	}
	var apiCls *ssa.Call
	for _, cl := range cls {
		call, ok := cl.(*ssa.Call)
		if !ok {
			continue
		}
		for _, a := range call.Call.Args {
			if dependsOnLocal(a, func(x ssa.Value) bool { return x == api[0].Value() }) {
				apiCls = call
			}
		}
	}
	if apiCls == nil {
		c.ob(rule, fn, "the API server's answer is classified", api[0], false, "no classifier call takes the result of Pods().Get")
		return
	}
	notRun := guardEdges(fn, negate(predBool(func(v ssa.Value) bool {
		ex, ok := v.(*ssa.Extract)
		return ok && ex.Tuple == ssa.Value(apiCls) && ex.Index == 0
	})))
	empty := guardEdges(fn, predEq(func(v ssa.Value) bool { _, ok := v.(*ssa.Parameter); return ok }, func(v ssa.Value) bool { s, ok := constStringVal(v); return ok && s == "" }))
	r := reachFromEntry(fn, newCut().edge(notRun...).edge(empty...))
	for _, ret := range returns(fn) {
		if b, isC := constBoolVal(retVal(ret, 0)); isC && !b {
			c.ob(rule, fn, "`not running` rests on the API server's answer", ret, !r.has(ret) && len(notRun) > 0, "the return is reachable only through the not-running result of the classifier applied to what Pods().Get returned (an API error other than NotFound keeps the ip)")
		}
	}
}

// ---------- C06.R13 ----------

// ruleHeldIPPinsSubnets — a pod that already holds an ip (no ranges requested) is offered the node subnets of that ip and nothing else:
// from the `len(<lookup result>) > 0` edge on the no-ranges side neither the fresh-allocation path nor another answer is
// reachable, whatever uid the record carries.
func ruleHeldIPPinsSubnets(c *Ctx, rule string) {
	fn := c.MustFn(rule, spPkg, "(*FloatingIPPlugin).getSubnet")
	if fn == nil {
		return
	}
	look := calls(fn, "IPAM).ByKeyAndIPRanges")
	fresh := append(calls(fn, "(*FloatingIPPlugin).getAvailableSubnet"), calls(fn, "(*FloatingIPPlugin).allocateDuringFilter")...)
	if len(look) != 1 || len(fresh) == 0 {
		c.undecided(rule, fn, "lookup / fresh allocation path", nil, "expected calls not found")
		return
	}
	var res ssa.Value
	for _, ref := range *look[0].Value().Referrers() {
		if ex, ok := ref.(*ssa.Extract); ok && ex.Index == 0 {
			res = ex
		}
	}
	holds := guardEdges(fn, func(v ssa.Value) (bool, int) {
		bo, ok := v.(*ssa.BinOp)
		if !ok {
			return false, 0
		}
		call, ok := bo.X.(*ssa.Call)
		if !ok {
			return false, 0
		}
		if b, isB := call.Call.Value.(*ssa.Builtin); !isB || b.Name() != "len" || call.Call.Args[0] != res {
			return false, 0
		}
		if k, isC := constIntVal(bo.Y); !isC || k != 0 {
			return false, 0
		}
		switch bo.Op {
		case token.GTR, token.NEQ:
			return true, 0
		case token.EQL, token.LEQ:
			return true, 1
		}
		return false, 0
	})
	if len(holds) == 0 {
		c.undecided(rule, fn, "len(<held ips>) > 0", nil, "the test for an already held ip was not found")
		return
	}
	for _, e := range holds {
		r := reachFromEdge(e, nil)
		c.ob(rule, fn, "a held ip pins the pod to its node subnets", lastInstr(e.from), r.anyCall(fresh) == nil, "from the `pod already holds an ip` edge the fresh-allocation path (getAvailableSubnet / allocateDuringFilter) is unreachable: the pod is offered only nodes from which the held ip is routable")
	}
}

// ---------- C08.R13 / C06.R14 ----------

// ruleNodeAddressIsInternal — filter and bind place a node by its InternalIP: getNodeIP returns an address only behind
// `Type == NodeInternalIP`.
func ruleNodeAddressIsInternal(c *Ctx, rule string) {
	fn := c.MustFn(rule, spPkg, "getNodeIP")
	if fn == nil {
		return
	}
	internal := guardEdges(fn, predEq(func(v ssa.Value) bool { return pathEndsWith(v, "Type") }, func(v ssa.Value) bool {
		s, ok := constStringVal(v)
		return ok && s == "InternalIP"
	}))
	ps := calls(fn, "net.ParseIP")
	if len(ps) == 0 || len(internal) == 0 {
		c.ob(rule, fn, "the node address is the InternalIP", nil, false, "no `Type == NodeInternalIP` test or no parsed address in getNodeIP")
		return
	}
	for _, p := range ps {
		c.ob(rule, fn, "the node address is the InternalIP", p, guardedBy(fn, p, internal), "the address handed to net.ParseIP is reachable only through the `Addresses[i].Type == InternalIP` edge: the node subnet filter and bind compute is the one the pools' nodeSubnets are written for")
	}
}

// ---------- C09.R13 ----------

// ruleReloadListsFromAPI — a reload rebuilds the tables from the store itself: listFloatingIPs has no success return that does not
// pass the client's List (an informer cache lags this process's own writes).
func ruleReloadListsFromAPI(c *Ctx, rule string) {
	fn := c.MustFn(rule, fipPkg, "(*crdIpam).listFloatingIPs")
	if fn == nil {
		return
	}
	ls := calls(fn, "FloatingIPInterface).List")
	if len(ls) == 0 {
		c.ob(rule, fn, "reload lists from the API server", nil, false, "no FloatingIPs().List call")
		return
	}
	ei := errResultIndex(fn)
	r := reachFromEntry(fn, newCut().callInstrs(ls))
	ok := true
	for _, ret := range returns(fn) {
		if r.has(ret) && !retCertainlyErr(ret, ei) {
			ok = false
		}
	}
	c.ob(rule, fn, "reload lists from the API server", ls[0], ok, "every success return of listFloatingIPs passes FloatingIPs().List: no lister / cache answer")
}

// ---------- C11.R11 ----------

// rulePageNumberAsGiven — the page window is computed from the page number the client sent: Pagination never replaces it (a page
// beyond the end is empty, so the windows of pages 0,1,2,.. partition the list).
func rulePageNumberAsGiven(c *Ctx, rule string) {
	fn := c.MustFn(rule, "pkg/utils/page", "Pagination")
	if fn == nil {
		return
	}
	page := pAt(fn, 0)
	if page == nil {
		c.undecided(rule, fn, "page parameter", nil, "not found")
		return
	}
	bad := false
	allInstrs(fn, func(in ssa.Instruction) {
		ph, ok := in.(*ssa.Phi)
		if !ok {
			return
		}
		has, other := false, false
		for _, e := range ph.Edges {
			if e == ssa.Value(page) {
				has = true
			} else {
				other = true
			}
		}
		if has && other {
			bad = true
		}
	})
	for _, call := range calls(fn, "pkg/utils/page.paginationResult") {
		if call.Parent() == fn && len(call.Common().Args) > 0 && call.Common().Args[0] != ssa.Value(page) {
			bad = true
		}
	}
	c.ob(rule, fn, "the page number is used as given", nil, !bad, "no merge of the page parameter with another value, and the window computation receives the parameter itself")
}

// ---------- C13.R13 ----------

// ruleFreshArgsMap — every NetworkInfo owns its args map: the Args field is initialised with a freshly made map, never with a
// package-level one (the daemon writes each pod's ipinfos into it).
func ruleFreshArgsMap(c *Ctx, rule string) {
	n := 0
	for _, fn := range c.SrcFns {
		if fn.Pkg == nil || isGenerated(fn) || !strings.HasPrefix(fn.Pkg.Pkg.Path(), modPath+"pkg/") {
			continue
		}
		allInstrs(fn, func(in ssa.Instruction) {
			st, ok := in.(*ssa.Store)
			if !ok {
				return
			}
			fa, ok := st.Addr.(*ssa.FieldAddr)
			if !ok || namedStructName(fa.X.Type()) != "NetworkInfo" || fieldName(fa.X.Type(), fa.Field) != "Args" {
				return
			}
			n++
			shared := dependsOnLocal(st.Val, func(x ssa.Value) bool { _, isG := x.(*ssa.Global); return isG })
			c.ob(rule, fn, "NetworkInfo.Args is a map of its own", st, !shared, "the map stored into Args does not come from a package-level variable: the common args of one pod (ipinfos) cannot show up in another pod's plugin invocation")
		})
	}
	if n == 0 {
		c.undecided(rule, nil, "initialisation of NetworkInfo.Args", nil, "no store to the field found")
	}
}

// ---------- C14.R13 ----------

// ruleNoReturnInsidePortLoop — a failed setup leaves no port open: the per-port loop of OpenHostports is left only by running out or by
// a break to the code that closes what was opened so far; there is no return inside the loop.
func ruleNoReturnInsidePortLoop(c *Ctx, rule string) {
	fn := c.MustFn(rule, pmPkg, "(*PortMappingHandler).OpenHostports")
	if fn == nil {
		return
	}
	op := calls(fn, pmPkg+".openLocalPort")
	if len(op) == 0 {
		c.undecided(rule, fn, "openLocalPort", nil, "call not found")
		return
	}
	at := siteIn(fn, op[0])
	if at == nil {
		c.undecided(rule, fn, "openLocalPort", op[0], "not reached through one static call")
		return
	}
	hdr := loopHeaderOf(at)
	if hdr == nil {
		c.undecided(rule, fn, "per-port loop", at, "the open is not inside a loop")
		return
	}
	var bad ssa.Instruction
	// closing a socket (in place or in a helper) is what makes a direct error return from the loop acceptable
	var closes []ssa.Instruction
	isClose := func(in ssa.Instruction) bool {
		x, ok := in.(ssa.CallInstruction)
		return ok && x.Common().IsInvoke() && x.Common().Method.Name() == "Close"
	}
	allInstrs(fn, func(in ssa.Instruction) {
		if isClose(in) {
			// a closing loop: passing its header counts (nothing to close on the zero-iteration path)
			if h := loopHeaderOf(in); h != nil && h != hdr && !naturalLoop(hdr)[h] {
				closes = append(closes, h.Instrs[0])
			} else {
				closes = append(closes, in)
			}
		}
	})
	for _, h := range helperFns(fn, 2) {
		has := false
		allInstrs(h, func(in ssa.Instruction) {
			if isClose(in) {
				has = true
			}
		})
		if has {
			for _, cs := range staticSites[h] {
				closes = append(closes, cs)
			}
		}
	}
	loop := naturalLoop(hdr)
	// where the loop goes when it has run out: the successor of the header outside the loop
	var post *ssa.BasicBlock
	for _, s := range hdr.Succs {
		if !loop[s] {
			post = s
		}
	}
	for b := range loop {
		if b == hdr {
			continue
		}
		for k, s := range b.Succs {
			if loop[s] || s == post {
				continue
			}
			// an edge that leaves the loop somewhere else: it must join the code after the loop before any return
			cu := newCut().instr(closes...)
			if post != nil {
				cu.instr(post.Instrs[0])
			}
			r := reachFromEdge(edge{b, k}, cu)
			for _, ret := range returns(fn) {
				if r.has(ret) {
					bad = ret
				}
			}
		}
	}
	c.ob(rule, fn, "no return from inside the per-port loop without closing", bad, bad == nil, "every way out of the loop that opens the sockets leads to the code after it or passes the closing of what this call opened before it returns (the sockets exist only in a local map until then)")
}

// ---------- C14.R14 / C08.R14 ----------

// ruleLoopVarClosureEscapes — the module is built with go 1.18 semantics (one variable per loop, not per iteration): a closure that
// captures a variable assigned in every iteration must not outlive the iteration (stored, appended, deferred, started as a
// goroutine) — when it runs it sees the last iteration's value.
func ruleLoopVarClosureEscapes(c *Ctx, rule string, pkgs ...string) {
	n := 0
	for _, fn := range c.SrcFns {
		if fn.Pkg == nil || isGenerated(fn) {
			continue
		}
		in := false
		for _, p := range pkgs {
			if strings.HasSuffix(fn.Pkg.Pkg.Path(), p) {
				in = true
			}
		}
		if !in {
			continue
		}
		allInstrs(fn, func(ins ssa.Instruction) {
			mc, ok := ins.(*ssa.MakeClosure)
			if !ok {
				return
			}
			hdr := loopHeaderOf(mc)
			if hdr == nil {
				return
			}
			loop := naturalLoop(hdr)
			for o := outerLoopHeader(hdr); o != nil; o = outerLoopHeader(o) {
				for b := range naturalLoop(o) {
					loop[b] = true
				}
			}
			// captured cells that live across iterations and are written in the loop
			var carried []string
			for _, b := range mc.Bindings {
				a, isAlloc := b.(*ssa.Alloc)
				if !isAlloc || loop[a.Block()] {
					continue
				}
				for _, ref := range *a.Referrers() {
					if st, isSt := ref.(*ssa.Store); isSt && st.Addr == ssa.Value(a) && loop[st.Block()] {
						carried = append(carried, a.Comment)
						break
					}
				}
			}
			if len(carried) == 0 {
				return
			}
			n++
			escapes := ""
			for _, ref := range *mc.Referrers() {
				switch r := ref.(type) {
				case *ssa.Store:
					escapes = "stored"
				case *ssa.MapUpdate:
					escapes = "stored in a map"
				case *ssa.Defer:
					if r.Call.Value == ssa.Value(mc) {
						escapes = "deferred"
					}
				case *ssa.Go:
					escapes = "started as a goroutine"
				case *ssa.MakeInterface, *ssa.ChangeType:
					// handed on as a value: followed one step
					for _, r2 := range *r.(ssa.Value).Referrers() {
						if _, isSt := r2.(*ssa.Store); isSt {
							escapes = "stored"
						}
					}
				}
			}
			c.ob(rule, fn, "closure over the loop variable(s) "+strings.Join(carried, ", ")+" does not outlive the iteration", mc, escapes == "", "the closure is only called or passed to a call inside the iteration; "+escapes)
		})
	}
	if n == 0 {
		c.ob(rule, nil, "closures over loop variables", nil, true, "no closure in the examined packages captures a variable that is assigned in every iteration of its loop")
	}
}

// ---------- C15.R11 / C15.R12 ----------

// ruleEveryPolicyMatched — which policies select a pod is decided by matching every policy's selector: filterMatchingPolicies has no
// return that does not pass the loop over the policies (an empty selector selects a pod without labels too).
func ruleEveryPolicyMatched(c *Ctx, rule string) {
	fn := c.MustFn(rule, polPkg, "filterMatchingPolicies")
	if fn == nil {
		return
	}
	ms := calls(fn, "Selector).Matches")
	if len(ms) == 0 {
		c.undecided(rule, fn, "selector match", nil, "no Selector.Matches call")
		return
	}
	hdr := loopHeaderOf(ms[0])
	if hdr == nil || ms[0].Parent() != fn {
		c.undecided(rule, fn, "loop over the policies", ms[0], "the selector match is not inside a loop of filterMatchingPolicies")
		return
	}
	for o := outerLoopHeader(hdr); o != nil; o = outerLoopHeader(o) {
		hdr = o
	}
	r := reachFromEntry(fn, newCut().instr(hdr.Instrs[0]))
	var early ssa.Instruction
	for _, ret := range returns(fn) {
		if r.has(ret) {
			early = ret
		}
	}
	c.ob(rule, fn, "every policy is matched against the pod", early, early == nil, "no return of filterMatchingPolicies is reachable without passing the loop over the policies: no shortcut on a property of the pod (such as having no labels)")
}

// ruleListEntriesVerbatim — the members of a set are reported as the kernel prints them: ListEntries appends the lines of the
// `Members:` section unchanged (the sync compares them with `entry + options`, so a stripped flag such as nomatch makes every
// re-sync delete the entry it just added).
func ruleListEntriesVerbatim(c *Ctx, rule string) {
	fn := c.MustFn(rule, "pkg/utils/ipset", "(*runner).ListEntries")
	if fn == nil {
		return
	}
	n := 0
	allInstrs(fn, func(in ssa.Instruction) {
		call, ok := isBuiltinCall(in, "append")
		if !ok || len(call.Call.Args) < 2 || loopHeaderOf(call) == nil {
			return
		}
		n++
		// what is appended: a plain element of a split by "\n"
		var bad ssa.Value
		dependsOnLocal(call.Call.Args[1], func(x ssa.Value) bool {
			cl, ok := x.(*ssa.Call)
			if !ok {
				return false
			}
			cn := calleeName(cl)
			if !strings.HasPrefix(cn, "strings.") && !strings.HasPrefix(cn, "bytes.") {
				return false
			}
			if nameMatch(cn, "strings.Split") && len(cl.Call.Args) == 2 {
				if s, isC := constStringVal(cl.Call.Args[1]); isC && s == "\n" {
					return false
				}
			}
			if nameMatch(cn, "strings.TrimSpace") || nameMatch(cn, "strings.TrimRight") || nameMatch(cn, "strings.TrimSuffix") {
				return false // trailing white space / CR only
			}
			bad = x
			return true
		})
		c.ob(rule, fn, "members are listed as printed", call, bad == nil, "the appended member is a whole line of the Members section (split by newline only): per-member extensions such as `nomatch` or `timeout` stay part of the entry string")
	})
	if n == 0 {
		c.undecided(rule, fn, "result appends", nil, "no append in a loop")
	}
}

// ---------- C17.R7 ----------

// ruleCRIErrorsUnwrapped — the collector classifies CRI errors by their gRPC status (NotFound = gone): every client interceptor
// installed on the CRI connection returns the invoker's error as it is.
func ruleCRIErrorsUnwrapped(c *Ctx, rule string) {
	n, opts := 0, 0
	for _, fn := range c.SrcFns {
		if fn.Pkg == nil || !strings.HasSuffix(fn.Pkg.Pkg.Path(), "pkg/api/docker") {
			continue
		}
		for _, call := range callsLocal(fn, "grpc.WithTransportCredentials", "grpc.WithContextDialer", "grpc.WithDefaultCallOptions", "grpc.WithConnectParams", "grpc.WithInsecure", "grpc.WithBlock") {
			_ = call
			opts++
		}
		for _, call := range callsLocal(fn, "grpc.WithUnaryInterceptor", "grpc.WithChainUnaryInterceptor") {
			for _, a := range call.Common().Args {
				var icp *ssa.Function
				switch x := stripConv(a).(type) {
				case *ssa.Function:
					icp = x
				case *ssa.MakeClosure:
					icp, _ = x.Fn.(*ssa.Function)
				}
				if icp == nil {
					n++
					c.ob(rule, fn, "CRI client interceptor returns the call's error unchanged", call, false, "the interceptor is not a function of this module that can be examined")
					continue
				}
				n++
				ok := true
				ei := errResultIndex(icp)
				for _, ret := range returns(icp) {
					v := retVal(ret, ei)
					if isNilConst(v) {
						continue
					}
					// the error of the invoker call, directly or through one variable
					fromInvoker := false
					if call2, _ := callOf(v); call2 != nil {
						if _, isParam := call2.Call.Value.(*ssa.Parameter); isParam {
							fromInvoker = true
						}
					}
					if ph, isPhi := v.(*ssa.Phi); isPhi {
						fromInvoker = true
						for _, e := range ph.Edges {
							c2, _ := callOf(e)
							_, isParam := (func() (ssa.Value, bool) {
								if c2 == nil {
									return nil, false
								}
								p, ok := c2.Call.Value.(*ssa.Parameter)
								return p, ok
							})()
							if !isNilConst(e) && !isParam {
								fromInvoker = false
							}
						}
					}
					if !fromInvoker {
						ok = false
					}
				}
				c.ob(rule, fn, "CRI client interceptor returns the call's error unchanged", call, ok, fnName(icp)+" returns nil or exactly what the invoker returned: status.FromError still sees the gRPC status of the runtime's answer")
			}
		}
	}
	if n == 0 {
		c.ob(rule, nil, "CRI connection has no client interceptor", nil, opts > 0, fmt.Sprintf("%d dial options examined in pkg/api/docker, none of them an interceptor: errors of the runtime reach shouldCleanup as gRPC status errors", opts))
	}
}

// ---------- C19.R12 ----------

// ruleRunnerRunUnderMutex — the iptables runner builds every command line from its shared wait-flag slice: each call of
// (*runner).run happens with runner.mu held (directly, or in an unexported helper that is only called with it held).
func ruleRunnerRunUnderMutex(c *Ctx, rule string) {
	n := 0
	var heldThrough func(fn *ssa.Function, at ssa.Instruction, d int) bool
	heldThrough = func(fn *ssa.Function, at ssa.Instruction, d int) bool {
		if ok, _ := heldAt(c, fn, at, "runner.mu"); ok {
			return true
		}
		if d > 3 || fn.Object() == nil || fn.Object().Exported() || len(staticSites[fn]) == 0 {
			return false
		}
		for _, cs := range staticSites[fn] {
			if !heldThrough(cs.Parent(), cs, d+1) {
				return false
			}
		}
		return true
	}
	for _, fn := range c.SrcFns {
		if fn.Pkg == nil || !strings.HasSuffix(fn.Pkg.Pkg.Path(), "pkg/utils/iptables") {
			continue
		}
		for _, call := range callsLocal(fn, "(*runner).run") {
			n++
			c.ob(rule, fn, "iptables command built and run under the runner's mutex", call, heldThrough(fn, call, 0), "runner.mu is held at the call of run (or at every call of the unexported helper that makes it): concurrent operations never append to the shared wait-flag slice at the same time")
		}
	}
	if n == 0 {
		c.undecided(rule, nil, "calls of (*runner).run", nil, "none found")
	}
}

func ruleLoopVarClosureEscapesIPAM(c *Ctx, rule string) {
	ruleLoopVarClosureEscapes(c, rule, fipPkg, spPkg, "pkg/ipam/api")
}

func ruleLoopVarClosureEscapesPorts(c *Ctx, rule string) {
	ruleLoopVarClosureEscapes(c, rule, pmPkg, galaxyPkg, "pkg/gc", polPkg)
}

// ---------- C06.R15 / C08.R15 ----------

// ruleIntersectionSeededOnce — the node subnets common to all requested ranges (or to all held ips) are accumulated by
// intersection, seeded by the first element only. Whether an element is the first one is decided by a flag or an index, never
// by the accumulator being empty: an empty intersection is a result (no node serves all of them), and re-seeding it with the
// next element's subnets makes filter offer nodes on which bind cannot serve the earlier ranges.
func ruleIntersectionSeededOnce(c *Ctx, rule string) {
	n := 0
	for _, it := range []struct{ pkg, name string }{{fipPkg, "(*crdIpam).NodeSubnetsByIPRanges"}, {spPkg, "(*FloatingIPPlugin).getSubnet"}} {
		fn := c.MustFn(rule, it.pkg, it.name)
		if fn == nil {
			continue
		}
		for _, f := range append([]*ssa.Function{fn}, helperFns(fn, 1)...) {
			for _, ic := range callsLocal(f, "sets.String).Intersection") {
				call, ok := ic.(*ssa.Call)
				if !ok {
					continue
				}
				// whether the result is restricted to a set is not decided by that set being empty: an empty set of
				// node subnets common to the held ips means that no node can route all of them, not that nothing is held
				if args := callArgs(call); len(args) == 1 {
					var skipped *ssa.If
					for _, iff := range controllingIfs(call) {
						bo, isBo := iff.Cond.(*ssa.BinOp)
						if !isBo {
							continue
						}
						lc, isCall := bo.X.(*ssa.Call)
						if !isCall || !nameMatch(calleeName(lc), "sets.String).Len") {
							continue
						}
						if k, isC := constIntVal(bo.Y); !isC || k != 0 {
							continue
						}
						if r := recvOf(lc); r == args[0] || sameAccessOrValue(r, args[0]) {
							skipped = iff
						}
					}
					n++
					c.ob(rule, fn, "a restriction to a computed set applies when that set is empty too", call, skipped == nil, "the Intersection is not skipped on `<its argument>.Len() == 0`: an empty set of common node subnets is a result (no node routes all of them), not the absence of a restriction")
				}
				if loopHeaderOf(call) == nil {
					continue
				}
				n++
				var bad *ssa.If
				for _, iff := range controllingIfs(call) {
					bo, isBo := iff.Cond.(*ssa.BinOp)
					if !isBo {
						continue
					}
					lc, isCall := bo.X.(*ssa.Call)
					if !isCall || !nameMatch(calleeName(lc), "sets.String).Len") {
						continue
					}
					if k, isC := constIntVal(bo.Y); !isC || k != 0 {
						continue
					}
					// the set whose emptiness is tested is the accumulator the intersection is taken of
					if acc, recv := recvOf(lc), recvOf(call); acc == recv || sameAccessOrValue(acc, recv) {
						bad = iff
					}
				}
				c.ob(rule, fn, "the accumulated intersection is seeded by the first element only", call, bad == nil, "whether to seed or to intersect is not decided by `<accumulator>.Len() == 0`: an intersection that became empty stays empty for the remaining elements")
				// seeding by `index == 0` is right only if no element is skipped before the test: with a skip path through the
				// loop body, the first element that takes part may have another index and is then intersected with nothing
				hdr := loopHeaderOf(call)
				for _, iff := range controllingIfs(call) {
					bo, isBo := iff.Cond.(*ssa.BinOp)
					if !isBo || (bo.Op != token.EQL && bo.Op != token.NEQ) {
						continue
					}
					if k, isC := constIntVal(bo.Y); !isC || k != 0 {
						continue
					}
					if b, isB := bo.X.Type().Underlying().(*types.Basic); !isB || b.Info()&types.IsInteger == 0 {
						continue
					}
					if _, isLen := bo.X.(*ssa.Call); isLen {
						continue
					}
					skip := false
					for k := range hdr.Succs {
						if !naturalLoop(hdr)[hdr.Succs[k]] {
							continue
						}
						if reachFromEdge(edge{hdr, k}, newCut().instr(iff)).has(hdr.Instrs[0]) {
							skip = true
						}
					}
					c.ob(rule, fn, "index-based seeding only where no element is skipped", iff, !skip, "the `index == 0` test that chooses between seeding and intersecting lies on every path through the loop body: the element with index 0 is the first one that takes part")
				}
			}
		}
	}
	if n == 0 {
		c.undecided(rule, nil, "intersection loops of the filter", nil, "no Intersection call inside a loop found in NodeSubnetsByIPRanges / getSubnet")
	}
}

// ---------- C10.R14 ----------

// ruleUnassignCoversKeyWideEffects — clearing node / uid (reserveIP(key, key)), re-keying and freeing act on EVERY ip of the key. Where
// such a key-wide effect follows an unassign, the unassign must have covered every ip of the key as well: its request is built
// from the elements of a key-wide lookup (ByKeyAndIPRanges(key, nil)), not from the one record being handled — otherwise the
// second ip of a multi-ip pod loses its node record (or is freed) while the provider still has it assigned.
func ruleUnassignCoversKeyWideEffects(c *Ctx, rule string) {
	n := 0
	keyWide := []string{"(*FloatingIPPlugin).reserveIP", "(*FloatingIPPlugin).releaseIP", "(*FloatingIPPlugin).unbindDpPod", "(*FloatingIPPlugin).unbindNoneDpPod"}
	for _, fn := range c.SrcFns {
		if fn.Pkg == nil || !strings.HasSuffix(fn.Pkg.Pkg.Path(), spPkg) {
			continue
		}
		for _, u := range callsLocal(fn, "(*FloatingIPPlugin).cloudProviderUnAssignIP") {
			// the function in which the effect follows: fn itself, or the caller of fn when fn is an unassign helper
			site, host := ssa.CallInstruction(u), fn
			var effects []ssa.CallInstruction
			for d := 0; d < 2; d++ {
				effects = nil
				for _, e := range callsLocal(host, keyWide...) {
					if c.reachAfter(site, nil).has(e) {
						effects = append(effects, e)
					}
				}
				if len(effects) > 0 || len(staticSites[host]) != 1 {
					break
				}
				site, host = staticSites[host][0], staticSites[host][0].Parent()
			}
			if len(effects) == 0 {
				// also through every caller when the helper has several
				for _, cs := range staticSites[fn] {
					for _, e := range callsLocal(cs.Parent(), keyWide...) {
						if c.reachAfter(cs, nil).has(e) {
							effects = append(effects, e)
						}
					}
				}
			}
			if len(effects) == 0 {
				continue
			}
			n++
			req := callArgs(u)[0]
			fromKeyLookup := dependsOn(req, func(x ssa.Value) bool {
				call, _ := callOf(x)
				if call == nil || !nameMatch(calleeName(call), "IPAM).ByKeyAndIPRanges") {
					return false
				}
				a := callArgs(call)
				return len(a) == 2 && isNilConst(a[1])
			})
			// the looked-up list reaches the loop whole: a re-slice of it on the way drops ips of the key
			resliced := dependsOn(req, func(x ssa.Value) bool {
				sl, ok := x.(*ssa.Slice)
				if !ok {
					return false
				}
				st, ok := sl.X.Type().Underlying().(*types.Slice)
				return ok && strings.HasSuffix(st.Elem().String(), "FloatingIPInfo")
			})
			c.ob(rule, fn, "an unassign that is followed by a key-wide effect covers every ip of the key", u, fromKeyLookup && !resliced && loopHeaderOf(u) != nil,
				"the request of cloudProviderUnAssignIP is built from an element of ByKeyAndIPRanges(key, nil), inside the loop over that result, which is not re-sliced on the way; "+shortCallee(effects[0])+" afterwards acts on all ips of the key")
		}
	}
	if n == 0 {
		c.undecided(rule, nil, "unassign calls followed by key-wide effects", nil, "none found")
	}
}
