package main

func init() {
	register(&propDef{ID: "C17", Title: "GC removes only dead containers' state, and eventually all of it",
		Explanation: "Decides: (R1) every remover call in package gc (IP reservation file, state/port file incl. the port-clean callback, veth link) is reachable only through the true edge of shouldCleanup for the same directory entry / link, and os.Remove appears only inside the removers; (R2) shouldCleanup returns true only through one of the classifier edges grpc NotFound / apierrors.IsNotFound / ContainerNotFoundError / status exited|dead / SANDBOX_NOTREADY, never from another error edge of an inspect or pod lookup, never for a sandbox with a waiting or running container, and never without asking the runtime; (R3) the docker wrapper asks the daemon on every call (no local short-circuit), classifies not-found only after the context error was excluded and builds ContainerNotFoundError only on that edge; the containerd wrapper returns the runtime's error as is. (R5) the port-clean callback removes a container's port file only after CleanPortMapping succeeded; (R4) the three collectors leave their scan loop only when it is exhausted (no return or break inside: an unreadable directory or failing entry does not starve the rest), and the container id cleanupIP asks about is the reservation file's content up to the first \\n. Does not decide 'everything is removed within a bounded number of rounds' beyond these two and the every-call-asks condition. (R6) NewFlannelGC and the helpers it calls perform no file-system query and store lists derived from the flags: which configured directories exist is decided anew in every round. (R7) every unary client interceptor installed in pkg/api/docker returns nil or exactly what the invoker returned; with none installed the dial options are listed as examined. (R8) no return of removeLeakyStateFile bypasses os.Remove.",
		Assumptions: []string{"CFG paths; classifier edges identified by callee / constant / asserted type"},
		Run: func(c *Ctx) {
			c.Rule("C17.R8", "a dead container's state file is removed whether or not the port clean-up succeeded", 1)
			ruleStateFileRemovedRegardless(c, "C17.R8")
			c.Rule("C17.R1", "deletion only behind the fail-safe decision; runtime asked on every call", 8)
			ruleGC(c, "C17.R1")
			c.Rule("C17.R7", "errors of the CRI client reach the classifier with their gRPC status", 1)
			ruleCRIErrorsUnwrapped(c, "C17.R7")
			c.Rule("C17.R6", "the collector's directory lists are a function of the configuration only", 2)
			ruleGCDirsFromConfig(c, "C17.R6")
			c.Rule("C17.R5", "the gc's port-clean callback forgets a container's ports only after its rules were removed", 1)
			ruleHostPortOwnership(c, "C17.R5")
			c.Rule("C17.R4", "every directory and link is scanned every round; the id asked about is the first line of the file", 2)
			ruleGCScansEverything(c, "C17.R4")
		}})
}
