package main

// E5 — shared-configuration immutability: field-based, flow-insensitive, interprocedural alias taint of the maps that
// hang off a long-lived object (Galaxy.netConf elements, JsonConf.NetworkConf elements). A MapUpdate/delete on a
// value that may alias one of them is a write to configuration shared by all requests.

import (
	"go/token"
	"go/types"
	"strings"

	"golang.org/x/tools/go/ssa"
)

type taintSrc struct {
	Type, Field string
	Whole       bool // the field value itself is the shared map (not its elements)
}

type taintResult struct {
	vals   map[ssa.Value]string // value -> why
	fields map[*types.Var]bool
	sinks  []ssa.Instruction
	outerW []ssa.Instruction // writes to the source container itself
	reads  int
}

func isMapType(t types.Type) bool { _, ok := t.Underlying().(*types.Map); return ok }

func runSharedMapTaint(c *Ctx, srcs []taintSrc) *taintResult {
	r := &taintResult{vals: map[ssa.Value]string{}, fields: map[*types.Var]bool{}}
	isSrcField := func(fa *ssa.FieldAddr) bool {
		tn, fnm := typeNameOf(fa.X.Type()), fieldName(fa.X.Type(), fa.Field)
		for _, s := range srcs {
			if !s.Whole && s.Type == tn && s.Field == fnm {
				return true
			}
		}
		return false
	}
	isWholeSrc := func(fa *ssa.FieldAddr) bool {
		tn, fnm := typeNameOf(fa.X.Type()), fieldName(fa.X.Type(), fa.Field)
		for _, s := range srcs {
			if s.Whole && s.Type == tn && s.Field == fnm {
				return true
			}
		}
		return false
	}
	isSrcContainer := func(v ssa.Value) bool {
		ld, ok := v.(*ssa.UnOp)
		if !ok || ld.Op != token.MUL {
			return false
		}
		fa, ok := ld.X.(*ssa.FieldAddr)
		return ok && isSrcField(fa)
	}
	type pkey struct {
		fn  *ssa.Function
		idx int
	}
	params := map[pkey]bool{}
	results := map[pkey]bool{}
	cells := map[*ssa.Alloc]bool{}
	add := func(v ssa.Value, why string) bool {
		if v == nil || !isMapType(v.Type()) && !isIface(v.Type()) {
			return false
		}
		if _, ok := r.vals[v]; ok {
			return false
		}
		r.vals[v] = why
		return true
	}
	la := c.locks()
	for changed, iter := true, 0; changed && iter < 30; iter++ {
		changed = false
		for _, fn := range c.SrcFns {
			for i, p := range fn.Params {
				if params[pkey{fn, i}] && add(p, "parameter receiving a shared map") {
					changed = true
				}
			}
			allInstrs(fn, func(in ssa.Instruction) {
				switch x := in.(type) {
				case *ssa.Lookup:
					if isSrcContainer(x.X) {
						if x.CommaOk {
							// tuple: taint extracts
							for _, ref := range *x.Referrers() {
								if ex, ok := ref.(*ssa.Extract); ok && ex.Index == 0 && add(ex, "element of the shared configuration map") {
									changed = true
								}
							}
						} else if add(x, "element of the shared configuration map") {
							changed = true
						}
					}
				case *ssa.UnOp:
					if x.Op != token.MUL {
						return
					}
					// local cell: all loads of a cell from which a tainted value was loaded / into which one was stored alias
					if a, ok := x.X.(*ssa.Alloc); ok {
						if _, t := r.vals[x]; t && !cells[a] {
							cells[a] = true
							changed = true
						}
						if cells[a] && add(x, "local variable that holds a shared map") {
							changed = true
						}
					}
					if ia, ok := x.X.(*ssa.IndexAddr); ok && isSrcContainer(ia.X) {
						if add(x, "element of the shared configuration slice") {
							changed = true
						}
					}
					if fa, ok := x.X.(*ssa.FieldAddr); ok && isWholeSrc(fa) && !la.isFresh(fa.X) {
						if add(x, "the shared "+fieldName(fa.X.Type(), fa.Field)+" set of a "+typeNameOf(fa.X.Type())) {
							changed = true
						}
					}
					if fa, ok := x.X.(*ssa.FieldAddr); ok {
						if fv := fieldVar(fa.X.Type(), fa.Field); fv != nil && r.fields[fv] {
							if add(x, "load of field "+fv.Name()+" that holds a shared map") {
								changed = true
							}
						}
					}
				case *ssa.Next:
					if rg, ok := x.Iter.(*ssa.Range); ok && isSrcContainer(rg.X) {
						for _, ref := range *x.Referrers() {
							if ex, ok := ref.(*ssa.Extract); ok && ex.Index == 2 && add(ex, "element of the shared configuration map (range)") {
								changed = true
							}
						}
					}
				case *ssa.Phi:
					for _, e := range x.Edges {
						if _, ok := r.vals[e]; ok && add(x, "merge") {
							changed = true
						}
					}
				case *ssa.ChangeType:
					if _, ok := r.vals[x.X]; ok && add(x, "conversion") {
						changed = true
					}
				case *ssa.MakeInterface:
					if _, ok := r.vals[x.X]; ok && add(x, "conversion") {
						changed = true
					}
				case *ssa.Extract:
					if call, ok := x.Tuple.(*ssa.Call); ok {
						for _, g := range la.calleesOf(call) {
							if results[pkey{g, x.Index}] && add(x, "result of "+fnName(g)) {
								changed = true
							}
						}
					}
				case *ssa.Call:
					for _, g := range la.calleesOf(x) {
						if results[pkey{g, 0}] && g.Signature.Results().Len() == 1 && add(x, "result of "+fnName(g)) {
							changed = true
						}
						cc := x.Common()
						off := 0
						if cc.IsInvoke() {
							off = 1
						}
						for ai, a := range cc.Args {
							if _, ok := r.vals[a]; ok && ai+off < len(g.Params) && !params[pkey{g, ai + off}] {
								params[pkey{g, ai + off}] = true
								changed = true
							}
						}
					}
				case *ssa.Return:
					for i := range x.Results {
						v := retVal(x, i)
						if _, ok := r.vals[v]; ok && !results[pkey{fn, i}] {
							results[pkey{fn, i}] = true
							changed = true
						}
					}
				case *ssa.Store:
					if _, ok := r.vals[x.Val]; ok {
						if a, ok := x.Addr.(*ssa.Alloc); ok && !cells[a] {
							cells[a] = true
							changed = true
						}
						if fa, ok := x.Addr.(*ssa.FieldAddr); ok {
							if fv := fieldVar(fa.X.Type(), fa.Field); fv != nil && !r.fields[fv] && !isSrcField(fa) {
								r.fields[fv] = true
								changed = true
							}
						}
					}
				case *ssa.MapUpdate:
					// storing a map INTO the shared container makes it an element
					if isSrcContainer(x.Map) {
						if add(x.Value, "stored into the shared configuration map") {
							changed = true
						}
					}
				}
			})
		}
	}
	for _, fn := range c.SrcFns {
		allInstrs(fn, func(in ssa.Instruction) {
			switch x := in.(type) {
			case *ssa.MapUpdate:
				if _, ok := r.vals[x.Map]; ok {
					r.sinks = append(r.sinks, x)
				}
				if isSrcContainer(x.Map) {
					r.outerW = append(r.outerW, x)
				}
			case *ssa.Lookup:
				if isSrcContainer(x.X) {
					r.reads++
				}
			case ssa.CallInstruction:
				if n := calleeName(x); strings.Contains(n, "util/sets.") && (strings.HasSuffix(n, ").Insert") || strings.HasSuffix(n, ").Delete")) {
					if rv := recvOf(x); rv != nil {
						if _, ok := r.vals[rv]; ok {
							r.sinks = append(r.sinks, x)
						}
					}
				}
				if b, ok := x.Common().Value.(*ssa.Builtin); ok && b.Name() == "delete" {
					if _, ok := r.vals[x.Common().Args[0]]; ok {
						r.sinks = append(r.sinks, x)
					}
					if isSrcContainer(x.Common().Args[0]) {
						r.outerW = append(r.outerW, x)
					}
				}
			case *ssa.Store:
				if fa, ok := x.Addr.(*ssa.FieldAddr); ok && isSrcField(fa) && !la.isFresh(fa.X) {
					r.outerW = append(r.outerW, x)
				}
			}
		})
	}
	return r
}

func isIface(t types.Type) bool { _, ok := t.Underlying().(*types.Interface); return ok }

// callersClosure: all functions from which fn is (transitively, statically) called.
func callersOf(c *Ctx, target *ssa.Function) map[*ssa.Function]bool {
	la := c.locks()
	rev := map[*ssa.Function][]*ssa.Function{}
	for _, fn := range c.SrcFns {
		for _, gs := range la.info[fn].callees {
			for _, g := range gs {
				rev[g] = append(rev[g], fn)
			}
		}
	}
	out := map[*ssa.Function]bool{}
	work := []*ssa.Function{target}
	for len(work) > 0 {
		f := work[len(work)-1]
		work = work[:len(work)-1]
		for _, p := range rev[f] {
			if !out[p] {
				out[p] = true
				work = append(work, p)
			}
		}
	}
	return out
}

// C12.R4 — the static per-network configuration is never written after Init.
func ruleSharedConfImmutable(c *Ctx, rule string) {
	res := runSharedMapTaint(c, []taintSrc{{Type: "Galaxy", Field: "netConf"}, {Type: "JsonConf", Field: "NetworkConf"}, {Type: "Galaxy", Field: "NetworkConf"}})
	c.note("%s: %d values may alias a shared configuration map, %d fields hold one, %d lookups of the shared table", rule, len(res.vals), len(res.fields), res.reads)
	if res.reads == 0 {
		c.undecided(rule, nil, "reads of Galaxy.netConf", nil, "no lookup in the shared configuration table found: the rule no longer sees how configuration is handed out")
	}
	for _, s := range res.sinks {
		var m ssa.Value
		switch x := s.(type) {
		case *ssa.MapUpdate:
			m = x.Map
		case ssa.CallInstruction:
			m = x.Common().Args[0]
		}
		construct := "map update on a map aliasing Galaxy.netConf[..]"
		if mu, ok := s.(*ssa.MapUpdate); ok {
			if k, ok := constStringVal(mu.Key); ok {
				construct = "map update Conf[\"" + k + "\"] on a map aliasing Galaxy.netConf[..]"
			}
		}
		c.ob(rule, s.Parent(), construct, s, false, "write to a map that may be an element of the configuration shared by all requests ("+res.vals[m]+")")
	}
	// every hand-out of configuration is a copy: the functions that look the table up return untainted values
	for _, fn := range c.SrcFns {
		looks := false
		allInstrs(fn, func(in ssa.Instruction) {
			if lk, ok := in.(*ssa.Lookup); ok {
				if ld, ok := lk.X.(*ssa.UnOp); ok {
					if fa, ok := ld.X.(*ssa.FieldAddr); ok && typeNameOf(fa.X.Type()) == "Galaxy" && fieldName(fa.X.Type(), fa.Field) == "netConf" && isMapType(lk.Type()) || lk.CommaOk && ok && typeNameOf(fa.X.Type()) == "Galaxy" && fieldName(fa.X.Type(), fa.Field) == "netConf" {
						looks = true
					}
				}
			}
		})
		if !looks {
			continue
		}
		leaks := false
		for _, ret := range returns(fn) {
			for i := range ret.Results {
				if _, ok := res.vals[retVal(ret, i)]; ok {
					leaks = true
				}
			}
		}
		if fn.Name() == "checkNetworkConf" {
			continue
		}
		c.ob(rule, fn, "configuration is handed out as a copy", nil, !leaks || len(res.sinks) == 0, "no returned value aliases an element of Galaxy.netConf, or nothing downstream writes to it")
	}
	// the table itself is written only on the way from Init
	initFn := c.MustFn(rule, "pkg/galaxy", "(*Galaxy).Init")
	for _, w := range res.outerW {
		fn := w.Parent()
		cs := callersOf(c, fn)
		ok := fn == initFn || fn.Name() == "NewGalaxy"
		if !ok && initFn != nil && cs[initFn] {
			// every root caller chain must pass Init: all direct callers are Init or init-only
			ok = true
			for p := range cs {
				if p != initFn && !callersOf(c, p)[initFn] && p.Name() != "Start" && p.Name() != "main" && !callersOf(c, initFn)[p] {
					ok = false
				}
			}
		}
		c.ob(rule, fn, "shared configuration table written only during Init", w, ok, "writes to Galaxy.netConf / NetworkConf happen only in functions reached from Init (before the server starts)")
	}
	if len(res.sinks) == 0 {
		c.ob(rule, nil, "no write to a map aliasing the shared configuration", nil, true, "alias taint from Galaxy.netConf elements reaches no MapUpdate/delete in the module")
	}
}
