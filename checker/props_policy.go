package main

func init() {
	register(&propDef{ID: "C15", Title: "Network-policy sync converges and leaves foreign rules alone",
		Explanation: "Decides: (R1) ordering — ipsets are created before the rules referencing them, a failed creation submits nothing, stale sets are destroyed only from the deferred clean-up (after the rules were rewritten); every policy whose chain is written by writeRules is marked active in the same iteration (so the next sync cannot `-X` a live, rule-less policy's chain); syncIptables returns nil only after the iptables restore (no short-cut for an empty policy list: the stale-chain deletion is in that batch); (R4) no goroutine started by the sync receives a closure variable or the address of a local that is assigned again after the go statement; stale ipset entries are scanned for every set whose entries could be listed; SyncPodChains ensures the basic chains before its batch, declares the pod chain it fills and adds the jump only after the restore succeeded; the policy event handlers run policies -> rules -> pods on add/update and policies -> pods -> rules on delete (flattened through same-package straight-line helpers); (R2) ownership — DestroySet only behind HasPrefix(name, NamePrefix) and not-in-new-map, `-X` only behind HasPrefix(chain, policyChainPrefix) and not-active, Flush/DeleteChain only on podChainName(pod), keyword deletes only in galaxy's chains, restores never flush the table; (R3) PolicyManager.policies only under the manager mutex and never modified in place. Does not decide convergence from arbitrary prior state nor idempotence (a fixed point over kernel state). (R1, extended) a branching policy handler is decided by paths: each of the three syncs lies on every path to a return, in order. (R8) sibling agreement of the two walks over a policy's peer tables: the conditions other than nil tests that decide a registration in initIPSetMap equal those that decide a by-name reference in the rule writer (both empty today). (R9) every value appended to the policy list in syncNetworkPolices is built from policyResult(..) of this run. (R10) no success return of ensureBasicChain is reachable without each EnsureRule call (a call inside a loop over a rule table: without passing the loop). (R11) no return of filterMatchingPolicies is reachable without passing the loop over the policies. (R12) ListEntries appends whole lines of the split by newline (TrimSpace tolerated), no further split. (R13) EnsureRule and DeleteRule on the same chain get the same rule (same value, or element-wise equal slice literals). (R14) formatCidr derives its result from the *IPNet of ParseCIDR, not from the address.",
		Assumptions: []string{"CFG paths; iptables lines identified by their constant words and the provenance of the chain operand"},
		Run: func(c *Ctx) {
			c.Rule("C15.R15", "a pod event touches sets of its own namespace only", 1)
			rulePodEventSetsOfOwnNamespace(c, "C15.R15")
			c.Rule("C15.R13", "the jump rule deleted from a chain is the one added to it", 1)
			ruleJumpRuleAddedAndDeletedAlike(c, "C15.R13")
			c.Rule("C15.R14", "a set member is the masked network", 1)
			ruleCidrMasked(c, "C15.R14")
			c.Rule("C15.R1", "ordering and ownership of policy sync", 12)
			rulePolicySync(c, "C15.R1")
			c.Rule("C15.R11", "every policy is matched against the pod", 1)
			ruleEveryPolicyMatched(c, "C15.R11")
			c.Rule("C15.R12", "set members are listed as the kernel prints them", 1)
			ruleListEntriesVerbatim(c, "C15.R12")
			c.Rule("C15.R9", "a full sync compiles every listed policy anew", 1)
			ruleFullSyncRecompiles(c, "C15.R9")
			c.Rule("C15.R10", "ensureBasicChain ensures every jump rule on every successful call", 1)
			ruleBasicChainAlwaysEnsuresRules(c, "C15.R10")
			c.Rule("C15.R8", "sets registered = sets referenced by the rules (same skip conditions on both walks)", 1)
			ruleSetRegistrationAgrees(c, "C15.R8")
			c.Rule("C15.R4", "goroutines of the sync share no variable / address that is written after they started (each gets its own pod)", 5)
			ruleGoClosureCaptures(c, "C15.R4")
			c.Rule("C15.R3", "policies only under the manager mutex; never modified in place", 14)
			ruleGuardedBy(c, "C15.R3", []string{"PolicyManager.Mutex"}, 2)
			ruleNoInPlaceSliceReuse(c, "C15.R3")
		}})
}
