package main

import (
	"fmt"
	"go/token"
	"strings"

	"golang.org/x/tools/go/ssa"
)

// C06.R8 — filter's subnet computation: a requested range without a free ip vetoes the pod (the answer is the empty set),
// and after the allocation made during filter the pod is offered exactly the subnet the ip was taken from
func ruleFilterSubnetAnswers(c *Ctx, rule string) {
	if fn := c.MustFn(rule, fipPkg, "(*crdIpam).NodeSubnetsByIPRanges"); fn != nil {
		// edges on which a per-range candidate set is empty
		empt := guardEdges(fn, func(v ssa.Value) (bool, int) {
			bo, ok := v.(*ssa.BinOp)
			if !ok || bo.Op != token.EQL {
				return false, 0
			}
			call, ok := bo.X.(*ssa.Call)
			if !ok || !nameMatch(calleeName(call), "sets.Int).Len") {
				return false, 0
			}
			if n, isC := constIntVal(bo.Y); !isC || n != 0 {
				return false, 0
			}
			return true, 0
		})
		ok := len(empt) >= 1
		for _, e := range empt {
			r := reachFromEdge(e, nil)
			any := false
			for _, ret := range returns(fn) {
				if !r.has(ret) {
					continue
				}
				any = true
				call, _ := callOf(retVal(ret, 0))
				if call == nil || !nameMatch(calleeName(call), "sets.NewString") || !isNilConst(call.Call.Args[0]) {
					ok = false
				}
			}
			if !any {
				ok = false
			}
		}
		c.ob(rule, fn, "a requested range without a free ip yields the empty subnet set", nil, ok, "from the `candidates.Len() == 0` edge of a range every reachable return gives sets.NewString(): no node is offered when one of the k ranges cannot be served")
	}
	if fn := c.MustFn(rule, spPkg, "(*FloatingIPPlugin).getSubnet"); fn != nil {
		al := calls(fn, "(*FloatingIPPlugin).allocateDuringFilter")
		if len(al) != 1 {
			c.undecided(rule, fn, "allocateDuringFilter", nil, "expected one call")
			return
		}
		sub := argNamed(al[0], "reserveSubnet", 3)
		if sub == nil {
			sub = argNamed(al[0], "subnet", 3)
		}
		if sub == nil {
			c.undecided(rule, fn, "subnet argument of allocateDuringFilter", al[0], "the argument naming the subnet of the allocation was not found")
			return
		}
		ets := errTests(al[0])
		ok := len(ets) > 0
		why := ""
		for _, et := range ets {
			r := reachFromEdge(et.OkEdge, nil)
			for _, ret := range returns(fn) {
				if !r.has(ret) {
					continue
				}
				rv := retVal(ret, 0)
				// a merge with the path that did not allocate: take the inputs that arrive from the region after the call
				if ph, isPhi := rv.(*ssa.Phi); isPhi {
					var in []ssa.Value
					for i, pred := range ph.Block().Preds {
						if (len(pred.Instrs) > 0 && r.has(pred.Instrs[len(pred.Instrs)-1])) || (pred == et.OkEdge.from && pred.Succs[et.OkEdge.succ] == ph.Block()) {
							in = append(in, ph.Edges[i])
						}
					}
					if len(in) == 1 {
						rv = in[0]
					}
				}
				call, _ := callOf(rv)
				if call == nil || !nameMatch(calleeName(call), "sets.NewString") {
					ok, why = false, "the returned set is not a fresh sets.NewString(..)"
					continue
				}
				// the variadic slice holds exactly the subnet handed to allocateDuringFilter
				n, same := 0, true
				if sl, isSl := call.Call.Args[0].(*ssa.Slice); isSl {
					if arr, isA := sl.X.(*ssa.Alloc); isA {
						for _, ref := range *arr.Referrers() {
							if ia, isIA := ref.(*ssa.IndexAddr); isIA {
								for _, r2 := range *ia.Referrers() {
									if st, isSt := r2.(*ssa.Store); isSt {
										n++
										if st.Val != sub {
											same = false
										}
									}
								}
							}
						}
					}
				}
				if n != 1 || !same {
					ok, why = false, "the returned set is not {the subnet the allocation was made in}"
				}
			}
		}
		c.ob(rule, fn, "after allocating during filter the pod is offered exactly the subnet of that allocation", al[0], ok, "every return reachable from the success edge of allocateDuringFilter(.., reserveSubnet, ..) returns sets.NewString(reserveSubnet) "+why)
	}
}

// C07.R4 — a pool object defines the size, whatever its value: once the Pool was found, getDpReplicas answers (pool.Size, true)
func rulePoolFoundDefinesSize(c *Ctx, rule string) {
	fn := c.MustFn(rule, spPkg, "(*FloatingIPPlugin).getDpReplicas")
	if fn == nil {
		return
	}
	get := calls(fn, "PoolNamespaceLister).Get")
	if len(get) != 1 {
		c.undecided(rule, fn, "PoolLister.Get", nil, "expected one lookup of the Pool object")
		return
	}
	ets := errTests(get[0])
	ok := len(ets) > 0
	for _, et := range ets {
		r := reachFromEdge(et.OkEdge, nil)
		n := 0
		for _, ret := range returns(fn) {
			if !r.has(ret) {
				continue
			}
			n++
			b, isC := constBoolVal(retVal(ret, 1))
			if !isC || !b || !pathEndsWith(retVal(ret, 0), "Size") {
				ok = false
			}
		}
		if n == 0 {
			ok = false
		}
	}
	c.ob(rule, fn, "a found Pool object defines the size", get[0], ok, "every return reachable from the success edge of the Pool lookup is (pool.Size, true, ..): no size value (0 included) falls back to the deployment's replicas")
}

// C08.R9 — the rollback of a partly created multi-ip allocation covers the first created object
func ruleRollbackCoversFirst(c *Ctx, rule string) {
	fn := c.MustFn(rule, fipPkg, "(*crdIpam).AllocateInSubnetsAndIPRange")
	if fn == nil {
		return
	}
	dels := calls(fn, "(*crdIpam).deleteFloatingIP")
	if len(dels) == 0 {
		c.undecided(rule, fn, "rollback delete", nil, "no deleteFloatingIP in the allocator")
		return
	}
	for _, d := range dels {
		// the index of the element deleted: arg = strs[j]
		var idx ssa.Value
		dependsOn(d.Common().Args[1], func(x ssa.Value) bool {
			if ia, ok := x.(*ssa.IndexAddr); ok && idx == nil {
				idx = ia.Index
			}
			return false
		})
		ok, why := false, "index of the deleted element not recognised"
		if idx != nil {
			// ascending: j is phi(-1)+1 / phi(0..); descending: loop guard j >= 0
			var ph *ssa.Phi
			switch x := idx.(type) {
			case *ssa.Phi:
				ph = x
			case *ssa.BinOp:
				if p, isP := x.X.(*ssa.Phi); isP {
					ph = p
				}
			}
			if ph != nil {
				asc := false
				for _, e := range ph.Edges {
					if n, isC := constIntVal(e); isC {
						if _, direct := idx.(*ssa.Phi); direct && n == 0 {
							asc = true
						}
						if _, viaAdd := idx.(*ssa.BinOp); viaAdd && n == -1 {
							asc = true
						}
					}
				}
				if asc {
					ok, why = true, "ascending from index 0"
				} else {
					// descending: some guard `j >= 0` / `j > -1` dominating the delete
					g := guardEdges(fn, func(v ssa.Value) (bool, int) {
						bo, isBo := v.(*ssa.BinOp)
						if !isBo || bo.X != ssa.Value(ph) {
							return false, 0
						}
						n, isC := constIntVal(bo.Y)
						if !isC {
							return false, 0
						}
						if (bo.Op == token.GEQ && n == 0) || (bo.Op == token.GTR && n == -1) {
							return true, 0
						}
						if (bo.Op == token.LSS && n == 0) || (bo.Op == token.LEQ && n == -1) {
							return true, 1
						}
						return false, 0
					})
					if len(g) > 0 && guardedBy(fn, d, g) {
						ok, why = true, "descending down to index 0"
					} else {
						why = "descending loop whose guard excludes index 0"
					}
				}
			}
		}
		c.ob(rule, fn, "the rollback deletes the first created object too", d, ok, "the index of the deleted element starts at 0 (ascending) or the loop continues while j >= 0 (descending): "+why)
	}
}

// C09.R11 — a successful store create is always followed by the cache update: from the success edge of createFloatingIP every
// path to a nil-error return passes syncCacheAfterCreate (or the head of the loop that calls it)
func ruleCreateThenCache(c *Ctx, rule string) {
	n := 0
	for _, fn := range c.SrcFns {
		if fn.Pkg.Pkg.Path() != modPath+fipPkg || fn.Parent() != nil {
			continue
		}
		cr := callsLocal(fn, "(*crdIpam).createFloatingIP")
		sy := callsLocal(fn, "(*crdIpam).syncCacheAfterCreate")
		if len(cr) == 0 {
			continue
		}
		ei := errResultIndex(fn)
		for _, cc := range cr {
			n++
			if len(sy) == 0 || ei < 0 {
				c.ob(rule, fn, "created object enters the cache", cc, false, "no syncCacheAfterCreate in a function that creates a FloatingIP object")
				continue
			}
			ct := newCut().callInstrs(sy)
			// a sync call inside a loop that does not contain the create: passing the loop head counts
			for _, s := range sy {
				for _, b := range fn.Blocks {
					back := false
					for _, p := range b.Preds {
						if b.Dominates(p) {
							back = true
						}
					}
					if back {
						lp := naturalLoop(b)
						if lp[s.Block()] && !lp[cc.Block()] {
							ct.instr(b.Instrs[0])
						}
					}
				}
			}
			ok := true
			ets := errTests(cc)
			if len(ets) == 0 {
				ok = false
			}
			for _, et := range ets {
				r := reachFromEdge(et.OkEdge, ct)
				for _, ret := range returns(fn) {
					if r.has(ret) && isNilConst(retVal(ret, ei)) {
						ok = false
					}
				}
			}
			c.ob(rule, fn, "a successful create is always followed by the cache update", cc, ok, "from the success edge of createFloatingIP no nil-error return is reachable without syncCacheAfterCreate: an object in the store is never missing from the allocated table")
		}
	}
	if n < 3 {
		c.undecided(rule, nil, "createFloatingIP call sites", nil, fmt.Sprintf("expected at least 3, found %d", n))
	}
}

// C10.R7 — the provider wrappers report success only for a successful reply
func ruleProviderSuccessOnlyOnReply(c *Ctx, rule string) {
	for _, name := range []string{"(*FloatingIPPlugin).cloudProviderAssignIP", "(*FloatingIPPlugin).cloudProviderUnAssignIP"} {
		fn := c.MustFn(rule, spPkg, name)
		if fn == nil {
			continue
		}
		var isSuccess func(v ssa.Value, d int) bool
		isSuccess = func(v ssa.Value, d int) bool {
			if ld, ok := v.(*ssa.UnOp); ok && ld.Op == token.MUL && pathEndsWith(ld, "Success") {
				return true
			}
			if call, ok := v.(*ssa.Call); ok && strings.HasSuffix(calleeName(call), ").GetSuccess") {
				return true
			}
			if q, ok := unspill(v).(*ssa.Parameter); ok && d < 2 {
				acts := actualsOf(q)
				if len(acts) == 0 {
					return false
				}
				for _, a := range acts {
					if !isSuccess(a, d+1) {
						return false
					}
				}
				return true
			}
			return false
		}
		okEdges := guardEdgesX(fn, func(v ssa.Value) (bool, int) {
			// reply.Success (true edge)  /  p.cloudProvider == nil (true edge)
			if isSuccess(v, 0) {
				return true, 0
			}
			if bo, ok := v.(*ssa.BinOp); ok && bo.Op == token.EQL && pathEndsWith(bo.X, "cloudProvider") && isNilConst(bo.Y) {
				return true, 0
			}
			return false, 0
		})
		// `!reply.Success` is an UnOp NOT in SSA: the false edge of NOT(success) is the success edge
		neg := guardEdgesX(fn, func(v ssa.Value) (bool, int) {
			if un, ok := v.(*ssa.UnOp); ok && un.Op == token.NOT && isSuccess(un.X, 0) {
				return true, 1
			}
			return false, 0
		})
		okEdges = append(okEdges, neg...)
		ok := len(okEdges) >= 2
		for _, ret := range returns(fn) {
			if mayBeNilErr(retVal(ret, 0)) && !guardedBy(fn, ret, okEdges) {
				ok = false
			}
		}
		c.ob(rule, fn, "the provider wrapper returns nil only for a successful reply", nil, ok, "every return whose error may be nil lies behind reply.Success (or `no provider configured`): a failed or missing reply can never be reported as success")
	}
}

func mayBeNilErr(v ssa.Value) bool {
	if isNilConst(v) {
		return true
	}
	if ph, ok := v.(*ssa.Phi); ok {
		for _, e := range ph.Edges {
			if e != v && mayBeNilErr(e) {
				return true
			}
		}
	}
	if ld, ok := v.(*ssa.UnOp); ok && ld.Op == token.MUL {
		if a, ok := ld.X.(*ssa.Alloc); ok {
			for _, ref := range *a.Referrers() {
				if st, ok := ref.(*ssa.Store); ok && st.Addr == ssa.Value(a) && mayBeNilErr(st.Val) {
					return true
				}
			}
			// never stored: zero value
			n := 0
			for _, ref := range *a.Referrers() {
				if st, ok := ref.(*ssa.Store); ok && st.Addr == ssa.Value(a) {
					n++
				}
			}
			if n == 0 {
				return true
			}
		}
	}
	return false
}

var _ = strings.Contains

// loopLeftOnlyWhenExhausted: the outermost loop around `at` has no exit except from its header
func loopLeftOnlyWhenExhausted(c *Ctx, fn *ssa.Function, at ssa.Instruction) (bool, string) {
	var h *ssa.BasicBlock
	for _, b := range fn.Blocks {
		back := false
		for _, p := range b.Preds {
			if b.Dominates(p) {
				back = true
			}
		}
		if back && naturalLoop(b)[at.Block()] && (h == nil || b.Dominates(h)) {
			h = b
		}
	}
	if h == nil {
		return false, "no loop"
	}
	loop := naturalLoop(h)
	for b := range loop {
		if b == h {
			continue
		}
		for _, s := range b.Succs {
			if !loop[s] {
				return false, fmt.Sprintf("block %d leaves the loop (%s)", b.Index, c.instrPos(s.Instrs[0]))
			}
		}
	}
	return true, ""
}

// C02.R11 — the decision "the app already holds as many ips as it has replicas, wait" is computed from every entry of
// the prefix listing (the counting loop is left only when exhausted) and from the desired replica count (spec), not from
// an observed one
func ruleUsedCountWholeListing(c *Ctx, rule string) {
	if fn := c.MustFn(rule, spPkg, "(*FloatingIPPlugin).getAvailableSubnet"); fn != nil {
		ins := calls(fn, "sets.String).Insert")
		if len(ins) == 0 {
			c.undecided(rule, fn, "collection of reserved subnets", nil, "no Insert into the unused-subnet set found")
		} else {
			ok, why := loopLeftOnlyWhenExhausted(c, ins[0].Parent(), ins[0])
			c.ob(rule, fn, "used ips and reserved ips are collected from the whole prefix listing", ins[0], ok, "the loop over ByPrefix(poolPrefix) has no break/return: an entry listed after a foreign one is still counted / offered for reuse "+why)
		}
	}
	if fn := c.MustFn(rule, spPkg, "(*FloatingIPPlugin).getReplicasOfDeployment"); fn != nil {
		bad := ""
		for _, ret := range returns(fn) {
			seen := map[ssa.Value]bool{}
			var walk func(v ssa.Value, d int)
			walk = func(v ssa.Value, d int) {
				if v == nil || seen[v] || d > 10 {
					return
				}
				seen[v] = true
				if fa, ok := v.(*ssa.FieldAddr); ok {
					n := fieldName(fa.X.Type(), fa.Field)
					if n != "Spec" && n != "Replicas" {
						bad = n
					}
				}
				if _, isCall := v.(*ssa.Call); isCall {
					return // the lister lookup
				}
				for _, o := range operandsOf(v) {
					walk(o, d+1)
				}
			}
			walk(retVal(ret, 0), 0)
		}
		c.ob(rule, fn, "the replica count of a deployment is the desired one", nil, bad == "", "the returned count depends on no field of the Deployment other than Spec.Replicas (status counts include surge pods of a rolling update) "+bad)
	}
}

// C04.R13 — the handler of delete/finish events acts only for the incarnation that holds the ip: unbind compares the stored
// PodUid with the event pod's UID before it unassigns, releases or reserves anything; on a mismatch (a late event of an earlier
// same-named pod, after the ip was freed and taken by the new pod) nothing is done
func ruleUnbindUIDGuard(c *Ctx, rule string) {
	fn := c.MustFn(rule, spPkg, "(*FloatingIPPlugin).unbind")
	if fn == nil {
		return
	}
	isUID := func(v ssa.Value) bool {
		return dependsOn(v, func(x ssa.Value) bool {
			if isFieldLoadNamed(x, "UID") {
				return true
			}
			if call, ok := x.(*ssa.Call); ok {
				return strings.HasSuffix(calleeName(call), ".GetUID")
			}
			return false
		})
	}
	mism := guardEdges(fn, predNeq(func(v ssa.Value) bool { return pathEndsWith(v, "PodUid") }, isUID))
	effects := callsAllX(fn, "(*FloatingIPPlugin).cloudProviderUnAssignIP")
	effects = append(effects, callsLocal(fn, "(*FloatingIPPlugin).unbindDpPod", "(*FloatingIPPlugin).unbindNoneDpPod", "(*FloatingIPPlugin).releaseIP", "(*FloatingIPPlugin).reserveIP")...)
	if len(effects) < 3 {
		c.undecided(rule, fn, "effects of unbind", nil, fmt.Sprintf("expected the unassign call and the two policy branches, found %d calls", len(effects)))
		return
	}
	if len(mism) == 0 {
		c.ob(rule, fn, "unbind compares the stored PodUid with the event pod's UID", nil, false, "no comparison <ipInfo>.PodUid != <pod UID> in unbind: a late delete/finish event of an earlier same-named pod frees the ip the new pod was bound with")
		return
	}
	for _, e := range mism {
		iff := e.from.Instrs[len(e.from.Instrs)-1]
		r := reachFromEdge(e, nil)
		m := r.anyCall(effects)
		c.ob(rule, fn, "on a UID mismatch unbind does nothing", iff, m == nil && !r.has(iff), "from the mismatch edge no unassign / release / reserve is reachable and the loop does not go on")
	}
	hdr := loopHeaderOf(mism[0].from.Instrs[len(mism[0].from.Instrs)-1])
	for _, m := range effects {
		ok := false
		if hdr != nil {
			ok = precedes(fn, []ssa.Instruction{hdr.Instrs[0]}, m)
		} else {
			ok = precedes(fn, []ssa.Instruction{mism[0].from.Instrs[len(mism[0].from.Instrs)-1]}, m)
		}
		c.ob(rule, fn, "the UID guard precedes "+shortCallee(m), m, ok, "every path from entry to the call passes the loop that compares the stored UIDs with the event pod's")
	}
}

// C05.R14 — what the store wrappers write is what assign() filled: every object handed to Create/Update was passed to
// assign(obj, ..) first (an object re-fetched for a retry and written without re-applying the change would make the store call
// succeed without storing the change)
func ruleStoreWritesAssigned(c *Ctx, rule string) {
	n := 0
	for _, name := range []string{"(*crdIpam).createFloatingIP", "(*crdIpam).updateFloatingIP"} {
		fn := c.MustFn(rule, fipPkg, name)
		if fn == nil {
			continue
		}
		// objects that went through assign (in fn or its closures)
		var assigned []ssa.Value
		for _, f := range withAnon(fn) {
			for _, a := range callsLocal(f, fipPkg+".assign") {
				assigned = append(assigned, a.Common().Args[0])
			}
		}
		// the result of a same-package builder counts when every object the builder returns went through assign() there
		fromAssigningHelper := func(v ssa.Value) bool {
			var call *ssa.Call
			idx := 0
			switch x := v.(type) {
			case *ssa.Extract:
				call, _ = x.Tuple.(*ssa.Call)
				idx = x.Index
			case *ssa.Call:
				call = x
			}
			if call == nil {
				return false
			}
			h := call.Call.StaticCallee()
			if h == nil || len(h.Blocks) == 0 || h.Pkg != fn.Pkg {
				return false
			}
			var inH []ssa.Value
			for _, a := range callsLocal(h, fipPkg+".assign") {
				inH = append(inH, a.Common().Args[0])
			}
			if len(inH) == 0 {
				return false
			}
			for _, ret := range returns(h) {
				if idx >= len(ret.Results) {
					return false
				}
				r := ret.Results[idx]
				if isNilConst(r) {
					continue
				}
				ok := false
				for _, a := range inH {
					if a == r || sameAccess(a, r) {
						ok = true
					}
				}
				if !ok {
					return false
				}
			}
			return true
		}
		isAssigned := func(v ssa.Value) bool {
			for _, a := range assigned {
				if a == v || sameAccess(a, v) {
					return true
				}
			}
			return fromAssigningHelper(v)
		}
		// sources of a value: through local cells (also captured ones) and phis
		var sources func(v ssa.Value, seen map[ssa.Value]bool) []ssa.Value
		sources = func(v ssa.Value, seen map[ssa.Value]bool) []ssa.Value {
			if seen[v] {
				return nil
			}
			seen[v] = true
			switch x := v.(type) {
			case *ssa.Phi:
				var out []ssa.Value
				for _, e := range x.Edges {
					out = append(out, sources(e, seen)...)
				}
				return out
			case *ssa.UnOp:
				if x.Op == token.MUL {
					var cell ssa.Value
					switch y := x.X.(type) {
					case *ssa.Alloc:
						cell = y
					case *ssa.FreeVar:
						// the captured cell: find the binding in the parent
						if par := x.Parent().Parent(); par != nil {
							for _, f := range withAnon(par) {
								allInstrs(f, func(in ssa.Instruction) {
									if mc, ok := in.(*ssa.MakeClosure); ok && mc.Fn == ssa.Value(x.Parent()) {
										for i, fv := range x.Parent().FreeVars {
											if fv == y && i < len(mc.Bindings) {
												cell = mc.Bindings[i]
											}
										}
									}
								})
							}
						}
					}
					if cell != nil {
						var out []ssa.Value
						// stores into the cell anywhere in the function family
						root := x.Parent()
						for root.Parent() != nil {
							root = root.Parent()
						}
						for _, f := range withAnon(root) {
							allInstrs(f, func(in ssa.Instruction) {
								if st, ok := in.(*ssa.Store); ok {
									addr := st.Addr
									if fvA, ok := addr.(*ssa.FreeVar); ok {
										// store through a captured cell in a closure
										for _, f2 := range withAnon(root) {
											allInstrs(f2, func(in2 ssa.Instruction) {
												if mc, ok := in2.(*ssa.MakeClosure); ok && mc.Fn == ssa.Value(f) {
													for i, fv := range f.FreeVars {
														if fv == fvA && i < len(mc.Bindings) && mc.Bindings[i] == cell {
															out = append(out, sources(st.Val, seen)...)
														}
													}
												}
											})
										}
									} else if addr == cell {
										out = append(out, sources(st.Val, seen)...)
									}
								}
							})
						}
						if len(out) > 0 {
							return out
						}
					}
				}
			}
			return []ssa.Value{v}
		}
		for _, f := range withAnon(fn) {
			for _, w := range callsLocal(f, "FloatingIPInterface).Create", "FloatingIPInterface).Update") {
				n++
				obj := w.Common().Args[1]
				ok := true
				bad := ""
				for _, s := range sources(obj, map[ssa.Value]bool{}) {
					// a source is fine if it (or a load of the same cell) was given to assign
					if !isAssigned(s) && !isAssigned(obj) {
						ok = false
						bad = s.String()
					}
					if !isAssigned(s) {
						// the object variable itself was assigned, but this particular source replaced it afterwards
						if _, isCall := s.(*ssa.Extract); isCall {
							okSrc := false
							for _, a := range assigned {
								for _, s2 := range sources(a, map[ssa.Value]bool{}) {
									if s2 == s {
										okSrc = true
									}
								}
							}
							if !okSrc {
								ok = false
								bad = s.String()
							}
						}
					}
				}
				c.ob(rule, f, "the object written to the store went through assign()", w, ok, "every value that can reach the object argument of "+shortCallee(w)+" was passed to assign(obj, ..): a re-fetched object is not written without the change "+bad)
			}
		}
	}
	if n < 2 {
		c.undecided(rule, nil, "store writes in the wrappers", nil, fmt.Sprintf("expected the Create and the Update call, found %d", n))
	}
}
