package main

import (
	"fmt"
	"go/token"
	"go/types"
	"strings"

	"golang.org/x/tools/go/ssa"
)

func jsonName(st *types.Struct, i int) string {
	t := reflectTag(st.Tag(i), "json")
	if t == "" {
		return st.Field(i).Name()
	}
	return strings.Split(t, ",")[0]
}

func structField(nt *types.Named, name string) (*types.Struct, int) {
	if nt == nil {
		return nil, -1
	}
	st, ok := nt.Underlying().(*types.Struct)
	if !ok {
		return nil, -1
	}
	for i := 0; i < st.NumFields(); i++ {
		if st.Field(i).Name() == name {
			return st, i
		}
	}
	return st, -1
}

// C13 — writer/reader agreement of the three hops annotation -> daemon args -> plugin parser.
func ruleArgsCodec(c *Ctx, rule string) {
	common := c.namedType(constPkg, "CommonCniArgs")
	cni := c.namedType(constPkg, "CniArgs")
	ipinfo := c.namedType(constPkg, "IPInfo")
	key, _ := c.constString(constPkg, "IPInfosKey")
	ann, _ := c.constString(constPkg, "ExtendedCNIArgsAnnotation")
	// hop 3 reader
	alloc := c.MustFn(rule, "cni/ipam", "Allocate")
	stC, iC := structField(common, "IPInfos")
	if alloc != nil && stC != nil && iC >= 0 {
		// the Unmarshal target
		var target types.Type
		for _, u := range calls(alloc, "encoding/json.Unmarshal") {
			if mi, ok := u.Common().Args[1].(*ssa.MakeInterface); ok {
				target = deref(mi.X.Type())
			}
		}
		c.ob(rule, alloc, "one Go type at both ends of the ipinfos codec", nil, target != nil && types.Identical(target, stC.Field(iC).Type()),
			fmt.Sprintf("type written by Bind (CommonCniArgs.IPInfos: %v) = type decoded by cni/ipam.Allocate (%v)", stC.Field(iC).Type(), target))
		// key agreement
		looked := ""
		allInstrs(alloc, func(in ssa.Instruction) {
			if lk, ok := in.(*ssa.Lookup); ok {
				if s, ok := constStringVal(lk.Index); ok {
					looked = s
				}
			}
		})
		c.ob(rule, alloc, "ipinfos key: JSON tag = constant = key the plugin looks up", nil, key != "" && jsonName(stC, iC) == key && looked == key,
			fmt.Sprintf("tag %q, IPInfosKey %q, looked up %q", jsonName(stC, iC), key, looked))
		// every IPInfo decoded is turned into a result and its vlan reported, in order
		conv := calls(alloc, cniutilPkg+".IPInfoToResult")
		c.ob(rule, alloc, "every decoded IPInfo becomes a result", nil, len(conv) == 1 && loopHeaderOf(conv[0]) != nil, "IPInfoToResult(&ipInfos[j]) inside the loop over the decoded list")
	}
	// hop 2: daemon
	pe := c.MustFn(rule, galaxyPkg, "parseExtendedCNIArgs")
	stN, iN := structField(cni, "Common")
	if pe != nil && stN != nil && iN >= 0 {
		tag := ""
		allInstrs(pe, func(in ssa.Instruction) {
			if a, ok := in.(*ssa.Alloc); ok {
				if st, ok := deref(a.Type()).Underlying().(*types.Struct); ok && st.NumFields() == 1 {
					tag = jsonName(st, 0)
				}
			}
		})
		c.ob(rule, pe, "common key: tag written by ipam = tag read by the daemon", nil, tag != "" && tag == jsonName(stN, iN), fmt.Sprintf("CniArgs.Common tag %q, daemon's anonymous struct tag %q", jsonName(stN, iN), tag))
		looked := ""
		allInstrs(pe, func(in ssa.Instruction) {
			if lk, ok := in.(*ssa.Lookup); ok {
				if s, ok := constStringVal(lk.Index); ok {
					looked = s
				}
			}
		})
		c.ob(rule, pe, "annotation key read by the daemon = annotation key written by Bind", nil, ann != "" && looked == ann, fmt.Sprintf("daemon reads %q", looked))
	}
	// hop 1 writer: Bind
	if bind := c.MustFn(rule, spPkg, "(*FloatingIPPlugin).Bind"); bind != nil {
		wrote := ""
		allInstrsX(bind, func(in ssa.Instruction) { // also in the helpers Bind was split into
			if mu, ok := in.(*ssa.MapUpdate); ok {
				if s, ok := constStringVal(mu.Key); ok {
					wrote = s
				}
			}
		})
		ms := calls(bind, "encoding/json.Marshal")
		okM := len(ms) == 1
		if okM {
			mi, isMI := ms[0].Common().Args[0].(*ssa.MakeInterface)
			okM = isMI && typeNameOf(mi.X.Type()) == "CniArgs" && isResultOf(mi.X, 0, "(*FloatingIPPlugin).allocateIP")
		}
		c.ob(rule, bind, "Bind writes json(CniArgs from allocateIP) under the cni-args annotation", nil, wrote == ann && okM, fmt.Sprintf("annotation key %q; payload = json.Marshal(result of allocateIP)", wrote))
		// and Bind does not rewrite the result between allocateIP and the encoding (no re-ordering, filtering, de-duplication)
		touched := ""
		allInstrs(bind, func(in ssa.Instruction) {
			st, ok := in.(*ssa.Store)
			if !ok {
				return
			}
			root := st.Addr
			for {
				switch x := root.(type) {
				case *ssa.FieldAddr:
					root = x.X
					continue
				case *ssa.IndexAddr:
					root = x.X
					continue
				}
				break
			}
			if isResultOf(root, 0, "(*FloatingIPPlugin).allocateIP") {
				touched = c.instrPos(st)
			}
		})
		c.ob(rule, bind, "Bind encodes the allocateIP result untouched", nil, touched == "", "no store into the CniArgs returned by allocateIP before it is marshalled: the i-th ipinfo stays the ip of the i-th requested range "+touched)
	}
	// separator safety
	if ipinfo != nil {
		st := ipinfo.Underlying().(*types.Struct)
		ok := true
		var ts []string
		for i := 0; i < st.NumFields(); i++ {
			t := st.Field(i).Type().String()
			ts = append(ts, short(t))
			switch short(t) {
			case "*@/pkg/utils/nets.IPNet", "uint16", "net.IP":
			default:
				ok = false
			}
		}
		c.ob(rule, nil, "IPInfo field types cannot encode ';' or a bare '='-led split", nil, ok, "field types "+strings.Join(ts, ", ")+" (CIDR string, number, dotted address)")
	}
	b := c.MustFn(rule, cniutilPkg, "BuildCNIArgs")
	p := c.MustFn(rule, cniutilPkg, "ParseCNIArgs")
	if b != nil && p != nil {
		join, format := "", ""
		for _, j := range calls(b, "strings.Join") {
			join, _ = constStringVal(j.Common().Args[1])
		}
		for _, f := range calls(b, "fmt.Sprintf") {
			format, _ = constStringVal(f.Common().Args[0])
		}
		split, kv, n := "", "", int64(0)
		for _, s := range calls(p, "strings.Split") {
			split, _ = constStringVal(s.Common().Args[1])
		}
		for _, s := range calls(p, "strings.SplitN") {
			kv, _ = constStringVal(s.Common().Args[1])
			n, _ = constIntVal(s.Common().Args[2])
		}
		for _, s := range calls(p, "strings.Cut") {
			kv, _ = constStringVal(s.Common().Args[1])
			n = 2 // Cut is SplitN(.., sep, 2)
		}
		if format == "" {
			// k + "=" + v: a string concatenation with one constant operand
			allInstrs(b, func(in ssa.Instruction) {
				if bo, ok := in.(*ssa.BinOp); ok && bo.Op == token.ADD {
					for _, o := range []ssa.Value{bo.X, bo.Y} {
						if s, ok := constStringVal(o); ok && s != "" {
							format = "%s" + s + "%s"
						}
					}
				}
			})
		}
		c.ob(rule, b, "BuildCNIArgs and ParseCNIArgs agree on separators", nil, join != "" && join == split && format == "%s"+kv+"%s" && n == 2,
			fmt.Sprintf("join %q / split %q; entry format %q / key-value split %q limit %d", join, split, format, kv, n))
	}
	// IPInfoToResult takes address, mask and gateway from the same IPInfo
	if fn := c.MustFn(rule, cniutilPkg, "IPInfoToResult"); fn != nil {
		okIP, okGW := false, false
		allInstrs(fn, func(in ssa.Instruction) {
			st, ok := in.(*ssa.Store)
			if !ok {
				return
			}
			fa, ok := st.Addr.(*ssa.FieldAddr)
			if !ok {
				return
			}
			root, path := fieldPath(stripConv(st.Val))
			switch fieldName(fa.X.Type(), fa.Field) {
			case "IP":
				if typeNameOf(fa.X.Type()) == "IPConfig" {
					okIP = sameParam(root, pAt(fn, 0)) && len(path) >= 1 && path[0] == "IP" || dependsOn(st.Val, func(x ssa.Value) bool { return isFieldLoadNamed(x, "IP") })
				}
			case "Gateway":
				okGW = sameParam(root, pAt(fn, 0)) && len(path) == 1 && path[0] == "Gateway"
			}
		})
		c.ob(rule, fn, "result address/mask and gateway come from the given IPInfo", nil, okIP && okGW, "IPConfig.IP = *ipInfo.IP, IPConfig.Gateway = ipInfo.Gateway")
	}
	// allocateIP: the ipinfos written are exactly those of the lookup, in lookup order (not appended to what the
	// annotation already carried)
	if fn := c.MustFn(rule, spPkg, "(*FloatingIPPlugin).allocateIP"); fn != nil {
		n := 0
		allInstrs(fn, func(in ssa.Instruction) {
			st, ok := in.(*ssa.Store)
			if !ok {
				return
			}
			_, p := cellPath(st.Addr)
			if len(p) < 2 || p[len(p)-1] != "IPInfos" || p[len(p)-2] != "Common" {
				return
			}
			n++
			fromOld := dependsOn(st.Val, func(x ssa.Value) bool {
				if x == st.Val {
					return false
				}
				ld, ok := x.(*ssa.UnOp)
				if !ok || ld.Op != token.MUL {
					return false
				}
				_, q := cellPath(ld.X)
				return len(q) >= 2 && q[len(q)-1] == "IPInfos" && q[len(q)-2] == "Common"
			})
			fromLookup := dependsOn(st.Val, func(x ssa.Value) bool { return isFieldLoadNamed(x, "IPInfo") || pathEndsWith(x, "IPInfo") })
			c.ob(rule, fn, "ipinfos written to the pod are exactly the lookup's, not appended to the annotation's", st, !fromOld && fromLookup,
				fmt.Sprintf("cniArgs.Common.IPInfos is assigned a list built from <lookup entry>.IPInfo (derives from lookup=%v) and does not depend on its previous value (depends on old=%v)", fromLookup, fromOld))
		})
		if n == 0 {
			c.undecided(rule, fn, "Common.IPInfos assignment", nil, "no store to cniArgs.Common.IPInfos found")
		}
	}
	// resolveNetworks: every NetworkInfo created receives the common args
	if fn := c.MustFn(rule, galaxyPkg, "(*Galaxy).resolveNetworks"); fn != nil {
		var upd []ssa.Instruction
		allInstrs(fn, func(in ssa.Instruction) {
			if mu, ok := in.(*ssa.MapUpdate); ok && pathEndsWith(mu.Map, "Args") {
				upd = append(upd, mu)
			}
		})
		if len(upd) == 0 {
			// the copy loop of one network moved into a helper: its call in resolveNetworks stands for the copy
			for _, h := range helperFns(fn, 1) {
				has := false
				allInstrs(h, func(in ssa.Instruction) {
					if mu, ok := in.(*ssa.MapUpdate); ok && pathEndsWith(mu.Map, "Args") {
						has = true
					}
				})
				if has {
					for _, cs := range staticSites[h] {
						if cs.Parent() == fn {
							upd = append(upd, cs)
						}
					}
				}
			}
		}
		news := calls(fn, cniutilPkg+".NewNetworkInfo")
		if len(upd) != 1 || len(news) == 0 {
			c.ob(rule, fn, "every created NetworkInfo receives the common args", nil, false, fmt.Sprintf("expected one copy into NetworkInfo.Args in resolveNetworks (found %d) and NewNetworkInfo calls (found %d)", len(upd), len(news)))
		} else {
			// outermost loop header containing the copy
			var outer *ssa.BasicBlock
			for h := loopHeaderOf(upd[0]); h != nil; {
				outer = h
				var next *ssa.BasicBlock
				for _, b := range fn.Blocks {
					if b != h && b.Dominates(h) {
						for _, p := range b.Preds {
							if b.Dominates(p) && blockReaches(h, p) {
								if next == nil || next.Dominates(b) {
									next = b
								}
							}
						}
					}
				}
				if next == nil || next == h {
					break
				}
				// only accept next if it is a loop that encloses h and does not contain the NewNetworkInfo calls
				encl := true
				for _, nw := range news {
					if next.Dominates(nw.Block()) && blockReaches(nw.Block(), next) {
						encl = false
					}
				}
				if !encl {
					break
				}
				h = next
			}
			ei := errResultIndex(fn)
			ok := outer != nil
			if ok {
				for _, nw := range news {
					r := c.reachAfter(nw, newCut().instr(outer.Instrs[0]))
					for _, ret := range returns(fn) {
						if r.has(ret) {
							if k, isC := retVal(ret, ei).(*ssa.Const); isC && k.IsNil() {
								ok = false
							}
						}
					}
				}
			}
			c.ob(rule, fn, "every created NetworkInfo receives the common args", upd[0], ok, "from each NewNetworkInfo call every path to a success return passes the loop that copies common.* into every NetworkInfo.Args")
		}
	}
}

// C08.R6 / C13.R6 — the ipinfos reported for a pod are a projection, in order, of the lookup for the FULL request
// (the i-th entry of ByKeyAndIPRanges(key, requested ranges) is the ip owned in the i-th range).
func ruleReportedInRequestOrder(c *Ctx, rule string) {
	fn := c.MustFn(rule, spPkg, "(*FloatingIPPlugin).allocateIP")
	if fn == nil {
		return
	}
	looks := calls(fn, "IPAM).ByKeyAndIPRanges")
	if len(looks) == 0 {
		c.undecided(rule, fn, "ByKeyAndIPRanges", nil, "no lookup found")
		return
	}
	isRaw := func(v ssa.Value) bool { return pathEndsWith(v, "RequestIPRange") }
	for _, l := range looks {
		c.ob(rule, fn, "every lookup of the pod's ips uses the full requested ranges", l, isRaw(callArgs(l)[1]) && sameParam(callArgs(l)[0], pAt(fn, 1)), "ByKeyAndIPRanges(key, cniArgs.RequestIPRange): entry i answers range i")
	}
	// the list stored into Common.IPInfos is built by one loop over a lookup result (possibly the re-read one)
	allInstrs(fn, func(in ssa.Instruction) {
		st, ok := in.(*ssa.Store)
		if !ok {
			return
		}
		_, p := cellPath(st.Addr)
		if len(p) < 2 || p[len(p)-1] != "IPInfos" || p[len(p)-2] != "Common" {
			return
		}
		// every element appended to the stored list is <lookup result>[i].IPInfo, i the loop index over that result
		n, okAll := 0, true
		allInstrs(fn, func(in2 ssa.Instruction) {
			s2, ok := in2.(*ssa.Store)
			if !ok || typeNameOf(s2.Val.Type()) != "IPInfo" {
				return
			}
			ia, ok := s2.Addr.(*ssa.IndexAddr)
			if !ok {
				return
			}
			if _, ok := ia.X.(*ssa.Alloc); !ok {
				return
			}
			n++
			// value: load of (<elem>.IPInfo) where <elem> is a load of IndexAddr(<slice>, idx) and <slice> is a lookup result
			fromLookup := dependsOn(s2.Val, func(x ssa.Value) bool {
				ld, ok := x.(*ssa.UnOp)
				if !ok {
					return false
				}
				ia2, ok := ld.X.(*ssa.IndexAddr)
				if !ok {
					return false
				}
				return dependsOn(ia2.X, func(y ssa.Value) bool {
					cl, i := callOf(y)
					return cl != nil && i == 0 && nameMatch(calleeName(cl), "IPAM).ByKeyAndIPRanges")
				})
			})
			if !fromLookup {
				okAll = false
			}
		})
		// and the stored list does not concatenate two lists: its append chain has a single append site in one loop
		apps := 0
		dependsOn(st.Val, func(x ssa.Value) bool {
			if call, ok := x.(*ssa.Call); ok {
				if b, ok := call.Call.Value.(*ssa.Builtin); ok && b.Name() == "append" && typeNameOf(elemOf(call.Type())) == "IPInfo" {
					apps++
				}
			}
			return false
		})
		c.ob(rule, fn, "reported ipinfos are the lookup entries in lookup order", st, okAll && n == 1 && apps == 1,
			fmt.Sprintf("one append site of IPInfo (found %d element stores, %d appends in the chain), its element is <lookup result>[i].IPInfo", n, apps))
	})
}

func elemOf(t types.Type) types.Type {
	if s, ok := t.Underlying().(*types.Slice); ok {
		return s.Elem()
	}
	return t
}

// C13.R8 — the plugin-side decoder reports, for the j-th result, the VLAN of the j-th decoded IPInfo.
func ruleDecoderPerIP(c *Ctx, rule string) {
	fn := c.MustFn(rule, "cni/ipam", "Allocate")
	if fn == nil {
		return
	}
	conv := calls(fn, cniutilPkg+".IPInfoToResult")
	if len(conv) != 1 {
		c.undecided(rule, fn, "IPInfoToResult", nil, "expected one call")
		return
	}
	// the decode loop may live in a helper Allocate calls: the rule is about the function that holds the loop
	fn = conv[0].Parent()
	ia, ok := conv[0].Common().Args[0].(*ssa.IndexAddr)
	if !ok {
		c.undecided(rule, fn, "IPInfoToResult argument", conv[0], "argument is not &ipInfos[j]")
		return
	}
	n := 0
	allInstrs(fn, func(in ssa.Instruction) {
		st, ok := in.(*ssa.Store)
		if !ok {
			return
		}
		if b, isB := st.Val.Type().Underlying().(*types.Basic); !isB || b.Kind() != types.Uint16 {
			return
		}
		dst, ok := st.Addr.(*ssa.IndexAddr)
		if !ok {
			return
		}
		if _, ok := dst.X.(*ssa.Alloc); !ok {
			// vlanIDs[j] = .. into a pre-sized slice instead of append: the index must be the loop's j
			if dst.Index != ia.Index {
				return
			}
		}
		// only the append inside the loop over the decoded list
		if loopHeaderOf(st) == nil || loopHeaderOf(st) != loopHeaderOf(conv[0]) {
			return
		}
		n++
		okV := false
		if ld, isLd := st.Val.(*ssa.UnOp); isLd {
			if fa, isFa := ld.X.(*ssa.FieldAddr); isFa && fieldName(fa.X.Type(), fa.Field) == "Vlan" {
				if ia2, isIa := fa.X.(*ssa.IndexAddr); isIa && sameAccessOrValue(ia2.X, ia.X) && ia2.Index == ia.Index {
					okV = true
				}
			}
		}
		c.ob(rule, fn, "vlan reported for a result is that of the same decoded IPInfo", st, okV, "vlanIDs = append(vlanIDs, ipInfos[j].Vlan) with the same j as IPInfoToResult(&ipInfos[j])")
	})
	if n == 0 {
		c.undecided(rule, fn, "vlan append", nil, "no append of a uint16 inside the decode loop found")
	}
}
