package main

// Rename tolerance. The rules name their anchor functions (package path + name). A behaviour-preserving rename of such a
// function would otherwise be reported as an unresolved anchor. reference/functions.json records, for the tree on which
// the rule instances were confirmed, every module function's signature and the set of functions it calls. When a recorded
// function is missing from the analysed program and exactly one function that the record does not know has the same
// package, the same receiver type, the same signature and a similar callee set, that function is taken to be the renamed
// one: Fn() resolves the old name to it and calleeName() reports calls of it under the old name, so every rule sees the
// program it was written for. The reference is never written at check time (`-dump-reference` regenerates it by hand) and
// can only remove "unresolved anchor" reports; it cannot raise one.

import (
	"encoding/json"
	"go/types"
	"os"
	"path/filepath"
	"sort"
	"strings"

	"golang.org/x/tools/go/ssa"
)

type refFn struct {
	Sig     string   `json:"sig"`
	Callees []string `json:"callees"`
}

var (
	renamedTo   = map[string]*ssa.Function{} // old canonical name -> function that carries another name now
	renamedFrom = map[string]string{}        // new canonical name -> old canonical name
	renameNotes []string
)

func referencePath() string { return filepath.Join(verifDir, "checker", "reference", "functions.json") }

func qualifier(p *types.Package) string { return short(p.Path()) }

func sigString(fn *ssa.Function) string {
	s := types.TypeString(fn.Signature, qualifier)
	if r := fn.Signature.Recv(); r != nil {
		s = "(" + types.TypeString(r.Type(), qualifier) + ") " + s
	}
	return s
}

// calleeSet: names of what fn and its closures call (static callees and interface methods), without fn itself
func calleeSet(fn *ssa.Function) []string {
	set := map[string]bool{}
	self := rawFnName(fn)
	for _, f := range withAnon(fn) {
		allInstrs(f, func(in ssa.Instruction) {
			ci, ok := in.(ssa.CallInstruction)
			if !ok {
				return
			}
			n := rawCalleeName(ci)
			if n == "" || n == self || strings.Contains(n, "$") || strings.HasPrefix(n, "builtin.") {
				return
			}
			set[n] = true
		})
	}
	var out []string
	for n := range set {
		out = append(out, n)
	}
	sort.Strings(out)
	return out
}

func referenceOf(c *Ctx) map[string]refFn {
	out := map[string]refFn{}
	for _, fn := range c.SrcFns {
		if fn.Parent() != nil || fn.Pkg == nil {
			continue
		}
		out[rawFnName(fn)] = refFn{Sig: sigString(fn), Callees: calleeSet(fn)}
	}
	return out
}

func dumpReference(c *Ctx) error {
	data, err := json.MarshalIndent(referenceOf(c), "", " ")
	if err != nil {
		return err
	}
	if err := os.MkdirAll(filepath.Dir(referencePath()), 0755); err != nil {
		return err
	}
	return os.WriteFile(referencePath(), append(data, '\n'), 0644)
}

func pkgOfName(n string) string {
	// "(*@/pkg/x.T).M" -> "@/pkg/x" ; "@/pkg/x.f" -> "@/pkg/x"
	n = strings.TrimPrefix(n, "(")
	n = strings.TrimPrefix(n, "*")
	if i := strings.Index(n, ")"); i >= 0 {
		n = n[:i]
	}
	if i := strings.LastIndex(n, "."); i >= 0 {
		return n[:i]
	}
	return n
}

func jaccard(a, b []string) float64 {
	if len(a) == 0 && len(b) == 0 {
		return 1
	}
	m := map[string]bool{}
	for _, x := range a {
		m[x] = true
	}
	inter := 0
	for _, x := range b {
		if m[x] {
			inter++
		}
	}
	union := len(a) + len(b) - inter
	if union == 0 {
		return 1
	}
	return float64(inter) / float64(union)
}

// resolveRenames fills renamedTo / renamedFrom for the analysed program (idempotent per process).
func resolveRenames(c *Ctx) {
	renamedTo = map[string]*ssa.Function{}
	renamedFrom = map[string]string{}
	renameNotes = nil
	data, err := os.ReadFile(referencePath())
	if err != nil {
		return
	}
	ref := map[string]refFn{}
	if json.Unmarshal(data, &ref) != nil {
		return
	}
	cur := map[string]*ssa.Function{}
	for _, fn := range c.SrcFns {
		if fn.Parent() == nil && fn.Pkg != nil {
			cur[rawFnName(fn)] = fn
		}
	}
	var missing []string
	for n := range ref {
		if cur[n] == nil {
			missing = append(missing, n)
		}
	}
	sort.Strings(missing)
	var fresh []string
	for n := range cur {
		if _, known := ref[n]; !known {
			fresh = append(fresh, n)
		}
	}
	sort.Strings(fresh)
	// methods that became free functions of the same name (receiver dropped or turned into the first parameter)
	for _, old := range missing {
		if !strings.HasPrefix(old, "(") {
			continue
		}
		i := strings.Index(old, ").")
		if i < 0 {
			continue
		}
		recv := strings.TrimPrefix(old[1:i], "*")
		tn := recv
		if j := strings.LastIndex(recv, "."); j >= 0 {
			tn = recv[j+1:]
		}
		if f := cur[pkgOfName(old)+"."+old[i+2:]]; f != nil && f.Signature.Recv() == nil {
			if _, known := ref[rawFnName(f)]; !known {
				noteConverted(f, tn)
			}
		}
	}
	taken := map[string]bool{}
	for _, old := range missing {
		r := ref[old]
		best, second := -1.0, -1.0
		var bestName string
		for _, n := range fresh {
			if taken[n] || pkgOfName(n) != pkgOfName(old) {
				continue
			}
			f := cur[n]
			if sigString(f) != r.Sig {
				continue
			}
			// the callee set of the reference mentions functions by their old names
			sc := jaccard(r.Callees, mapOld(calleeSet(f)))
			if sc > best {
				second, best, bestName = best, sc, n
			} else if sc > second {
				second = sc
			}
		}
		if bestName == "" || best < 0.5 || best-second < 0.2 {
			continue
		}
		taken[bestName] = true
		renamedTo[old] = cur[bestName]
		renamedFrom[bestName] = old
		renameNotes = append(renameNotes, old+" is "+bestName+" now (same signature, callee similarity "+strings.TrimRight(strings.TrimRight(strconvF(best), "0"), ".")+")")
	}
}

func mapOld(names []string) []string {
	out := make([]string, len(names))
	for i, n := range names {
		if o, ok := renamedFrom[n]; ok {
			n = o
		}
		out[i] = n
	}
	return out
}

func strconvF(f float64) string {
	s := ""
	n := int(f*100 + 0.5)
	s = string(rune('0'+n/100)) + "." + string(rune('0'+(n/10)%10)) + string(rune('0'+n%10))
	return s
}
