package main

import (
	"fmt"
	"go/token"
	"go/types"
	"strings"

	"golang.org/x/tools/go/ssa"
)

// C20.R4 — the parser of a range string consumes the whole string: the split is bounded to the parts that are parsed
// (or the number of parts is tested), so "a~b~c" cannot be accepted as "a~b"
func ruleRangeStringWhole(c *Ctx, rule string) {
	fn := c.MustFn(rule, "pkg/utils/nets", "ParseIPRange")
	if fn == nil {
		return
	}
	sp := calls(fn, "strings.Split", "strings.SplitN", "strings.Cut", "strings.Fields", "strings.SplitAfter", "strings.SplitAfterN")
	if len(sp) == 0 {
		c.undecided(rule, fn, "split of the range string", nil, "no split call found")
		return
	}
	for _, s := range sp {
		call, _ := s.(*ssa.Call)
		cn := calleeName(s)
		ok := false
		why := ""
		switch {
		case nameMatch(cn, "strings.Cut"):
			ok, why = true, "strings.Cut: the second part is the whole remainder and is parsed as an address"
		case nameMatch(cn, "strings.SplitN") || nameMatch(cn, "strings.SplitAfterN"):
			// n must equal the number of parts indexed
			n, isC := constIntVal(s.Common().Args[2])
			maxIdx := int64(-1)
			if call != nil {
				for _, ref := range *call.Referrers() {
					var idx ssa.Value
					switch x := ref.(type) {
					case *ssa.IndexAddr:
						idx = x.Index
					case *ssa.Index:
						idx = x.Index
					}
					if idx != nil {
						if k, ok := constIntVal(idx); ok && k > maxIdx {
							maxIdx = k
						}
					}
				}
			}
			ok = isC && n >= 1 && maxIdx == n-1
			why = fmt.Sprintf("SplitN limit %d, highest part parsed %d: the last part is the whole remainder, so extra separators make net.ParseIP fail", n, maxIdx)
		default:
			// unbounded split: the number of parts must be tested
			if call != nil {
				for _, ref := range *call.Referrers() {
					if lc, isCall := ref.(*ssa.Call); isCall {
						if b, isB := lc.Call.Value.(*ssa.Builtin); isB && b.Name() == "len" {
							for _, r2 := range *lc.Referrers() {
								if bo, isBo := r2.(*ssa.BinOp); isBo && (bo.Op == token.EQL || bo.Op == token.NEQ || bo.Op == token.GTR || bo.Op == token.LSS) {
									ok = true
								}
							}
						}
					}
				}
			}
			why = "unbounded split: accepted only if the number of parts is compared with a constant"
		}
		c.ob(rule, fn, "the whole range string is parsed", s, ok, why)
	}
}

// C20.R5 — the enumerator of pool ranges skips a range only when it is inverted: for every range with first <= last
// the callback is reached (enumeration agrees with Contains/Size also at the boundary addresses)
func ruleWalkSkipsOnlyInverted(c *Ctx, rule string) {
	fn := c.MustFn(rule, fipPkg, "walkIPRanges")
	if fn == nil {
		return
	}
	var cb []ssa.Instruction
	allInstrs(fn, func(in ssa.Instruction) {
		if call, ok := in.(*ssa.Call); ok {
			if p, isP := unspill(call.Call.Value).(*ssa.Parameter); isP && p.Name() == "f" {
				cb = append(cb, in)
			}
		}
	})
	conv := calls(fn, "pkg/utils/nets.IPToInt")
	if len(cb) == 0 || len(conv) < 2 {
		c.undecided(rule, fn, "callback / IPToInt", nil, "anchors not found")
		return
	}
	isAddr := func(v ssa.Value) bool {
		return dependsOn(v, func(x ssa.Value) bool {
			for _, cv := range conv {
				if x == cv.Value() {
					return true
				}
			}
			return false
		})
	}
	// the one permitted skip edge: first > last
	ct := newCut().instr(cb...)
	nSkip := 0
	for _, b := range fn.Blocks {
		ifi, ok := b.Instrs[len(b.Instrs)-1].(*ssa.If)
		if !ok {
			continue
		}
		bo, ok := ifi.Cond.(*ssa.BinOp)
		if !ok || !isAddr(bo.X) || !isAddr(bo.Y) {
			continue
		}
		if _, isC := bo.X.(*ssa.Const); isC {
			continue
		}
		if _, isC := bo.Y.(*ssa.Const); isC {
			continue
		}
		// operand order: which is first, which is last — by the field the IPToInt argument reads
		fieldOf := func(v ssa.Value) string {
			name := ""
			dependsOn(v, func(x ssa.Value) bool {
				if call, ok := x.(*ssa.Call); ok && len(call.Call.Args) == 1 {
					if _, p := fieldPath(call.Call.Args[0]); len(p) > 0 {
						name = p[len(p)-1]
						return true
					}
				}
				return false
			})
			return name
		}
		fx, fy := fieldOf(bo.X), fieldOf(bo.Y)
		op := bo.Op
		if fx == "Last" && fy == "First" {
			switch op {
			case token.LSS:
				op = token.GTR
			case token.GEQ:
				op = token.LEQ
			default:
				continue
			}
		} else if !(fx == "First" && fy == "Last") {
			continue
		}
		switch op {
		case token.GTR: // first > last: true edge skips
			ct.edge(edge{b, 0})
			nSkip++
		case token.LEQ: // first <= last: false edge skips
			ct.edge(edge{b, 1})
			nSkip++
		}
	}
	if nSkip == 0 {
		c.undecided(rule, fn, "first > last", nil, "no inverted-range test found")
		return
	}
	// from the first conversion of a range, with callback and the permitted skip edge removed, neither the next range nor the
	// return may be reachable
	r := c.reachAfter(conv[0], ct)
	bad := ""
	if r.has(conv[0]) {
		bad = "next range reached without the callback"
	}
	for _, ret := range returns(fn) {
		if r.has(ret) {
			bad = "return reached without the callback"
		}
	}
	c.ob(rule, fn, "a range is skipped only when first > last", conv[0], bad == "", "after IPToInt(r.First) every path to the next range or to the return passes the callback or the first > last edge: no address value (0.0.0.0, 255.255.255.255) is special "+bad)
}

// C11.R5 — the page window: offset and length of a page are computed from the same size value
func rulePageWindowOneSize(c *Ctx, rule string) {
	fn := c.MustFn(rule, "pkg/utils/page", "paginationResult")
	if fn == nil {
		return
	}
	var mul, add *ssa.BinOp
	allInstrs(fn, func(in ssa.Instruction) {
		if bo, ok := in.(*ssa.BinOp); ok {
			if bo.Op == token.MUL && mul == nil {
				mul = bo
			}
		}
	})
	if mul != nil {
		allInstrs(fn, func(in ssa.Instruction) {
			if bo, ok := in.(*ssa.BinOp); ok && bo.Op == token.ADD && add == nil {
				if dependsOn(bo.X, func(x ssa.Value) bool { return x == ssa.Value(mul) }) || dependsOn(bo.Y, func(x ssa.Value) bool { return x == ssa.Value(mul) }) {
					add = bo
				}
			}
		})
	}
	if mul == nil || add == nil {
		c.undecided(rule, fn, "page*size / start+size", nil, "window arithmetic not found")
		return
	}
	isPage := func(v ssa.Value) bool { p, ok := unspill(v).(*ssa.Parameter); return ok && p.Name() == "page" }
	var sz1, sz2 ssa.Value
	if isPage(mul.X) {
		sz1 = mul.Y
	} else {
		sz1 = mul.X
	}
	dm := func(v ssa.Value) bool { return dependsOn(v, func(x ssa.Value) bool { return x == ssa.Value(mul) }) }
	if dm(add.X) {
		sz2 = add.Y
	} else {
		sz2 = add.X
	}
	same := unspill(sz1) == unspill(sz2)
	// the size reported back is that value too
	rep := true
	for _, ret := range returns(fn) {
		if len(ret.Results) == 3 && unspill(retVal(ret, 2)) != unspill(sz1) {
			rep = false
		}
	}
	c.ob(rule, fn, "page offset and page length use one size", add, same && rep, "start = page*S and end = start+S' with S and S' the same value (and the reported size): otherwise pages overlap or leave gaps for lists longer than the smaller of the two")
}

// C11.R6 — every entry posted to the release API is handed to the releaser: the loop calling releaseFunc ranges over the
// very slice the parsed requests were appended to
func ruleEveryPostedEntryReleased(c *Ctx, rule string) {
	fn := c.MustFn(rule, "pkg/ipam/api", "(*Controller).ReleaseIPs")
	if fn == nil {
		return
	}
	var rel []ssa.CallInstruction
	allInstrs(fn, func(in ssa.Instruction) {
		if call, ok := in.(*ssa.Call); ok && !call.Call.IsInvoke() {
			if _, name, ok := fieldLoad(call.Call.Value); ok && name == "releaseFunc" {
				rel = append(rel, call)
			}
		}
	})
	if len(rel) != 1 {
		c.undecided(rule, fn, "c.releaseFunc(req)", nil, fmt.Sprintf("expected one call, found %d", len(rel)))
		return
	}
	arg := rel[0].Common().Args[0]
	// arg = *(&slice[i]); slice must be built only by append/phi/nil in this function
	var sl ssa.Value
	if u, ok := arg.(*ssa.UnOp); ok {
		if ia, ok := u.X.(*ssa.IndexAddr); ok {
			sl = ia.X
		}
	}
	ok := sl != nil
	via := ""
	seen := map[ssa.Value]bool{}
	var walk func(v ssa.Value)
	walk = func(v ssa.Value) {
		if v == nil || seen[v] {
			return
		}
		seen[v] = true
		switch x := v.(type) {
		case *ssa.Phi:
			for _, e := range x.Edges {
				walk(e)
			}
		case *ssa.Const:
		case *ssa.Call:
			if b, isB := x.Call.Value.(*ssa.Builtin); isB && b.Name() == "append" {
				walk(x.Call.Args[0])
				return
			}
			ok = false
			via = calleeName(x)
		case *ssa.Slice:
			// a sub-slice drops entries
			ok = false
			via = "sub-slice"
		case *ssa.UnOp:
			if a, isA := x.X.(*ssa.Alloc); isA {
				for _, ref := range *a.Referrers() {
					if st, isS := ref.(*ssa.Store); isS && st.Addr == a {
						walk(st.Val)
					}
				}
				return
			}
			ok = false
			via = "load"
		default:
			ok = false
			via = fmt.Sprintf("%T", v)
		}
	}
	walk(sl)
	// and each append adds a request built from the posted entry of this iteration
	c.ob(rule, fn, "every parsed release request reaches releaseFunc", rel[0], ok, "the release loop ranges over the slice the requests were appended to (append/phi chain only, no filter or sub-slice in between) "+via)
}

// C18.R10 — the retry of a failed unbind is bounded: the event is re-queued only after its retry counter was stored
// with an incremented value and only on the edge where the counter is below a constant
func ruleRetryBounded(c *Ctx, rule string) {
	root := c.MustFn(rule, spPkg, "(*FloatingIPPlugin).loop")
	if root == nil {
		return
	}
	n := 0
	for _, fn := range withAnon(root) {
		var sends []*ssa.Send
		allInstrs(fn, func(in ssa.Instruction) {
			if s, ok := in.(*ssa.Send); ok && pathEndsWith(s.Chan, "unreleased") {
				sends = append(sends, s)
			}
		})
		for _, s := range sends {
			n++
			// the counter field of the object sent
			var stores []ssa.Instruction
			inc := false
			allInstrs(fn, func(in ssa.Instruction) {
				st, ok := in.(*ssa.Store)
				if !ok {
					return
				}
				fa, ok := st.Addr.(*ssa.FieldAddr)
				if !ok || fieldName(fa.X.Type(), fa.Field) != "retryTimes" {
					return
				}
				if !(fa.X == s.X || sameAccess(fa.X, s.X) || unspill(fa.X) == unspill(s.X)) {
					return
				}
				stores = append(stores, st)
				if bo, ok := st.Val.(*ssa.BinOp); ok && bo.Op == token.ADD {
					if k, isC := constIntVal(bo.Y); isC && k >= 1 {
						if base, name, ok := fieldLoad(bo.X); ok && name == "retryTimes" {
							_ = base
							inc = true
						}
					}
				}
			})
			okStore := len(stores) > 0 && inc
			if okStore {
				r := reachFromEntry(fn, newCut().instr(stores...))
				okStore = !r.has(s)
			}
			// bounded: guarded by a comparison of the counter with a constant
			lim := guardEdges(fn, func(v ssa.Value) (bool, int) {
				bo, ok := v.(*ssa.BinOp)
				if !ok {
					return false, 0
				}
				if _, isC := bo.Y.(*ssa.Const); !isC {
					return false, 0
				}
				if _, name, ok := fieldLoad(bo.X); !ok || name != "retryTimes" {
					return false, 0
				}
				switch bo.Op {
				case token.GTR, token.GEQ:
					return true, 1
				case token.LSS, token.LEQ:
					return true, 0
				}
				return false, 0
			})
			okLim := len(lim) > 0 && guardedBy(fn, s, lim)
			c.ob(rule, fn, "a failed release event is re-queued a bounded number of times", s, okStore && okLim, fmt.Sprintf("every path to `p.unreleased <- event` stores event.retryTimes = event.retryTimes + k (k>=1) first (%v) and lies behind the `retryTimes <= const` edge (%v): an event whose unbind can never succeed is dropped for the resync instead of spinning for ever", okStore, okLim))
		}
	}
	if n == 0 {
		c.undecided(rule, root, "re-queue of a failed event", nil, "no send on p.unreleased in loop")
	}
}

var _ = strings.Contains
var _ types.Type

// C13.R9 / C08.R8 — per-range pickers agree on distinctness: both the allocator and the lookup that later reports the pod's
// ips walk the requested ranges one by one; an ip accepted for one range must be excluded for the later ranges of the same
// request (the allocator does so — its test even allocates two ips from one range twice given — so the lookup must, or
// the annotation carries one ip twice and a persisted ip never reaches the plugin)
func rulePerRangePickersDistinct(c *Ctx, rule string) {
	n := 0
	for _, name := range []string{"(*crdIpam).AllocateInSubnetsAndIPRange", "(*crdIpam).ByKeyAndIPRanges"} {
		fn := c.MustFn(rule, fipPkg, name)
		if fn == nil {
			continue
		}
		for _, w := range calls(fn, fipPkg+".walkIPRanges") {
			mc, ok := w.Common().Args[1].(*ssa.MakeClosure)
			if !ok {
				continue
			}
			cl := mc.Fn.(*ssa.Function)
			// only pickers: callbacks that can stop the walk
			accepts := returnsConstBool(cl, true)
			if len(accepts) == 0 {
				continue
			}
			// inside a loop over the ranges of the request?
			inLoop := false
			for _, b := range fn.Blocks {
				for _, p := range b.Preds {
					if b.Dominates(p) && naturalLoop(b)[w.Block()] {
						inLoop = true
					}
				}
			}
			if !inLoop {
				continue
			}
			n++
			isSetFV := func(v ssa.Value) bool {
				ld, ok := v.(*ssa.UnOp)
				if !ok {
					return false
				}
				_, isFV := ld.X.(*ssa.FreeVar)
				return isFV && strings.Contains(ld.Type().String(), "sets.String")
			}
			excl := guardEdges(cl, func(v ssa.Value) (bool, int) {
				call, ok := v.(*ssa.Call)
				if !ok || !nameMatch(calleeName(call), "sets.String).Has") || len(call.Call.Args) == 0 || !isSetFV(call.Call.Args[0]) {
					return false, 0
				}
				return true, 1 // the false edge: not yet chosen
			})
			var ins []ssa.Instruction
			for _, i := range calls(cl, "sets.String).Insert") {
				if len(i.Common().Args) > 0 && isSetFV(i.Common().Args[0]) {
					ins = append(ins, i)
				}
			}
			ok1, ok2 := len(excl) > 0, len(ins) > 0
			if ok1 && ok2 {
				r := reachFromEntry(cl, newCut().instr(ins...))
				for _, a := range accepts {
					if !guardedBy(cl, a, excl) {
						ok1 = false
					}
					if r.has(a) {
						ok2 = false
					}
				}
			}
			c.ob(rule, cl, "an ip accepted for one requested range is excluded for the later ranges", w, ok1 && ok2, fmt.Sprintf("the picker's `return true` lies behind the not-Has edge of a set shared across ranges (%v) and passes Insert into that set (%v): allocator and lookup report k distinct ips for k ranges", ok1, ok2))
		}
	}
	if n < 2 {
		c.undecided(rule, nil, "per-range pickers", nil, fmt.Sprintf("expected the allocator's and the lookup's picker, found %d", n))
	}
}
