package main

import (
	"fmt"
	"go/token"
	"go/types"
	"strings"

	"golang.org/x/tools/go/ssa"
)

// C20.R4 — the parser of a range string consumes the whole string: the split is bounded to the parts that are parsed
// (or the number of parts is tested), so "a~b~c" cannot be accepted as "a~b"
func ruleRangeStringWhole(c *Ctx, rule string) {
	fn := c.MustFn(rule, "pkg/utils/nets", "ParseIPRange")
	if fn == nil {
		return
	}
	sp := calls(fn, "strings.Split", "strings.SplitN", "strings.Cut", "strings.Fields", "strings.SplitAfter", "strings.SplitAfterN")
	if len(sp) == 0 {
		// index-and-slice form: `i := strings.Index(s, sep); first, last := s[:i], s[i+len(sep):]`
		if ix := calls(fn, "strings.Index", "strings.IndexByte", "strings.IndexRune", "strings.LastIndex"); len(ix) > 0 {
			tail := false
			allInstrs(fn, func(in ssa.Instruction) {
				sl, ok := in.(*ssa.Slice)
				if !ok || sl.High != nil || sl.Low == nil {
					return
				}
				for _, ref := range *sl.Referrers() {
					if call, isCall := ref.(*ssa.Call); isCall && nameMatch(calleeName(call), "net.ParseIP") {
						tail = true
					}
				}
			})
			c.ob(rule, fn, "the whole range string is parsed", ix[0], tail, "index-and-slice: the part after the separator runs to the end of the string (s[i+len(sep):]) and is parsed as an address, so extra separators make net.ParseIP fail")
			return
		}
		c.undecided(rule, fn, "split of the range string", nil, "no split call found")
		return
	}
	for _, s := range sp {
		call, _ := s.(*ssa.Call)
		cn := calleeName(s)
		ok := false
		why := ""
		switch {
		case nameMatch(cn, "strings.Cut"):
			ok, why = true, "strings.Cut: the second part is the whole remainder and is parsed as an address"
		case nameMatch(cn, "strings.SplitN") || nameMatch(cn, "strings.SplitAfterN"):
			// n must equal the number of parts indexed
			n, isC := constIntVal(s.Common().Args[2])
			maxIdx := int64(-1)
			if call != nil {
				for _, ref := range *call.Referrers() {
					var idx ssa.Value
					switch x := ref.(type) {
					case *ssa.IndexAddr:
						idx = x.Index
					case *ssa.Index:
						idx = x.Index
					}
					if idx != nil {
						if k, ok := constIntVal(idx); ok && k > maxIdx {
							maxIdx = k
						}
					}
				}
			}
			ok = isC && n >= 1 && maxIdx == n-1
			why = fmt.Sprintf("SplitN limit %d, highest part parsed %d: the last part is the whole remainder, so extra separators make net.ParseIP fail", n, maxIdx)
		default:
			// unbounded split: the number of parts must be tested
			if call != nil {
				for _, ref := range *call.Referrers() {
					if lc, isCall := ref.(*ssa.Call); isCall {
						if b, isB := lc.Call.Value.(*ssa.Builtin); isB && b.Name() == "len" {
							for _, r2 := range *lc.Referrers() {
								if bo, isBo := r2.(*ssa.BinOp); isBo && (bo.Op == token.EQL || bo.Op == token.NEQ || bo.Op == token.GTR || bo.Op == token.LSS) {
									ok = true
								}
							}
						}
					}
				}
			}
			why = "unbounded split: accepted only if the number of parts is compared with a constant"
		}
		c.ob(rule, fn, "the whole range string is parsed", s, ok, why)
	}
}

// C20.R5 — the enumerator of pool ranges skips a range only when it is inverted: for every range with first <= last
// the callback is reached (enumeration agrees with Contains/Size also at the boundary addresses)
func ruleWalkSkipsOnlyInverted(c *Ctx, rule string) {
	fn := c.MustFn(rule, fipPkg, "walkIPRanges")
	if fn == nil {
		return
	}
	var cb []ssa.Instruction
	allInstrs(fn, func(in ssa.Instruction) {
		if call, ok := in.(*ssa.Call); ok {
			if p, isP := unspill(call.Call.Value).(*ssa.Parameter); isP && p.Parent() == fn {
				cb = append(cb, in)
			}
		}
	})
	conv := calls(fn, "pkg/utils/nets.IPToInt")
	if len(cb) == 0 || len(conv) < 2 {
		c.undecided(rule, fn, "callback / IPToInt", nil, "anchors not found")
		return
	}
	isAddr := func(v ssa.Value) bool {
		return dependsOn(v, func(x ssa.Value) bool {
			for _, cv := range conv {
				if x == cv.Value() {
					return true
				}
			}
			return false
		})
	}
	// the one permitted skip edge: first > last
	ct := newCut().instr(cb...)
	nSkip := 0
	for _, b := range fn.Blocks {
		ifi, ok := b.Instrs[len(b.Instrs)-1].(*ssa.If)
		if !ok {
			continue
		}
		bo, ok := ifi.Cond.(*ssa.BinOp)
		if !ok || !isAddr(bo.X) || !isAddr(bo.Y) {
			continue
		}
		if _, isC := bo.X.(*ssa.Const); isC {
			continue
		}
		if _, isC := bo.Y.(*ssa.Const); isC {
			continue
		}
		// operand order: which is first, which is last — by the field the IPToInt argument reads
		fieldOf := func(v ssa.Value) string {
			name := ""
			dependsOn(v, func(x ssa.Value) bool {
				if call, ok := x.(*ssa.Call); ok && len(call.Call.Args) == 1 {
					if _, p := fieldPath(call.Call.Args[0]); len(p) > 0 {
						name = p[len(p)-1]
						return true
					}
				}
				return false
			})
			return name
		}
		fx, fy := fieldOf(bo.X), fieldOf(bo.Y)
		op := bo.Op
		if fx == "Last" && fy == "First" {
			switch op {
			case token.LSS:
				op = token.GTR
			case token.GEQ:
				op = token.LEQ
			default:
				continue
			}
		} else if !(fx == "First" && fy == "Last") {
			continue
		}
		switch op {
		case token.GTR: // first > last: true edge skips
			ct.edge(edge{b, 0})
			nSkip++
		case token.LEQ: // first <= last: false edge skips
			ct.edge(edge{b, 1})
			nSkip++
		}
	}
	if nSkip == 0 {
		c.undecided(rule, fn, "first > last", nil, "no inverted-range test found")
		return
	}
	// from the first conversion of a range, with callback and the permitted skip edge removed, neither the next range nor the
	// return may be reachable
	r := c.reachAfter(conv[0], ct)
	bad := ""
	if r.has(conv[0]) {
		bad = "next range reached without the callback"
	}
	for _, ret := range returns(fn) {
		if r.has(ret) {
			bad = "return reached without the callback"
		}
	}
	c.ob(rule, fn, "a range is skipped only when first > last", conv[0], bad == "", "after IPToInt(r.First) every path to the next range or to the return passes the callback or the first > last edge: no address value (0.0.0.0, 255.255.255.255) is special "+bad)
}

// C11.R5 — the page window: offset and length of a page are computed from the same size value
func rulePageWindowOneSize(c *Ctx, rule string) {
	fn := c.Fn("pkg/utils/page", "paginationResult")
	if fn == nil {
		// renamed: the window function is the one in package page that multiplies two of its parameters (page*size)
		for _, f := range c.SrcFns {
			if f.Pkg.Pkg.Path() != modPath+"pkg/utils/page" || fn != nil {
				continue
			}
			allInstrs(f, func(in ssa.Instruction) {
				if bo, ok := in.(*ssa.BinOp); ok && bo.Op == token.MUL {
					_, px := unspill(bo.X).(*ssa.Parameter)
					_, py := unspill(bo.Y).(*ssa.Parameter)
					if px && py {
						fn = f
					}
				}
			})
		}
	}
	if fn == nil {
		c.undecided(rule, nil, "page window function", nil, "no function of package page computes page*size from its parameters")
		return
	}
	var mul, add *ssa.BinOp
	allInstrs(fn, func(in ssa.Instruction) {
		if bo, ok := in.(*ssa.BinOp); ok {
			if bo.Op == token.MUL && mul == nil {
				mul = bo
			}
		}
	})
	if mul != nil {
		allInstrs(fn, func(in ssa.Instruction) {
			if bo, ok := in.(*ssa.BinOp); ok && bo.Op == token.ADD && add == nil {
				if dependsOn(bo.X, func(x ssa.Value) bool { return x == ssa.Value(mul) }) || dependsOn(bo.Y, func(x ssa.Value) bool { return x == ssa.Value(mul) }) {
					add = bo
				}
			}
		})
	}
	if mul == nil || add == nil {
		c.undecided(rule, fn, "page*size / start+size", nil, "window arithmetic not found")
		return
	}
	isPage := func(v ssa.Value) bool { p, ok := unspill(v).(*ssa.Parameter); return ok && p.Name() == "page" }
	var sz1, sz2 ssa.Value
	if isPage(mul.X) {
		sz1 = mul.Y
	} else {
		sz1 = mul.X
	}
	dm := func(v ssa.Value) bool { return dependsOn(v, func(x ssa.Value) bool { return x == ssa.Value(mul) }) }
	if dm(add.X) {
		sz2 = add.Y
	} else {
		sz2 = add.X
	}
	same := unspill(sz1) == unspill(sz2)
	// the size reported back is that value too
	rep := true
	for _, ret := range returns(fn) {
		if len(ret.Results) == 3 && unspill(retVal(ret, 2)) != unspill(sz1) {
			rep = false
		}
	}
	c.ob(rule, fn, "page offset and page length use one size", add, same && rep, "start = page*S and end = start+S' with S and S' the same value (and the reported size): otherwise pages overlap or leave gaps for lists longer than the smaller of the two")
}

// C11.R6 — every entry posted to the release API is handed to the releaser: the loop calling releaseFunc ranges over the
// very slice the parsed requests were appended to
func ruleEveryPostedEntryReleased(c *Ctx, rule string) {
	fn := c.MustFn(rule, "pkg/ipam/api", "(*Controller).ReleaseIPs")
	if fn == nil {
		return
	}
	var rel []ssa.CallInstruction
	allInstrsX(fn, func(in ssa.Instruction) { // the release loop may live in a helper of the handler
		if call, ok := in.(*ssa.Call); ok && !call.Call.IsInvoke() {
			if _, name, ok := fieldLoad(call.Call.Value); ok && name == "releaseFunc" {
				rel = append(rel, call)
			}
		}
	})
	if len(rel) != 1 {
		c.undecided(rule, fn, "c.releaseFunc(req)", nil, fmt.Sprintf("expected one call, found %d", len(rel)))
		return
	}
	arg := rel[0].Common().Args[0]
	// arg = *(&slice[i]); slice must be built only by append/phi/nil in this function
	var sl ssa.Value
	if u, ok := arg.(*ssa.UnOp); ok {
		if ia, ok := u.X.(*ssa.IndexAddr); ok {
			sl = ia.X
		}
	}
	ok := sl != nil
	via := ""
	seen := map[ssa.Value]bool{}
	var walk func(v ssa.Value)
	walk = func(v ssa.Value) {
		if v == nil || seen[v] {
			return
		}
		seen[v] = true
		switch x := v.(type) {
		case *ssa.Phi:
			for _, e := range x.Edges {
				walk(e)
			}
		case *ssa.Const:
		case *ssa.Parameter:
			// the loop was extracted: the helper's parameter is what the handler passes
			acts := actualsOf(x)
			if len(acts) == 0 {
				ok = false
				via = "parameter without call sites"
			}
			for _, a := range acts {
				walk(a)
			}
		case *ssa.Call:
			if b, isB := x.Call.Value.(*ssa.Builtin); isB && b.Name() == "append" {
				walk(x.Call.Args[0])
				return
			}
			ok = false
			via = calleeName(x)
		case *ssa.Slice:
			// a sub-slice drops entries
			ok = false
			via = "sub-slice"
		case *ssa.UnOp:
			if a, isA := x.X.(*ssa.Alloc); isA {
				for _, ref := range *a.Referrers() {
					if st, isS := ref.(*ssa.Store); isS && st.Addr == a {
						walk(st.Val)
					}
				}
				return
			}
			ok = false
			via = "load"
		default:
			ok = false
			via = fmt.Sprintf("%T", v)
		}
	}
	walk(sl)
	// and each append adds a request built from the posted entry of this iteration
	c.ob(rule, fn, "every parsed release request reaches releaseFunc", rel[0], ok, "the release loop ranges over the slice the requests were appended to (append/phi chain only, no filter or sub-slice in between) "+via)
}

// C18.R10 — the retry of a failed unbind is bounded: the event is re-queued only after its retry counter was stored
// with an incremented value and only on the edge where the counter is below a constant
func ruleRetryBounded(c *Ctx, rule string) {
	root := c.MustFn(rule, spPkg, "(*FloatingIPPlugin).loop")
	if root == nil {
		return
	}
	n := 0
	fns := withAnon(root)
	// the worker may be a method started with `go` instead of a closure
	allInstrs(root, func(in ssa.Instruction) {
		if g, ok := in.(*ssa.Go); ok {
			if f := g.Call.StaticCallee(); f != nil && f.Blocks != nil && f.Pkg == root.Pkg {
				fns = append(fns, withAnon(f)...)
			}
		}
	})
	for _, fn := range fns {
		var sends []*ssa.Send
		allInstrs(fn, func(in ssa.Instruction) {
			if s, ok := in.(*ssa.Send); ok && pathEndsWith(s.Chan, "unreleased") {
				sends = append(sends, s)
			}
		})
		for _, s := range sends {
			n++
			// the counter field of the object sent
			var stores []ssa.Instruction
			inc := false
			allInstrs(fn, func(in ssa.Instruction) {
				st, ok := in.(*ssa.Store)
				if !ok {
					return
				}
				fa, ok := st.Addr.(*ssa.FieldAddr)
				if !ok || fieldName(fa.X.Type(), fa.Field) != "retryTimes" {
					return
				}
				if !(fa.X == s.X || sameAccess(fa.X, s.X) || unspill(fa.X) == unspill(s.X)) {
					return
				}
				stores = append(stores, st)
				if bo, ok := st.Val.(*ssa.BinOp); ok && bo.Op == token.ADD {
					if k, isC := constIntVal(bo.Y); isC && k >= 1 {
						if base, name, ok := fieldLoad(bo.X); ok && name == "retryTimes" {
							_ = base
							inc = true
						}
					}
				}
			})
			okStore := len(stores) > 0 && inc
			if okStore {
				r := reachFromEntry(fn, newCut().instr(stores...))
				okStore = !r.has(s)
			}
			// bounded: guarded by a comparison of the counter with a constant
			lim := guardEdges(fn, func(v ssa.Value) (bool, int) {
				bo, ok := v.(*ssa.BinOp)
				if !ok {
					return false, 0
				}
				if _, isC := bo.Y.(*ssa.Const); !isC {
					return false, 0
				}
				if _, name, ok := fieldLoad(bo.X); !ok || name != "retryTimes" {
					return false, 0
				}
				switch bo.Op {
				case token.GTR, token.GEQ:
					return true, 1
				case token.LSS, token.LEQ:
					return true, 0
				}
				return false, 0
			})
			okLim := len(lim) > 0 && guardedBy(fn, s, lim)
			c.ob(rule, fn, "a failed release event is re-queued a bounded number of times", s, okStore && okLim, fmt.Sprintf("every path to `p.unreleased <- event` stores event.retryTimes = event.retryTimes + k (k>=1) first (%v) and lies behind the `retryTimes <= const` edge (%v): an event whose unbind can never succeed is dropped for the resync instead of spinning for ever", okStore, okLim))
		}
	}
	if n == 0 {
		c.undecided(rule, root, "re-queue of a failed event", nil, "no send on p.unreleased in loop")
	}
}

var _ = strings.Contains
var _ types.Type

// C13.R9 / C08.R8 — per-range pickers agree on distinctness: both the allocator and the lookup that later reports the pod's
// ips walk the requested ranges one by one; an ip accepted for one range must be excluded for the later ranges of the same
// request (the allocator does so — its test even allocates two ips from one range twice given — so the lookup must, or
// the annotation carries one ip twice and a persisted ip never reaches the plugin)
func rulePerRangePickersDistinct(c *Ctx, rule string) {
	n := 0
	for _, name := range []string{"(*crdIpam).AllocateInSubnetsAndIPRange", "(*crdIpam).ByKeyAndIPRanges"} {
		fn := c.MustFn(rule, fipPkg, name)
		if fn == nil {
			continue
		}
		for _, w := range callsAllX(fn, fipPkg+".walkIPRanges") {
			mc, ok := stripConv(w.Common().Args[1]).(*ssa.MakeClosure)
			if !ok {
				continue
			}
			cl := mc.Fn.(*ssa.Function)
			// only pickers: callbacks that can stop the walk
			accepts := returnsConstBool(cl, true)
			if len(accepts) == 0 {
				continue
			}
			// inside a loop over the ranges of the request?
			inLoop := false
			for _, b := range w.Parent().Blocks {
				for _, p := range b.Preds {
					if b.Dominates(p) && naturalLoop(b)[w.Block()] {
						inLoop = true
					}
				}
			}
			if !inLoop {
				continue
			}
			n++
			isSetFV := func(v ssa.Value) bool {
				ld, ok := v.(*ssa.UnOp)
				if !ok {
					return false
				}
				_, isFV := ld.X.(*ssa.FreeVar)
				return isFV && strings.Contains(ld.Type().String(), "sets.String")
			}
			excl := guardEdges(cl, func(v ssa.Value) (bool, int) {
				call, ok := v.(*ssa.Call)
				if !ok || !nameMatch(calleeName(call), "sets.String).Has") || len(call.Call.Args) == 0 || !isSetFV(call.Call.Args[0]) {
					return false, 0
				}
				return true, 1 // the false edge: not yet chosen
			})
			var ins []ssa.Instruction
			for _, i := range calls(cl, "sets.String).Insert") {
				if len(i.Common().Args) > 0 && isSetFV(i.Common().Args[0]) {
					ins = append(ins, i)
				}
			}
			ok1, ok2 := len(excl) > 0, len(ins) > 0
			if ok1 && ok2 {
				r := reachFromEntry(cl, newCut().instr(ins...))
				for _, a := range accepts {
					if !guardedBy(cl, a, excl) {
						ok1 = false
					}
					if r.has(a) {
						ok2 = false
					}
				}
			}
			c.ob(rule, cl, "an ip accepted for one requested range is excluded for the later ranges", w, ok1 && ok2, fmt.Sprintf("the picker's `return true` lies behind the not-Has edge of a set shared across ranges (%v) and passes Insert into that set (%v): allocator and lookup report k distinct ips for k ranges", ok1, ok2))
		}
	}
	// matching form of the lookup: the answers are written from a map keyed by ip (ip -> index of the range it answers), so an
	// ip answers one range only by construction
	if fn := c.Fn(fipPkg, "(*crdIpam).ByKeyAndIPRanges"); fn != nil {
		var direct []*ssa.Store // answers written with another index than the map's value
		matching := 0
		defer func() {
			// with the matching form in use, an answer written past the ip -> range map (a fast path for single candidates, say)
			// is not recorded as taken and can be given to a second range
			if matching > 0 {
				for _, st := range direct {
					c.ob(rule, st.Parent(), "every answer goes through the ip -> range map", st, false, "ipinfos[i] is also written with an index that is not the value of the ip -> range map: that ip is not marked as taken and can answer a later, wider range again")
				}
			}
		}()
		for _, f := range withAnon(fn) {
			allInstrs(f, func(in ssa.Instruction) {
				st, ok := in.(*ssa.Store)
				if !ok || typeNameOf(st.Val.Type()) != "FloatingIPInfo" {
					return
				}
				ia, ok := st.Addr.(*ssa.IndexAddr)
				if !ok {
					return
				}
				if _, isMk := unspill(ia.X).(*ssa.MakeSlice); !isMk {
					if _, isFV := ia.X.(*ssa.UnOp); !isFV {
						return
					}
				}
				// index = value of a map range, stored info derived from the key of the same iteration
				ex, ok := ia.Index.(*ssa.Extract)
				if !ok {
					direct = append(direct, st)
					return // the picker form writes ipinfos[i] with the loop index: judged above
				}
				nx, ok := ex.Tuple.(*ssa.Next)
				if !ok || ex.Index != 2 {
					direct = append(direct, st)
					return
				}
				matching++
				rg, ok := nx.Iter.(*ssa.Range)
				if !ok {
					return
				}
				mt, isMap := rg.X.Type().Underlying().(*types.Map)
				okKey := isMap && types.Identical(mt.Key().Underlying(), types.Typ[types.String])
				fromKey := dependsOn(st.Val, func(x ssa.Value) bool {
					e2, ok := x.(*ssa.Extract)
					return ok && e2.Tuple == ssa.Value(nx) && e2.Index == 1
				})
				n++
				c.ob(rule, f, "an ip answers one requested range only", st, okKey && fromKey, "ipinfos[i] is written while ranging over a map keyed by ip (ip -> range index) with the entry of that very ip: two ranges cannot be answered by one ip")
			})
		}
	}
	if n < 2 {
		c.undecided(rule, nil, "per-range pickers", nil, fmt.Sprintf("expected the allocator's and the lookup's picker, found %d", n))
	}
}

// C20.R6 — a range decodes successfully only by assigning the parsed range to the receiver
func ruleRangeDecodeAssigns(c *Ctx, rule string) {
	fn := c.MustFn(rule, "pkg/utils/nets", "(*IPRange).UnmarshalJSON")
	if fn == nil {
		return
	}
	ps := calls(fn, "pkg/utils/nets.ParseIPRange")
	var stores []ssa.Instruction
	allInstrs(fn, func(in ssa.Instruction) {
		if st, ok := in.(*ssa.Store); ok {
			root := st.Addr
			for {
				if fa, ok := root.(*ssa.FieldAddr); ok {
					root = fa.X
					continue
				}
				break
			}
			if unspill(root) == ssa.Value(pAt(fn, 0)) || root == ssa.Value(pAt(fn, 0)) {
				stores = append(stores, st)
			}
		}
	})
	ok := len(ps) == 1 && len(stores) > 0
	if ok {
		r := reachFromEntry(fn, newCut().instr(stores...))
		for _, ret := range returns(fn) {
			if r.has(ret) && isNilConst(retVal(ret, 0)) {
				ok = false
			}
		}
		// the stores happen only behind the non-nil result of ParseIPRange
		res := ps[0].Value()
		g := nonNilEdgesOf(fn, func(x ssa.Value) bool {
			if x == res {
				return true
			}
			// `var parsed *IPRange; if len(data) >= 3 { parsed = ParseIPRange(..) }`: nil or the result
			if ph, isPhi := x.(*ssa.Phi); isPhi {
				hasRes := false
				for _, e := range ph.Edges {
					if e == res {
						hasRes = true
					} else if !isNilConst(e) {
						return false
					}
				}
				return hasRes
			}
			return false
		})
		for _, st := range stores {
			if !guardedBy(fn, st, g) {
				ok = false
			}
		}
	}
	c.ob(rule, fn, "a range text is accepted only by storing the parsed range", nil, ok, "every nil-error return of (*IPRange).UnmarshalJSON passes a store to the receiver that lies behind ParseIPRange(..) != nil: no text (null, empty) is accepted as a no-op leaving a zero range")
}

// C20.R7 — callbacks of walkIPRanges that build the tables enumerate: they never stop the walk
func ruleTableBuildersEnumerate(c *Ctx, rule string) {
	fn := c.MustFn(rule, fipPkg, "(*crdIpam).ConfigurePool")
	if fn == nil {
		return
	}
	n := 0
	for _, w := range calls(fn, fipPkg+".walkIPRanges") {
		mc, ok := stripConv(w.Common().Args[1]).(*ssa.MakeClosure)
		if !ok {
			c.undecided(rule, fn, "walkIPRanges callback", w, "callback is not a closure literal")
			continue
		}
		cl := mc.Fn.(*ssa.Function)
		n++
		onlyFalse := true
		for _, ret := range returns(cl) {
			if b, isC := constBoolVal(retVal(ret, 0)); !isC || b {
				onlyFalse = false
			}
		}
		c.ob(rule, cl, "the callback that fills the unallocated table visits every address of every pool", w, onlyFalse, "every return of the callback is the constant false (true would stop the walk of this pool: enumeration would disagree with Contains/Size)")
	}
	if n == 0 {
		c.undecided(rule, fn, "walkIPRanges", nil, "no enumeration of pool ranges found in ConfigurePool")
	}
}

// C19.R8 — objects handed out by an informer cache (lister Get/List, indexer lookups) are shared with every other reader:
// no field of such an object is written (a copy must be made first)
func ruleListerObjectsReadOnly(c *Ctx, rule string) {
	la := c.locks()
	isListerCall := func(call ssa.CallInstruction) bool {
		cc := call.Common()
		name := ""
		if cc.IsInvoke() {
			name = cc.Method.Name()
			rt := cc.Value.Type().String()
			if !(strings.HasSuffix(rt, "Lister") || strings.HasSuffix(rt, "NamespaceLister") || strings.HasSuffix(rt, "cache.Indexer") || strings.HasSuffix(rt, "cache.Store") || strings.HasSuffix(rt, "GenericLister") || strings.HasSuffix(rt, "GenericNamespaceLister")) {
				return false
			}
		} else {
			return false
		}
		switch name {
		case "Get", "List", "GetByKey", "ByIndex", "ListKeys":
			return name != "ListKeys"
		}
		return false
	}
	type item struct {
		fn *ssa.Function
		v  ssa.Value
		d  int
	}
	seen := map[ssa.Value]bool{}
	sites, writes := 0, 0
	var work []item
	for _, fn := range c.SrcFns {
		if isGenerated(fn) {
			continue
		}
		p := fn.Pkg.Pkg.Path()
		if strings.Contains(p, "/client/") || strings.Contains(p, "/testing") || strings.HasSuffix(p, "pkg/utils/test") {
			continue
		}
		allInstrs(fn, func(in ssa.Instruction) {
			call, ok := in.(*ssa.Call)
			if !ok || !isListerCall(call) {
				return
			}
			sites++
			for _, ref := range *call.Referrers() {
				if ex, ok := ref.(*ssa.Extract); ok && ex.Index == 0 {
					work = append(work, item{fn, ex, 0})
				}
			}
			if call.Call.Signature().Results().Len() == 1 {
				work = append(work, item{fn, call, 0})
			}
		})
	}
	for len(work) > 0 {
		it := work[len(work)-1]
		work = work[:len(work)-1]
		if seen[it.v] || it.d > 4 || it.v.Referrers() == nil {
			continue
		}
		seen[it.v] = true
		for _, ref := range *it.v.Referrers() {
			switch x := ref.(type) {
			case *ssa.FieldAddr:
				if x.X != it.v {
					continue
				}
				// a store to the field, or deeper
				for _, r2 := range *x.Referrers() {
					if st, ok := r2.(*ssa.Store); ok && st.Addr == ssa.Value(x) {
						writes++
						c.ob(rule, it.fn, "object from an informer cache is not written", st, false, "store to "+fieldName(x.X.Type(), x.Field)+" of an object obtained from a lister/indexer without DeepCopy: the object is shared with every other reader of the cache")
					}
				}
				work = append(work, item{it.fn, x, it.d})
			case *ssa.IndexAddr:
				if x.X == it.v {
					work = append(work, item{it.fn, x, it.d})
					for _, r2 := range *x.Referrers() {
						if ld, ok := r2.(*ssa.UnOp); ok && ld.X == ssa.Value(x) {
							if _, isPtr := ld.Type().Underlying().(*types.Pointer); isPtr {
								work = append(work, item{it.fn, ld, it.d})
							}
						}
					}
				}
			case *ssa.UnOp:
				// load of a pointer/map/slice field of the shared object: still shared
				if x.X == it.v {
					switch x.Type().Underlying().(type) {
					case *types.Map, *types.Slice, *types.Pointer:
						work = append(work, item{it.fn, x, it.d})
					}
				}
			case *ssa.MapUpdate:
				if x.Map == it.v {
					writes++
					c.ob(rule, it.fn, "object from an informer cache is not written", x, false, "map of an object obtained from a lister/indexer is updated in place")
				}
			case *ssa.Phi:
				work = append(work, item{it.fn, x, it.d})
			case *ssa.TypeAssert:
				work = append(work, item{it.fn, x, it.d})
			case *ssa.Extract:
				work = append(work, item{it.fn, x, it.d})
			case *ssa.Store:
				if x.Val == it.v {
					if a, ok := x.Addr.(*ssa.Alloc); ok {
						for _, r2 := range *a.Referrers() {
							if ld, ok := r2.(*ssa.UnOp); ok && ld.X == ssa.Value(a) {
								work = append(work, item{it.fn, ld, it.d})
							}
						}
					}
				}
			case ssa.CallInstruction:
				cc := x.Common()
				if cc.IsInvoke() || cc.StaticCallee() == nil {
					// method DeepCopy etc. on the object itself: results are fresh
				}
				for _, g := range la.calleesOf(x) {
					if g.Blocks == nil {
						continue
					}
					actuals := cc.Args
					if cc.IsInvoke() {
						actuals = append([]ssa.Value{cc.Value}, cc.Args...)
					}
					for i, a := range actuals {
						if a == it.v && i < len(g.Params) {
							work = append(work, item{g, g.Params[i], it.d + 1})
						}
					}
				}
			}
		}
	}
	c.ob(rule, nil, "lister / indexer lookups followed", nil, sites >= 10, fmt.Sprintf("%d lookups in informer caches followed through fields, elements, locals and module callees (depth 4); %d writes found", sites, writes))
}

// C19.R9 — a container is published into a guarded table only after it was filled: no in-place update of a local map/slice
// on a path after it was stored into a lock-protected field or map (the later updates would run outside the lock's protection
// of readers that found the container through the table)
func rulePublishAfterFill(c *Ctx, rule string) {
	la := c.locks()
	n := 0
	for _, fn := range c.SrcFns {
		if isGenerated(fn) {
			continue
		}
		allInstrs(fn, func(in ssa.Instruction) {
			var pub ssa.Value
			switch x := in.(type) {
			case *ssa.MapUpdate:
				if ld, ok := x.Map.(*ssa.UnOp); ok {
					if fa, ok := ld.X.(*ssa.FieldAddr); ok && la.specOfFieldAddr(fa) != nil {
						pub = x.Value
					}
				}
			case *ssa.Store:
				if fa, ok := x.Addr.(*ssa.FieldAddr); ok && la.specOfFieldAddr(fa) != nil {
					pub = x.Val
				}
			}
			if pub == nil {
				return
			}
			switch pub.Type().Underlying().(type) {
			case *types.Map, *types.Slice:
			default:
				return
			}
			if _, isMake := pub.(*ssa.MakeMap); !isMake {
				if _, isMs := pub.(*ssa.MakeSlice); !isMs {
					if _, isPhi := pub.(*ssa.Phi); !isPhi {
						if _, isLd := pub.(*ssa.UnOp); !isLd {
							return
						}
					}
				}
			}
			n++
			after := c.reachAfter(in, nil)
			bad := ""
			same := func(v ssa.Value) bool { return v == pub || sameAccess(v, pub) }
			allInstrs(fn, func(i2 ssa.Instruction) {
				if !after.has(i2) || i2 == in {
					return
				}
				switch y := i2.(type) {
				case *ssa.MapUpdate:
					if same(y.Map) {
						bad = c.instrPos(y)
					}
				case *ssa.Store:
					if ia, ok := y.Addr.(*ssa.IndexAddr); ok && same(ia.X) {
						bad = c.instrPos(y)
					}
				}
			})
			c.ob(rule, fn, "a container stored into a guarded table is complete when it is published", in, bad == "", "no in-place update of the published map/slice on a path after the publishing store "+bad)
		})
	}
	if n < 3 {
		c.undecided(rule, nil, "publishing stores", nil, fmt.Sprintf("expected at least 3 stores of local containers into guarded tables, found %d", n))
	}
}
