package main

import (
	"golang.org/x/tools/go/ssa"
)

// C10 — unbind: unassign from the stored node before freeing; failure stops.
func ruleUnbindCloudOrder(c *Ctx, rule string) {
	fn := c.MustFn(rule, spPkg, "(*FloatingIPPlugin).unbind")
	if fn == nil {
		return
	}
	un := calls(fn, "(*FloatingIPPlugin).cloudProviderUnAssignIP")
	final := calls(fn, "(*FloatingIPPlugin).unbindDpPod", "(*FloatingIPPlugin).unbindNoneDpPod")
	if len(un) == 0 || len(final) == 0 {
		c.ob(rule, fn, "unassign before free", nil, false, "cloudProviderUnAssignIP or unbind*Pod call not found in unbind")
		return
	}
	for _, s := range un {
		host := s.Parent()
		// the unassign loop may have been extracted into a helper: its failure must surface from the helper, and the call of
		// the helper in unbind is then the step whose failure must stop and be returned
		levels := []struct {
			f    *ssa.Function
			call ssa.CallInstruction
		}{{host, s}}
		if host != fn {
			for _, site := range staticSites[host] {
				if site.Parent() == fn {
					levels = append(levels, struct {
						f    *ssa.Function
						call ssa.CallInstruction
					}{fn, site})
				}
			}
			if len(levels) == 1 {
				c.undecided(rule, fn, "call of the unassign helper", s, "the helper holding the unassign is not called from unbind")
			}
		}
		for _, lv := range levels {
			bad, dec := onErrorNever(lv.call, toInstrs(final))
			if !dec {
				c.ob(rule, lv.f, "failed unassign stops", lv.call, false, "error of "+shortCallee(lv.call)+" is not tested")
			} else {
				c.ob(rule, lv.f, "failed unassign stops", lv.call, bad == nil, "no unbind*Pod reachable from the err!=nil edge of the unassign")
			}
			ok, _, why := onErrorReturnsErr(lv.f, lv.call)
			c.ob(rule, lv.f, "failed unassign is returned (event is retried)", lv.call, ok, "non-nil error returned from the err!=nil edge "+why)
		}
		for _, m := range final {
			c.ob(rule, fn, "never free first: no unassign after "+shortCallee(m), m, !c.reachAfter(m, nil).has(s), "cloudProviderUnAssignIP not reachable after the freeing call")
		}
		// the unassign loop covers every ip of the key: it ranges over the ByKeyAndIPRanges(key, nil) result
		look := calls(fn, "IPAM).ByKeyAndIPRanges")
		okL := len(look) == 1 && isNilConst(callArgs(look[0])[1]) && precedes(fn, toInstrs(look), s)
		c.ob(rule, fn, "unassign iterates over all ips stored for the key", s, okL, "ByKeyAndIPRanges(key, nil) precedes the unassign loop")
		// request fields come from the stored record
		req := callArgs(s)[0]
		allInstrs(host, func(in ssa.Instruction) {
			st, ok := in.(*ssa.Store)
			if !ok {
				return
			}
			fa, ok := st.Addr.(*ssa.FieldAddr)
			if !ok || fa.X != req {
				return
			}
			f := fieldName(fa.X.Type(), fa.Field)
			fromLookup := func(v ssa.Value) bool {
				return dependsOn(v, func(x ssa.Value) bool {
					cl, _ := callOf(x)
					return cl != nil && len(look) == 1 && ssa.Instruction(cl) == ssa.Instruction(look[0].(*ssa.Call))
				})
			}
			switch f {
			case "NodeName":
				c.ob(rule, fn, "unassign request NodeName is the stored node of the ip", st, pathEndsWith(st.Val, "NodeName") && fromLookup(st.Val), "UnAssignIPRequest.NodeName = <stored record>.NodeName")
			case "IPAddress":
				c.ob(rule, fn, "unassign request IPAddress is the stored ip", st, fromLookup(st.Val), "UnAssignIPRequest.IPAddress derives from the stored record")
			}
		})
	}
	// with a provider configured, the freeing calls are preceded by the lookup+loop
	cp := guardEdgesX(fn, predNeq(func(v ssa.Value) bool { return pathEndsWith(v, "cloudProvider") }, isNilConst))
	c.ob(rule, fn, "unassign loop is entered whenever a provider is configured", nil, func() bool {
		for _, e := range cp {
			// the test that guards the loop (in unbind or in the helper holding the loop), not the one inside the provider wrapper
			if e.from.Parent() != fn && e.from.Parent() != un[0].Parent() {
				continue
			}
			if reachFromEdge(e, nil).anyCall(un) != nil {
				return true
			}
		}
		return false
	}(), "the unassign is reachable from the cloudProvider != nil edge")
}

// C10.R3/R4 — assign in allocateIP.
func ruleAssignInBind(c *Ctx, rule string) {
	fn := c.MustFn(rule, spPkg, "(*FloatingIPPlugin).allocateIP")
	if fn == nil {
		return
	}
	as := calls(fn, "(*FloatingIPPlugin).cloudProviderAssignIP")
	if len(as) == 0 {
		c.ob(rule, fn, "assign on bind", nil, false, "cloudProviderAssignIP call not found in allocateIP")
		return
	}
	ei := errResultIndex(fn)
	for _, s := range as {
		ok, dec, why := onErrorReturnsErr(fn, s)
		c.ob(rule, fn, "failed assign fails the bind", s, ok && dec, "non-nil error returned from the err!=nil edge "+why)
		// every successful return of allocateIP passes the assign loop header (each ip returned was assigned)
		hdr := loopHeaderOf(s)
		okAll := hdr != nil
		for _, ret := range returns(fn) {
			if v, isC := retVal(ret, ei).(*ssa.Const); isC && v.IsNil() {
				if hdr == nil || !precedes(fn, []ssa.Instruction{hdr.Instrs[0]}, ret) {
					okAll = false
				}
			}
		}
		c.ob(rule, fn, "successful return only after the assign loop", s, okAll, "every `return cniArgs, nil` is preceded by the loop that assigns each ip")
		req := callArgs(s)[0]
		allInstrs(fn, func(in ssa.Instruction) {
			st, ok := in.(*ssa.Store)
			if !ok {
				return
			}
			fa, ok := st.Addr.(*ssa.FieldAddr)
			if !ok || fa.X != req {
				return
			}
			if fieldName(fa.X.Type(), fa.Field) == "NodeName" {
				c.ob(rule, fn, "assign request NodeName is the node being bound", st, sameParam(st.Val, pAt(fn, 2)), "AssignIPRequest.NodeName = nodeName parameter")
			}
		})
	}
	// Attr.NodeName stored for the ip is the same node
	bind := c.MustFn(rule, spPkg, "(*FloatingIPPlugin).Bind")
	if bind != nil {
		al := calls(bind, "(*FloatingIPPlugin).allocateIP")
		if len(al) == 1 {
			c.ob(rule, bind, "allocateIP receives the node of the bind request", al[0], pathEndsWith(callArgs(al[0])[1], "Node"), "allocateIP(key, args.Node, pod)")
		}
	}
}
