package main

func init() {
	register(&propDef{ID: "C19", Title: "Shared state is free of data races under concurrent requests",
		Explanation: "Decides the guarded-by discipline (necessary for race freedom) of the shared mutable state found by reading: every access to the listed struct fields, to the maps they hold, and to the guarded fields of objects stored in those maps has the owning lock in its must-hold set on every path from every entry point (lockset analysis over SSA, interprocedural by requires-summaries); (R4) the lock-free shared fields of the long-lived objects are stored only on freshly allocated objects or in the constructor/init functions; (R5) no closure started with `go` captures a variable that is assigned again after the go statement; the static CNI network configuration is never written after Init; (R7) every field of the 8 long-lived shared struct types is classified: guarded, write-once, synchronisation primitive, inferred write-once (stored only on fresh objects, address never handed out, container never updated in place) or a named exemption — a field that is in no table but is written after construction is treated as guarded by its struct's lock, so R1 checks every access of it (a new field that is properly locked passes, an unlocked one is reported at the access; on a lock-less struct it is reported as unclassified); (R8) no field or map of an object obtained from a lister/indexer is written (16 lookups followed through fields, elements, locals and module callees); (R9) a local map/slice stored into a guarded field or map is not updated in place on any path after the publishing store. Does not decide race freedom of state outside the table, happens-before publication, or races inside dependencies. (R10) no MapUpdate / delete in the ipam packages writes a map read from <FloatingIP>.Labels: the label map is shared with handed-out copies and is only ever replaced. (R11) every store to a field of grpcCloudProvider is on the fresh object or inside the closure handed to sync.Once.Do. (R12) every call of (*runner).run in pkg/utils/iptables happens with runner.mu held, directly or in an unexported helper all of whose call sites hold it. (R13) a closure started with `go` stores to no by-reference capture that the starter or a sibling goroutine also accesses, unless it takes a mutex.",
		Assumptions: []string{"locks are identified by (struct type, field): distinct instances of the same type are not distinguished", "no reflection/unsafe access to the guarded fields"},
		Run: func(c *Ctx) {
			c.Rule("C19.R1", "guarded-by: every entry point reaches accesses of the 7 shared states only with the owning lock held (R for reads, W for writes)", 31)
			ruleGuardedBy(c, "C19.R1", []string{cacheLockID, "FloatingIPPlugin.nodeSubnetLock", "crdKey.Mutex", "crdCache.lock", "PortMappingHandler.Mutex", "PolicyManager.Mutex"}, 25)
			c.Rule("C19.R3", "the static CNI network configuration is shared read-only (never written after Init)", 1)
			ruleSharedConfImmutable(c, "C19.R3")
			c.Rule("C19.R6", "a pool's node-subnet set is read-only after ConfigurePool; hand-outs are copies", 1)
			rulePoolSetsImmutable(c, "C19.R6")
			c.Rule("C19.R4", "shared fields without a lock are write-once (constructor / init only)", 15)
			ruleWriteOnce(c, "C19.R4")
			c.Rule("C19.R13", "a goroutine does not write a captured variable without a lock", 2)
			ruleGoroutineWritesCaptured(c, "C19.R13")
			c.Rule("C19.R5", "goroutine closures share no variable written after they started", 5)
			ruleGoClosureCaptures(c, "C19.R5")
			c.Rule("C19.R7", "every field of the long-lived shared objects is classified (guarded, write-once, primitive, or named exemption)", 27)
			ruleSharedFieldInventory(c, "C19.R7")
			c.Rule("C19.R8", "objects from informer caches are never written", 1)
			ruleListerObjectsReadOnly(c, "C19.R8")
			c.Rule("C19.R9", "containers are published into guarded tables only after they were filled", 3)
			rulePublishAfterFill(c, "C19.R9")
			c.Rule("C19.R12", "every iptables command is built and run under the runner's mutex", 4)
			ruleRunnerRunUnderMutex(c, "C19.R12")
			c.Rule("C19.R11", "the cloud-provider client object is written only when fresh or inside sync.Once.Do", 2)
			ruleProviderFieldsOnceOrFresh(c, "C19.R11")
			c.Rule("C19.R10", "label maps of ipam entries (shared with handed-out copies) are replaced, never mutated in place", 3)
			ruleLabelMapsReplaced(c, "C19.R10")
			c.Rule("C19.R2", "slices in guarded fields are replaced wholesale, never modified in place", 5)
			ruleNoInPlaceSliceReuse(c, "C19.R2")
		}})
}
