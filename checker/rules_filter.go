package main

import (
	"fmt"
	"go/token"
	"go/types"

	"golang.org/x/tools/go/ssa"
)

func isConstFalse(v ssa.Value) bool { b, ok := constBoolVal(v); return ok && !b }

// dominatedByCall: the block of `at` is dominated by the block of call (or same block, later).
func (c *Ctx) dominatedBy(call ssa.Instruction, b *ssa.BasicBlock) bool {
	cb := call.Block()
	return cb == b || cb.Dominates(b)
}

// C07 — count + allocate inside the pool lock.
func rulePoolLock(c *Ctx, rule string) {
	la := c.locks()
	// wiring of PoolController.LockPoolFunc
	bound := false
	nStores := 0
	for fv, fs := range la.fieldFns {
		if fv.Name() != "LockPoolFunc" {
			continue
		}
		for _, f := range fs {
			nStores++
			if f != nil && la.info[f] != nil && la.info[f].wrapper == dpLockID {
				bound = true
			} else {
				bound = false
			}
		}
	}
	c.ob(rule, nil, "PoolController.LockPoolFunc is bound to the pool-lock wrapper", nil, bound && nStores == 1,
		fmt.Sprintf("%d store(s) into the field; each must be the wrapper that acquires %s and returns its releaser", nStores, dpLockID))

	// filter
	if fn := c.MustFn(rule, spPkg, "(*FloatingIPPlugin).getSubnet"); fn != nil {
		lk := calls(fn, "(*FloatingIPPlugin).LockDpPool")
		cnt := calls(fn, "(*FloatingIPPlugin).getAvailableSubnet")
		alc := calls(fn, "(*FloatingIPPlugin).allocateDuringFilter")
		if len(lk) != 1 || len(cnt) != 1 || len(alc) != 1 {
			c.undecided(rule, fn, "LockDpPool / getAvailableSubnet / allocateDuringFilter", nil, "expected exactly one call of each")
		} else {
			c.ob(rule, fn, "pool lock key is the key's pool prefix", lk[0], isResultOf(callArgs(lk[0])[0], 0, "(*KeyObj).PoolPrefix"), "LockDpPool(keyObj.PoolPrefix())")
			dp := guardEdges(fn, predCall("(*KeyObj).Deployment", nil))
			c.ob(rule, fn, "deployment pods always take the pool lock before counting", cnt[0], len(dp) > 0 && everyPathPassesTo(fn, dp, lk[0], cnt[0]),
				"from the keyObj.Deployment() edge every path to getAvailableSubnet passes LockDpPool (whose releaser is deferred: C18.R4)")
			c.ob(rule, fn, "no count / allocate before the lock on the deployment path", lk[0], !c.reachAfter(cnt[0], nil).has(lk[0]) && !c.reachAfter(alc[0], nil).has(lk[0]), "LockDpPool is not reachable after getAvailableSubnet / allocateDuringFilter")
			// a sized pool allocates during filter (under the lock), not later in bind: allocateDuringFilter is reachable
			// through the true edge of a test of the very isPoolSizeDefined value given to getAvailableSubnet
			sized := callArgs(cnt[0])[3]
			sizedEdges := guardEdges(fn, predBool(func(v ssa.Value) bool { return v == sized }))
			okSized := false
			for _, e := range sizedEdges {
				if reachFromEdge(e, nil).has(alc[0]) {
					okSized = true
				}
			}
			c.ob(rule, fn, "a pod of a sized pool gets its ip during filter, inside the pool lock", alc[0], okSized, "allocateDuringFilter is reachable through the true edge of `isPoolSizeDefined` (deferring the allocation to bind would leave count and allocate in different critical sections)")
			for _, it := range []struct {
				call ssa.CallInstruction
				idx  int
				what string
			}{{cnt[0], 3, "getAvailableSubnet"}, {alc[0], 2, "allocateDuringFilter"}} {
				v := argNamed(it.call, "isPoolSizeDefined", it.idx)
				if v == nil {
					c.undecided(rule, fn, "isPoolSizeDefined argument of "+it.what, it.call, "the argument that carries `isPoolSizeDefined` was not found (neither a parameter nor a field of a parameter struct of that name)")
					continue
				}
				ok := true
				why := ""
				if ph, isPhi := v.(*ssa.Phi); isPhi {
					for i, e := range ph.Edges {
						if isConstFalse(e) {
							continue
						}
						if !c.dominatedBy(lk[0], ph.Block().Preds[i]) {
							ok = false
							why = fmt.Sprintf("edge from b%d may carry true without the lock", ph.Block().Preds[i].Index)
						}
					}
				} else if !isConstFalse(v) {
					ok = c.dominatedBy(lk[0], it.call.Block())
				}
				c.ob(rule, fn, "isPoolSizeDefined given to "+it.what+" implies the pool lock is held", it.call, ok, "the value is the constant false on every path that does not pass LockDpPool "+why)
			}
		}
	}
	if fn := c.MustFn(rule, spPkg, "(*FloatingIPPlugin).getAvailableSubnet"); fn != nil {
		bp := calls(fn, "IPAM).ByPrefix")
		dp := guardEdges(fn, predCall("(*KeyObj).Deployment", nil))
		for _, b := range bp {
			c.ob(rule, fn, "the count is taken only for deployment keys (which hold the pool lock)", b, guardedBy(fn, b, dp), "ByPrefix reachable only through the keyObj.Deployment() edge")
			c.ob(rule, fn, "the count is over the locked prefix", b, isResultOf(callArgs(b)[0], 0, "(*KeyObj).PoolPrefix"), "ByPrefix(keyObj.PoolPrefix())")
		}
		// limit: the error return on usedCount >= replicas; a subnet set is returned only on the complement
		limit := guardEdges(fn, func(v ssa.Value) (bool, int) {
			bo, ok := v.(*ssa.BinOp)
			if !ok {
				return false, 0
			}
			isRep := func(x ssa.Value) bool { return sameParam(x, pAt(fn, 3)) }
			switch {
			case bo.Op == token.GEQ && isRep(bo.Y), bo.Op == token.LEQ && isRep(bo.X):
				return true, 0
			case bo.Op == token.LSS && isRep(bo.Y), bo.Op == token.GTR && isRep(bo.X):
				return true, 1
			}
			return false, 0
		})
		ei := errResultIndex(fn)
		ok := len(limit) == 1
		if ok {
			r := reachFromEdge(limit[0], nil)
			n := 0
			for _, ret := range returns(fn) {
				if r.has(ret) {
					n++
					if !nonNilErrOperand(retVal(ret, ei), nil) {
						ok = false
					}
				}
			}
			ok = ok && n > 0
			// no ipam query after the limit was hit
			if r.anyCall(calls(fn, "IPAM).NodeSubnetsByIPRanges")) != nil {
				ok = false
			}
		}
		c.ob(rule, fn, "size / replicas limit stops the filter", nil, ok, "from the usedCount >= replicas edge every return carries an error and no subnet is computed")
		// the limit test dominates every success return on the deployment path
		if len(limit) == 1 && len(dp) > 0 {
			iff := limit[0].from.Instrs[len(limit[0].from.Instrs)-1]
			okD := true
			for _, e := range dp {
				r := reachFromEdge(e, newCut().instr(iff))
				for _, ret := range returns(fn) {
					if r.has(ret) {
						if k, isC := retVal(ret, ei).(*ssa.Const); isC && k.IsNil() {
							okD = false
						}
					}
				}
			}
			c.ob(rule, fn, "on the reserving-deployment path no subnet is returned without passing the limit test", nil, okD, "success returns on the `Deployment() && policy != PodDelete` path are preceded by the usedCount >= replicas test")
		}
	}
	// pre-allocation through the API
	if fn := c.MustFn(rule, "pkg/ipam/api", "(*PoolController).preAllocateIP"); fn != nil {
		bp := calls(fn, "IPAM).ByPrefix")
		al := calls(fn, "IPAM).AllocateInSubnet")
		if len(bp) != 1 || len(al) == 0 {
			c.undecided(rule, fn, "ByPrefix / AllocateInSubnet", nil, "expected calls not found")
		} else {
			for _, m := range append(bp, al...) {
				ok, held := heldAt(c, fn, m, dpLockID)
				c.ob(rule, fn, shortCallee(m)+" under the pool lock", m, ok, "must-hold set at the call: "+held)
			}
			key := callArgs(bp[0])[0]
			okK := isResultOf(key, 0, "(*KeyObj).PoolPrefix")
			for _, a := range al {
				if callArgs(a)[0] != key {
					okK = false
				}
			}
			// the lock key is the same value
			okL := false
			allInstrs(fn, func(in ssa.Instruction) {
				if call, ok := in.(*ssa.Call); ok && calleeName(call) == "" && len(call.Call.Args) == 1 && call.Call.Args[0] == key {
					okL = true
				}
			})
			c.ob(rule, fn, "lock key = counted prefix = allocation key = pool prefix", bp[0], okK && okL, "LockPoolFunc(p)(); ByPrefix(p); AllocateInSubnet(p, ..) with p = KeyObj.PoolPrefix()")
		}
	}
	if fn := c.MustFn(rule, spPkg, "(*FloatingIPPlugin).unbindDpPod"); fn != nil {
		bp := calls(fn, "IPAM).ByPrefix")
		for _, b := range bp {
			ok, held := heldAt(c, fn, b, dpLockID)
			c.ob(rule, fn, "unbind counts under the pool lock", b, ok, "must-hold set at ByPrefix: "+held)
			r := c.reachAfter(b, nil)
			for _, m := range calls(fn, "(*FloatingIPPlugin).releaseIP", "(*FloatingIPPlugin).reserveIP") {
				if r.has(m) {
					ok, held := heldAt(c, fn, m, dpLockID)
					c.ob(rule, fn, shortCallee(m)+" decided by the count runs under the pool lock", m, ok, "must-hold set: "+held)
				}
			}
		}
		lk := calls(fn, "(*FloatingIPPlugin).LockDpPool")
		if len(lk) == 1 && len(bp) == 1 {
			c.ob(rule, fn, "lock key = counted prefix", lk[0], sameAccessOrValue(callArgs(lk[0])[0], callArgs(bp[0])[0]), "LockDpPool(prefixKey); ByPrefix(prefixKey)")
		}
	}
	ruleFilterAllocErrors(c, rule)
}

// a failed re-key never falls through to a fresh allocation; errors on the allocate-during-filter path are returned.
func ruleFilterAllocErrors(c *Ctx, rule string) {
	if fn := c.MustFn(rule, spPkg, "(*FloatingIPPlugin).allocateDuringFilter"); fn != nil {
		rk := calls(fn, "(*FloatingIPPlugin).allocateInSubnetWithKey")
		fr := calls(fn, "(*FloatingIPPlugin).allocateInSubnet")
		for _, s := range rk {
			bad, dec := onErrorNever(s, toInstrs(fr))
			c.ob(rule, fn, "a failed re-key never falls back to a fresh allocation", s, dec && bad == nil, "allocateInSubnet is unreachable from the err!=nil edge of allocateInSubnetWithKey")
		}
		resv := guardEdges(fn, predBool(func(v ssa.Value) bool { return isParamOrField(fn, v, "reserve") }))
		for _, s := range fr {
			c.ob(rule, fn, "fresh allocation only when nothing is reserved", s, len(resv) > 0 && !reachFromEdgeAny(resv, s), "allocateInSubnet unreachable from the `reserve` edge")
		}
	}
	ruleErrorsReturned(c, rule, []string{"(*FloatingIPPlugin).allocateDuringFilter", "(*FloatingIPPlugin).allocateInSubnet", "(*FloatingIPPlugin).allocateInSubnetWithKey"}, spPkg)
}

func reachFromEdgeAny(es []edge, m ssa.Instruction) bool {
	for _, e := range es {
		if reachFromEdge(e, nil).has(m) {
			return true
		}
	}
	return false
}

func sameAccessOrValue(a, b ssa.Value) bool { return a == b || sameAccess(a, b) }

// everyPathPassesTo: from each edge, every path to `to` passes `via`.
func everyPathPassesTo(fn *ssa.Function, from []edge, via, to ssa.Instruction) bool {
	for _, e := range from {
		if reachFromEdge(e, newCut().instr(via)).has(to) {
			return false
		}
	}
	return true
}

// C02.R1/R2, C06.R3-R5 — filter and bind reuse what the pod already holds.
func ruleStickyLookup(c *Ctx, rule string) {
	if fn := c.MustFn(rule, spPkg, "(*FloatingIPPlugin).allocateIP"); fn != nil {
		look := calls(fn, "IPAM).ByKeyAndIPRanges")
		al := calls(fn, "IPAM).AllocateInSubnetsAndIPRange")
		if len(look) == 0 || len(al) != 1 {
			c.undecided(rule, fn, "lookup / allocate", nil, "expected ByKeyAndIPRanges and one AllocateInSubnetsAndIPRange call")
		} else {
			first := look[0]
			c.ob(rule, fn, "bind looks up the pod's ips before allocating", al[0], precedes(fn, []ssa.Instruction{first}, al[0]) && sameParam(callArgs(first)[0], pAt(fn, 1)) && sameParam(callArgs(al[0])[0], pAt(fn, 1)),
				"ByKeyAndIPRanges(key, ..) precedes AllocateInSubnetsAndIPRange(key, ..) on every path, same key parameter")
			// allocate only on a branch that depends on the lookup result
			var res ssa.Value
			for _, ref := range *first.Value().Referrers() {
				if ex, ok := ref.(*ssa.Extract); ok && ex.Index == 0 {
					res = ex
				}
			}
			dep := guardEdges(fn, func(v ssa.Value) (bool, int) {
				if dependsOn(v, func(x ssa.Value) bool { return x == res }) {
					return true, 0
				}
				return false, 0
			})
			depBoth := append([]edge{}, dep...)
			for _, e := range dep {
				depBoth = append(depBoth, edge{e.from, 1 - e.succ})
			}
			// there must be a path from entry to a success return that avoids the allocation (reuse path)
			ei := errResultIndex(fn)
			r := reachFromEntry(fn, newCut().instr(al[0]))
			reuse := false
			for _, ret := range returns(fn) {
				if r.has(ret) {
					if k, ok := retVal(ret, ei).(*ssa.Const); ok && k.IsNil() {
						reuse = true
					}
				}
			}
			c.ob(rule, fn, "a pod that already holds all its ips is bound without allocating", al[0], reuse && len(dep) > 0, "a success return is reachable without passing AllocateInSubnetsAndIPRange, on a branch that depends on the lookup result")
			// the range argument is the filtered 'still unallocated' value, not the raw request
			rng := callArgs(al[0])[2]
			raw := callArgs(first)[1]
			isAppendOfRaw := dependsOn(rng, func(x ssa.Value) bool {
				call, ok := x.(*ssa.Call)
				if !ok {
					return false
				}
				b, ok := call.Call.Value.(*ssa.Builtin)
				return ok && b.Name() == "append"
			})
			c.ob(rule, fn, "only the ranges without a held ip are allocated", al[0], rng != raw && isAppendOfRaw, "the range argument is the list built from ranges whose lookup entry is nil, not the raw request")
			// the nil test that builds the list
			nilT := guardEdges(fn, predEq(func(v ssa.Value) bool {
				return dependsOn(v, func(x ssa.Value) bool { return x == res }) && isPtrTo(v, "FloatingIPInfo")
			}, isNilConst))
			c.ob(rule, fn, "a range is queued for allocation only if its lookup entry is nil", al[0], len(nilT) > 0 && appendGuarded(fn, rng, nilT), "the append to the unallocated-range list is reachable only through the `ipInfos[i] == nil` edge")
			// reused ips only get their attributes refreshed, under the same key
			for _, u := range calls(fn, "IPAM).UpdateAttr") {
				c.ob(rule, fn, "a reused ip keeps its key (attributes only)", u, sameParam(callArgs(u)[0], pAt(fn, 1)), "UpdateAttr(key, ip, attr) with the pod's key")
			}
		}
	}
	if fn := c.MustFn(rule, spPkg, "(*FloatingIPPlugin).getSubnet"); fn != nil {
		look := calls(fn, "IPAM).ByKeyAndIPRanges")
		cnt := calls(fn, "(*FloatingIPPlugin).getAvailableSubnet")
		alc := calls(fn, "(*FloatingIPPlugin).allocateDuringFilter")
		if len(look) != 1 || len(cnt) != 1 || len(alc) != 1 {
			c.undecided(rule, fn, "lookup / getAvailableSubnet / allocateDuringFilter", nil, "expected exactly one call of each")
			return
		}
		c.ob(rule, fn, "filter looks up the pod's ips first", cnt[0], precedes(fn, toInstrs(look), cnt[0]) && precedes(fn, toInstrs(look), alc[0]) && pathEndsWith(callArgs(look[0])[0], "KeyInDB"),
			"ByKeyAndIPRanges(keyObj.KeyInDB, ..) precedes getAvailableSubnet and allocateDuringFilter")
		var res ssa.Value
		for _, ref := range *look[0].Value().Referrers() {
			if ex, ok := ref.(*ssa.Extract); ok && ex.Index == 0 {
				res = ex
			}
		}
		fromRes := func(v ssa.Value) bool { return dependsOn(v, func(x ssa.Value) bool { return x == res }) }
		// early returns: a success return not passing getAvailableSubnet whose value derives from NodeSubnets of the lookup
		ei := errResultIndex(fn)
		r := reachFromEntry(fn, newCut().instr(cnt[0]))
		n, ok := 0, true
		for _, ret := range returns(fn) {
			if !r.has(ret) {
				continue
			}
			if k, isC := retVal(ret, ei).(*ssa.Const); !isC || !k.IsNil() {
				continue
			}
			n++
			v := retVal(ret, 0)
			if !(fromRes(v) && dependsOn(v, func(x ssa.Value) bool { return isFieldLoadNamed(x, "NodeSubnets") })) {
				ok = false
			}
		}
		c.ob(rule, fn, "a pod that already holds its ips is offered only their node subnets", nil, ok && n >= 2, fmt.Sprintf("%d success returns bypass getAvailableSubnet; each returns a set derived from <lookup result>.NodeSubnets", n))
		// C06.R5: for a partly allocated request the result is intersected with the held ips' subnets
		inter := calls(fn, "sets.String).Intersection")
		var fin ssa.CallInstruction
		for _, ic := range inter {
			if c.reachAfter(cnt[0], nil).has(ic) {
				fin = ic
			}
		}
		if fin == nil {
			c.ob(rule, fn, "result intersected with the subnets of ips already held", nil, false, "no Intersection call after getAvailableSubnet")
		} else {
			arg := callArgs(fin)[0]
			okA := fromRes(arg) && dependsOn(arg, func(x ssa.Value) bool { return isFieldLoadNamed(x, "NodeSubnets") })
			// executed whenever an ip is held: the Intersection lies behind the true edge of a bool flag that every recorded held
			// ip sets (the emptiness of the held set is no such test: an empty intersection restricts too, C06.R15)
			okE := false
			for _, iff := range controllingIfs(fin) {
				// a value `len(<list built from the lookup result>) > 0` is evidence of a held ip as well (the list of held ips)
				evidence := 0
				lenOfHeld := func(v ssa.Value) bool {
					bo, ok := v.(*ssa.BinOp)
					if !ok || !(bo.Op == token.GTR || bo.Op == token.NEQ) {
						return false
					}
					if k, isC := constIntVal(bo.Y); !isC || k != 0 {
						return false
					}
					call, ok := bo.X.(*ssa.Call)
					if !ok {
						return false
					}
					if b, isB := call.Call.Value.(*ssa.Builtin); !isB || b.Name() != "len" {
						return false
					}
					if _, isSlice := call.Call.Args[0].Type().Underlying().(*types.Slice); !isSlice {
						return false
					}
					if fromRes(call.Call.Args[0]) {
						evidence++
						return true
					}
					return false
				}
				trueIn, falseIn, isFlag := flagEdgesX(iff.Cond, lenOfHeld)
				if !isFlag || len(trueIn)+evidence == 0 || !c.reachAfter(cnt[0], nil).has(iff) {
					continue
				}
				e := edge{iff.Block(), 0}
				if !reachFromEdge(e, nil).has(fin) {
					continue
				}
				ok := true
				// every path from the flag's true edge to a return passes the intersection
				rr := reachFromEdge(e, newCut().instr(fin))
				for _, ret := range returns(fn) {
					if rr.has(ret) {
						ok = false
					}
				}
				// after a held ip has contributed its node subnets the test is reached only through an edge that sets the flag
				contrib := 0
				for _, k := range calls(fn, "sets.String).Insert", "sets.String).Intersection") {
					if k == fin || loopHeaderOf(k) == nil {
						continue
					}
					from := false
					for _, a := range k.Common().Args {
						if fromRes(a) && dependsOn(a, func(x ssa.Value) bool { return isFieldLoadNamed(x, "NodeSubnets") }) {
							from = true
						}
					}
					if !from {
						continue
					}
					contrib++
					if c.reachAfter(k, newCut().edge(trueIn...)).has(iff) {
						ok = false
					}
				}
				// and nothing clears the flag afterwards
				for _, te := range trueIn {
					for _, fe := range falseIn {
						if reachFromEdge(te, nil).has(lastInstr(fe.from)) {
							ok = false
						}
					}
				}
				if ok && (contrib > 0 || evidence > 0) {
					okE = true
				}
			}
			// and the value passed on / returned derives from the intersection
			used := false
			for _, ret := range returns(fn) {
				if dependsOn(retVal(ret, 0), func(x ssa.Value) bool { return x == fin.Value() }) {
					used = true
				}
			}
			c.ob(rule, fn, "result intersected with the subnets of ips already held", fin, okA && okE && used,
				fmt.Sprintf("Intersection argument derives from <lookup result>.NodeSubnets=%v; executed whenever a held ip was recorded (flag set on every such path)=%v; its result reaches the return=%v", okA, okE, used))
		}
	}
	// Filter keeps a node iff its subnet is in the computed set
	if fn := c.MustFn(rule, spPkg, "(*FloatingIPPlugin).Filter"); fn != nil {
		gs := calls(fn, "(*FloatingIPPlugin).getSubnet")
		ns := calls(fn, "(*FloatingIPPlugin).getNodeSubnet")
		if len(gs) != 1 || len(ns) != 1 {
			c.undecided(rule, fn, "getSubnet / getNodeSubnet", nil, "expected one call of each in Filter")
		} else {
			var set ssa.Value
			for _, ref := range *gs[0].Value().Referrers() {
				if ex, ok := ref.(*ssa.Extract); ok && ex.Index == 0 {
					set = ex
				}
			}
			has := guardEdges(fn, predCall("sets.String).Has", func(call *ssa.Call) bool {
				return call.Call.Args[0] == set && dependsOn(call.Call.Args[1], func(x ssa.Value) bool {
					cl, i := callOf(x)
					return cl != nil && ssa.Instruction(cl) == ssa.Instruction(ns[0].(*ssa.Call)) && i == 0
				})
			}))
			// appends to the filtered list: stores of a Node into an append operand
			n := 0
			okG := true
			allInstrs(fn, func(in ssa.Instruction) {
				st, ok := in.(*ssa.Store)
				if !ok || typeNameOf(st.Val.Type()) != "Node" {
					return
				}
				if ia, ok := st.Addr.(*ssa.IndexAddr); ok {
					if _, ok := ia.X.(*ssa.Alloc); ok {
						n++
						if !guardedBy(fn, st, has) {
							okG = false
						}
					}
				}
			})
			c.ob(rule, fn, "a node is kept only if the set contains its subnet", nil, okG && n > 0 && len(has) == 1, fmt.Sprintf("%d append(s) to the result, each reachable only through subnetSet.Has(getNodeSubnet(node).String())", n))
			// complement: on the false edge the node is recorded as failed
			if len(has) == 1 {
				neg := edge{has[0].from, 1 - has[0].succ}
				r := reachFromEdge(neg, nil)
				upd := false
				for in := range r.instrs {
					if mu, ok := in.(*ssa.MapUpdate); ok && in.Block() == neg.from.Succs[neg.succ] {
						_ = mu
						upd = true
					}
				}
				c.ob(rule, fn, "a node whose subnet is not in the set is reported as failed", nil, upd, "the false edge records the node in failedNodesMap")
			}
			// an error of getSubnet fails the whole filter
			ok, _, why := onErrorReturnsErr(fn, gs[0])
			c.ob(rule, fn, "error of getSubnet fails the filter", gs[0], ok, why)
		}
	}
	// filter and bind resolve node -> subnet through the same function
	a := c.MustFn(rule, spPkg, "(*FloatingIPPlugin).getNodeSubnet")
	b := c.MustFn(rule, spPkg, "(*FloatingIPPlugin).queryNodeSubnet")
	g := c.MustFn(rule, spPkg, "(*FloatingIPPlugin).getNodeSubnetfromIPAM")
	if a != nil && b != nil && g != nil {
		ok := len(calls(a, "(*FloatingIPPlugin).getNodeSubnetfromIPAM")) == 1 && len(calls(b, "(*FloatingIPPlugin).getNodeSubnetfromIPAM")) == 1 && len(calls(g, "IPAM).NodeSubnet")) == 1
		c.ob(rule, g, "filter and bind resolve node subnets through the same IPAM query", nil, ok, "getNodeSubnet and queryNodeSubnet both end in getNodeSubnetfromIPAM -> IPAM.NodeSubnet")
	}
}

func isPtrTo(v ssa.Value, name string) bool {
	p, ok := v.Type().Underlying().(*types.Pointer)
	if !ok {
		return false
	}
	n, ok := p.Elem().(*types.Named)
	return ok && n.Obj().Name() == name
}

// appendGuarded: every store into an append operand that feeds `list` is reachable only through edges es.
func appendGuarded(fn *ssa.Function, list ssa.Value, es []edge) bool {
	n := 0
	ok := true
	elem := list.Type().Underlying().(*types.Slice).Elem()
	allInstrs(fn, func(in ssa.Instruction) {
		st, isSt := in.(*ssa.Store)
		if !isSt || !types.Identical(st.Val.Type(), elem) {
			return
		}
		ia, isIA := st.Addr.(*ssa.IndexAddr)
		if !isIA {
			return
		}
		if _, isAl := ia.X.(*ssa.Alloc); !isAl {
			return
		}
		n++
		if !guardedBy(fn, st, es) {
			ok = false
		}
	})
	return ok && n > 0
}

// C07.R3 — pre-allocation uses the size that was actually stored: preAllocateIP runs only after the Pool object
// was created/updated successfully (a lost create race must not pre-allocate with the loser's size).
func rulePreallocAfterStore(c *Ctx, rule string) {
	fn := c.MustFn(rule, "pkg/ipam/api", "(*PoolController).CreateOrUpdate")
	if fn == nil {
		return
	}
	pre := calls(fn, "(*PoolController).preAllocateIP")
	var stores []ssa.CallInstruction
	for _, f := range fnsAround(fn, 2) {
		stores = append(stores, callsLocal(f, "PoolInterface).Create", "PoolInterface).Update")...)
	}
	if len(pre) != 1 || len(stores) != 2 {
		c.undecided(rule, fn, "preAllocateIP / Pools().Create / Update", nil, fmt.Sprintf("expected 1 preAllocateIP and 2 store calls, found %d and %d", len(pre), len(stores)))
		return
	}
	for _, s := range stores {
		if s.Parent() != fn {
			// the write sits in a closure handed to a retry helper: the helper's error stands for the write's
			var outer ssa.CallInstruction
			for _, u := range closureUses(s.Parent()) {
				if ci, ok := u.(ssa.CallInstruction); ok && ci.Parent() == fn {
					outer = ci
				}
			}
			if s.Parent().Parent() == nil {
				// a named helper that creates / updates the object and returns the error
				outer = siteIn(fn, s)
			}
			if outer == nil {
				c.undecided(rule, fn, "store call inside a closure", s, "the closure is not passed to a call of CreateOrUpdate")
				continue
			}
			bad, dec := onErrorNever(outer, toInstrs(pre))
			c.ob(rule, fn, "no pre-allocation after a failed "+shortCallee(s)+" of the Pool object", s, dec && bad == nil, "preAllocateIP is unreachable from the err!=nil edge of "+shortCallee(outer)+", which runs the write")
			continue
		}
		bad, dec := onErrorNever(s, toInstrs(pre))
		c.ob(rule, fn, "no pre-allocation after a failed "+shortCallee(s)+" of the Pool object", s, dec && bad == nil, "preAllocateIP is unreachable from the err!=nil edge (the size pre-allocated must be the size stored)")
	}
	// the size given to preAllocateIP is the request's pool, the same object whose Size was stored
	get := calls(fn, "PoolInterface).Get")
	if len(get) == 1 {
		nf := guardEdges(fn, predCall("errors.IsNotFound", nil))
		ok, _, why := onErrorReturnsErrExceptVoid(fn, get[0], nf, pre)
		c.ob(rule, fn, "a failed lookup of the Pool object (other than NotFound) never pre-allocates", get[0], ok, why)
	}
}

// onErrorReturnsErrExceptVoid: for handlers without an error result: from the error edge (classifier edges removed)
// none of ms is reachable.
func onErrorReturnsErrExceptVoid(fn *ssa.Function, s ssa.CallInstruction, except []edge, ms []ssa.CallInstruction) (bool, bool, string) {
	ts := errTests(s)
	if len(ts) == 0 {
		return false, false, "error not tested"
	}
	for _, t := range ts {
		r := reachFromEdge(t.ErrEdge, newCut().edge(except...))
		if r.anyCall(ms) != nil {
			return false, true, "reachable from the error edge"
		}
	}
	return true, true, "unreachable from the err!=nil edge once the NotFound classifier edge is removed"
}

// C02.R8 — the scheduling paths (filter, bind, preempt, pod-ip sync) never release or reserve an ip: freeing and
// re-keying to the reserve happen only on the unbind / release-API / resync paths. Call-graph reachability.
func ruleSchedulingNeverReleases(c *Ctx, rule string) {
	la := c.locks()
	for _, name := range []string{"(*FloatingIPPlugin).Bind", "(*FloatingIPPlugin).Filter", "(*FloatingIPPlugin).Preempt", "(*FloatingIPPlugin).syncPodIP"} {
		root := c.MustFn(rule, spPkg, name)
		if root == nil {
			continue
		}
		seen := map[*ssa.Function]bool{}
		var bad ssa.CallInstruction
		var chain []string
		var rec func(f *ssa.Function, path []string)
		rec = func(f *ssa.Function, path []string) {
			if seen[f] || bad != nil {
				return
			}
			seen[f] = true
			for _, x := range calls(f, "IPAM).Release", "IPAM).ReleaseIPs", "IPAM).ReserveIP") {
				bad = x
				chain = append(append([]string{}, path...), fnName(f))
				return
			}
			fi := la.info[f]
			if fi == nil {
				return
			}
			for in, gs := range fi.callees {
				if _, isGo := in.(*ssa.Go); isGo {
					continue
				}
				for _, g := range gs {
					if g.Pkg != nil && g.Pkg.Pkg.Path() == modPath+spPkg {
						rec(g, append(path, fnName(f)))
					}
				}
			}
		}
		rec(root, nil)
		d := fmt.Sprintf("%d functions of the package reachable synchronously, none calls IPAM.Release/ReleaseIPs/ReserveIP", len(seen))
		if bad != nil {
			d = "reaches " + calleeName(bad) + " through " + fmt.Sprint(chain)
		}
		c.ob(rule, root, "scheduling path never frees or reserves an ip", bad, bad == nil, d)
	}
}
