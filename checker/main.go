package main

import (
	"encoding/json"
	"flag"
	"fmt"
	"os"
	"path/filepath"
	"runtime/debug"
	"sort"
	"strconv"
	"strings"
	"time"
)

type propDef struct {
	ID          string
	Title       string
	Explanation string // what is decided (necessary conditions) and what is not
	Assumptions []string
	Run         func(c *Ctx)
}

var props = map[string]*propDef{}

func register(p *propDef) { props[p.ID] = p }

var verifDir = "/verif"

type knownFinding struct {
	Property string `json:"property"`
	Rule     string `json:"rule"`
	Status   string `json:"status"`
	Commit   string `json:"commit"`
	Site     struct {
		Pkg       string `json:"pkg"`
		Func      string `json:"func"`
		Construct string `json:"construct"`
	} `json:"site"`
	What string `json:"what"`
}

func loadKnown() ([]knownFinding, error) {
	data, err := os.ReadFile(filepath.Join(verifDir, "known_findings.json"))
	if err != nil {
		return nil, err
	}
	var f struct {
		Findings []knownFinding `json:"findings"`
	}
	if err := json.Unmarshal(data, &f); err != nil {
		return nil, err
	}
	return f.Findings, nil
}

// matchesKnown: a violated obligation is a listed *known* finding iff rule, function and construct agree.
func matchesKnown(o *Obligation, prop string, ks []knownFinding) *knownFinding {
	for i := range ks {
		k := &ks[i]
		if k.Status != "known" || k.Property != prop || k.Rule != o.Rule {
			continue
		}
		if k.Site.Construct == o.Construct && strings.Contains(o.Func, k.Site.Func) {
			return k
		}
	}
	return nil
}

func main() {
	prop := flag.String("prop", "", "property id (C01..C20) or 'all'")
	tier := flag.String("tier", "quick", "quick|thorough")
	repo := flag.String("repo", "/repo", "repository root")
	explain := flag.String("explain", "", "replay file to explain")
	vdir := flag.String("verif", "/verif", "verif dir")
	noEvidence := flag.Bool("no-evidence", false, "do not write evidence (used by the mutant sweep)")
	overlayFile := flag.String("overlay", "", "JSON file {path: content} applied as an in-memory overlay (mutant sweep)")
	listObl := flag.Bool("v", false, "print every obligation")
	dumpRef := flag.Bool("dump-reference", false, "write checker/reference/functions.json (names, signatures, callee sets of the current tree) and exit; done by hand after the rule instances were confirmed on a tree, never by a check")
	describe := flag.Bool("describe", false, "print the registered properties (id, title, explanation, assumptions) as JSON and exit")
	flag.Parse()
	verifDir = *vdir
	if *describe {
		out := map[string]interface{}{}
		for id, p := range props {
			out[id] = map[string]interface{}{"title": p.Title, "explanation": p.Explanation, "assumptions": p.Assumptions}
		}
		data, _ := json.MarshalIndent(out, "", " ")
		fmt.Println(string(data))
		os.Exit(0)
	}
	if t := os.Getenv("VERIF_TIER"); t != "" && *tier == "" {
		*tier = t
	}
	if *explain != "" {
		data, err := os.ReadFile(*explain)
		if err != nil {
			fmt.Println("cannot read replay file:", err)
			os.Exit(2)
		}
		var r struct {
			Property string `json:"property"`
		}
		_ = json.Unmarshal(data, &r)
		fmt.Printf("replay of %s (recorded):\n%s\n", *explain, string(data))
		if r.Property != "" {
			*prop = r.Property
			fmt.Printf("re-running %s on the current tree:\n", r.Property)
		} else {
			os.Exit(0)
		}
	}
	if *dumpRef {
		c, err := LoadMod(*repo, nil, false, modPath, loadPatterns, guardSpecs)
		if err == nil {
			err = dumpReference(c)
		}
		if err != nil {
			fmt.Println("dump-reference:", err)
			os.Exit(2)
		}
		os.Exit(0)
	}
	var ids []string
	if *prop == "all" {
		for id := range props {
			ids = append(ids, id)
		}
		sort.Strings(ids)
	} else {
		if _, ok := props[*prop]; !ok {
			fmt.Printf("unknown property %q\n", *prop)
			os.Exit(2)
		}
		ids = []string{*prop}
	}
	seed := 0
	if s := os.Getenv("VERIF_SEED"); s != "" {
		seed, _ = strconv.Atoi(s)
	}
	var overlay map[string][]byte
	if *overlayFile != "" {
		data, err := os.ReadFile(*overlayFile)
		if err != nil {
			fmt.Println("overlay:", err)
			os.Exit(2)
		}
		m := map[string]string{}
		if err := json.Unmarshal(data, &m); err != nil {
			fmt.Println("overlay:", err)
			os.Exit(2)
		}
		overlay = map[string][]byte{}
		for k, v := range m {
			overlay[k] = []byte(v)
		}
	}
	exit := 0
	start := time.Now()
	thorough := *tier == "thorough"
	c0, err := Load(*repo, overlay, thorough)
	if err == nil && thorough {
		c0.buildVTA()
	}
	loadDur := time.Since(start)
	for _, id := range ids {
		t0 := time.Now()
		p := props[id]
		var c *Ctx
		if err != nil {
			// loading failed: report as a failure of every property (never silently pass)
			fmt.Printf("%s: cannot analyse: %v\n", id, err)
			fmt.Printf("VIOLATION property=%s replay=%s\n", id, writeReplay(id, 0, map[string]interface{}{
				"property": id, "undecided": "program could not be loaded / type-checked", "error": err.Error()}))
			exit = 1
			continue
		}
		// fresh obligation list per property, shared program
		c = &Ctx{Mod: c0.Mod, GuardSpecs: c0.GuardSpecs, RepoDir: c0.RepoDir, Pkgs: c0.Pkgs, byPath: c0.byPath, Prog: c0.Prog, Fset: c0.Fset, SrcFns: c0.SrcFns,
			ruleDocs: map[string]string{}, ruleMin: map[string]int{}, idx: c0.idx, lockA: c0.lockA, vtaCallees: c0.vtaCallees, vtaStats: c0.vtaStats, vtaReach: c0.vtaReach}
		if c.lockA != nil {
			c.lockA.c = c
		}
		func() {
			defer func() {
				if r := recover(); r != nil {
					if os.Getenv("GALAXYCHECK_DEBUG") != "" {
						fmt.Println(string(debug.Stack()))
					}
					c.add(&Obligation{Rule: id + ".panic", Func: "-", Construct: "analysis panic", Status: Undecided,
						Detail: fmt.Sprint(r)})
				}
			}()
			runSelfTests(c, id)
			for _, n := range renameNotes {
				c.note("renamed function recognised against checker/reference/functions.json: %s", n)
			}
			if c.vtaStats != "" {
				c.note("%s", c.vtaStats)
			}
			p.Run(c)
		}()
		if c.lockA != nil {
			c0.lockA = c.lockA
			c.lockA.c = c
		}
		// vacuity guards
		count := map[string]int{}
		for _, o := range c.Obls {
			if o.Status != Exempt {
				count[o.Rule]++
			}
		}
		for _, r := range c.ruleList {
			if count[r] < c.ruleMin[r] {
				c.add(&Obligation{Rule: r, Func: "-", Construct: "vacuity guard", Status: Undecided,
					Detail: fmt.Sprintf("rule matched %d instances, fewer than the %d confirmed by reading: the rule no longer sees the code it was written for", count[r], c.ruleMin[r])})
			}
		}
		if c.vtaReach != nil {
			dead := map[string]bool{}
			for _, o := range c.Obls {
				name := o.Func
				if i := strings.Index(name, "$"); i > 0 {
					name = name[:i]
				}
				if strings.Contains(name, "@/") && !c.vtaReach[name] && !c.vtaReach[o.Func] {
					dead[name] = true
				}
			}
			var ds []string
			for d := range dead {
				ds = append(ds, d)
			}
			sort.Strings(ds)
			c.note("obligations in functions NOT reachable from cmd/galaxy or cmd/galaxy-ipam main in the VTA call graph (still checked; listed so that they are not mistaken for live coverage): %v", ds)
		}
		known, kerr := loadKnown()
		if kerr != nil {
			c.add(&Obligation{Rule: id + ".known", Func: "-", Construct: "known_findings.json", Status: Undecided, Detail: kerr.Error()})
		}
		nViol := 0
		var nDis, nEx, nNon int
		distinct := map[string]bool{}
		sort.SliceStable(c.Obls, func(i, j int) bool { return c.Obls[i].Rule < c.Obls[j].Rule })
		for _, o := range c.Obls {
			switch o.Status {
			case Discharged:
				nDis++
			case Exempt:
				nEx++
			}
			if o.NonTrivial && o.Status != Exempt {
				if !distinct[o.Key()] {
					distinct[o.Key()] = true
					nNon++
				}
			}
			if *listObl {
				fmt.Printf("  [%s] %s %s %s @%s %s\n", o.Status, o.Rule, o.Func, o.Construct, o.Pos, o.Detail)
			}
			if o.Status == Violated || o.Status == Undecided {
				if o.Status == Violated {
					if k := matchesKnown(o, id, known); k != nil {
						fmt.Printf("KNOWN-FINDING: property=%s %s %s %s: %s\n", id, o.Rule, o.Func, o.Construct, k.What)
						continue
					}
				}
				nViol++
				rp := writeReplay(id, nViol, map[string]interface{}{"property": id, "obligation": o, "tier": *tier})
				fmt.Printf("%s: %s %s [%s]: %s: %s\n", o.Pos, o.Rule, o.Func, o.Status, o.Construct, o.Detail)
				for _, w := range o.Witness {
					fmt.Printf("    %s\n", w)
				}
				fmt.Printf("VIOLATION property=%s replay=%s\n", id, rp)
			}
		}
		wall := time.Since(t0).Seconds()
		if id == ids[0] {
			wall += loadDur.Seconds()
		}
		if !*noEvidence {
			writeEvidence(c, p, *tier, seed, wall, nViol, nDis, nEx, nNon, count)
		}
		fmt.Printf("%s %s: %d obligations, %d discharged, %d exempt, %d failing; %.1fs\n", id, *tier, len(c.Obls), nDis, nEx, nViol, wall)
		if nViol > 0 {
			exit = 1
		}
	}
	os.Exit(exit)
}

func writeReplay(id string, n int, v interface{}) string {
	dir := filepath.Join(verifDir, "evidence", "replay")
	_ = os.MkdirAll(dir, 0755)
	path := filepath.Join(dir, fmt.Sprintf("%s-%d.json", id, n))
	data, _ := json.MarshalIndent(v, "", " ")
	_ = os.WriteFile(path, data, 0644)
	return path
}

func writeEvidence(c *Ctx, p *propDef, tier string, seed int, wall float64, nViol, nDis, nEx, nNon int, count map[string]int) {
	type ruleEv struct {
		Rule      string `json:"rule"`
		Decides   string `json:"decides"`
		Instances int    `json:"instances"`
		Min       int    `json:"min_instances"`
	}
	var rules []ruleEv
	for _, r := range c.ruleList {
		rules = append(rules, ruleEv{r, c.ruleDocs[r], count[r], c.ruleMin[r]})
	}
	// samples: rotate by seed, at most 8, prefer non-trivial
	var samples []interface{}
	var cands []*Obligation
	for _, o := range c.Obls {
		if o.NonTrivial {
			cands = append(cands, o)
		}
	}
	if len(cands) == 0 {
		cands = c.Obls
	}
	for i := 0; i < len(cands) && i < 8; i++ {
		o := cands[(i*7+seed)%len(cands)]
		samples = append(samples, o)
	}
	if c.exempts == nil {
		c.exempts = []string{}
	}
	if c.notes == nil {
		c.notes = []string{}
	}
	fnSet := map[string]bool{}
	dirSet := map[string]bool{}
	for _, o := range c.Obls {
		fnSet[o.Func] = true
		if i := strings.Index(o.Pos, ".go:"); i > 0 {
			dirSet[o.Pos[:i+3]] = true
		}
	}
	nPk := 0
	for _, pk := range c.Pkgs {
		if strings.HasPrefix(pk.PkgPath, modPath) {
			nPk++
		}
	}
	ev := map[string]interface{}{
		"property_id": p.ID,
		"tier":        tier,
		"seed":        seed,
		"level":       "other",
		"coverage": map[string]interface{}{
			"explanation":            p.Explanation,
			"evaluations":            len(c.Obls),
			"distinct_nontrivial":    nNon,
			"rule":                   "one evaluation = one obligation (a rule instance at one construct of the type-checked SSA program of /repo); non-trivial = deciding it needed a path, dominance, lock-set or data-flow argument over the function (anchor-resolution and presence-only obligations are trivial); distinct = distinct (rule, function, construct)",
			"samples":                samples,
			"obligations":            len(c.Obls),
			"discharged":             nDis,
			"exempt":                 nEx,
			"failing":                nViol,
			"exemptions":             c.exempts,
			"rules":                  rules,
			"packages_loaded":        nPk,
			"functions_in_module":    len(c.SrcFns),
			"functions_with_oblig.":  len(fnSet),
			"files_with_obligations": sortedKeys(dirSet),
			"checker_cmd":            "/verif/bin/galaxycheck -prop " + p.ID + " -tier " + tier,
			"trusted_base":           []string{"go/types (go1.23)", "golang.org/x/tools v0.29.0 go/packages + go/ssa", "the rule tables in /verif/checker/rules_*.go and lock.go (guardSpecs)"},
			"notes":                  c.notes,
			"exhaustive":             false,
		},
		"assumptions": p.Assumptions,
		"wall_s":      wall,
		"violations":  nViol,
	}
	dir := filepath.Join(verifDir, "evidence")
	_ = os.MkdirAll(dir, 0755)
	data, _ := json.MarshalIndent(ev, "", " ")
	_ = os.WriteFile(filepath.Join(dir, p.ID+".json"), data, 0644)
}

func sortedKeys(m map[string]bool) []string {
	out := []string{}
	for k := range m {
		out = append(out, k)
	}
	sort.Strings(out)
	return out
}
