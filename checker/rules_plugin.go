package main

import "golang.org/x/tools/go/ssa"

const spPkg = "pkg/ipam/schedulerplugin"

// C08.R5 / C10.R3b — the pod is bound only after allocateIP succeeded.
func ruleBindAfterAllocate(c *Ctx, rule string) {
	fn := c.MustFn(rule, spPkg, "(*FloatingIPPlugin).Bind")
	if fn == nil {
		return
	}
	al := calls(fn, "(*FloatingIPPlugin).allocateIP")
	binds := callsDeep(fn, "PodInterface).Bind", "PodExpansion).Bind")
	if len(al) != 1 || len(binds) == 0 {
		c.undecided(rule, fn, "allocateIP / Pods().Bind", nil, "expected one allocateIP call and at least one Bind call")
		return
	}
	// the Bind call sits in the closure given to PollImmediate; the poll call itself must be after success
	polls := calls(fn, "wait.PollImmediate")
	var ms []ssa.Instruction
	for _, p := range polls {
		ms = append(ms, p)
	}
	for _, b := range binds {
		if b.Parent() == fn {
			ms = append(ms, b)
		}
	}
	for _, m := range ms {
		ok, dec := onlyAfterSuccess(fn, al[0], m)
		if !dec {
			c.undecided(rule, fn, "bind only after allocateIP succeeded", m, "error of allocateIP not tested")
			continue
		}
		c.ob(rule, fn, "bind only after allocateIP succeeded", m, ok, "the binding call (inside the poll closure) is reachable only through the err==nil edge of allocateIP")
	}
}
