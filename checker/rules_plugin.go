package main

import (
	"fmt"
	"go/types"
	"strings"

	"golang.org/x/tools/go/ssa"
)

const spPkg = "pkg/ipam/schedulerplugin"

// C08.R5 / C10.R3b — the pod is bound only after allocateIP succeeded.
func ruleBindAfterAllocate(c *Ctx, rule string) {
	fn := c.MustFn(rule, spPkg, "(*FloatingIPPlugin).Bind")
	if fn == nil {
		return
	}
	al := calls(fn, "(*FloatingIPPlugin).allocateIP")
	binds := callsDeep(fn, "PodInterface).Bind", "PodExpansion).Bind")
	polls := calls(fn, "wait.PollImmediate")
	if len(binds) == 0 {
		// the bind/retry block may have been extracted into a helper of Bind
		for _, h := range helperFns(fn, 2) {
			binds = append(binds, callsDeep(h, "PodInterface).Bind", "PodExpansion).Bind")...)
			polls = append(polls, callsLocal(h, "wait.PollImmediate")...)
		}
	}
	if len(al) != 1 || len(binds) == 0 {
		c.undecided(rule, fn, "allocateIP / Pods().Bind", nil, "expected one allocateIP call and at least one Bind call")
		return
	}
	// the Bind call sits in the closure given to PollImmediate; the poll call itself must be after success
	var ms []ssa.Instruction
	for _, p := range polls {
		ms = append(ms, p)
	}
	for _, b := range binds {
		if b.Parent().Parent() == nil { // not inside a closure (those are reached through the poll call)
			ms = append(ms, b)
		}
	}
	for _, m := range ms {
		ok, dec := onlyAfterSuccess(fn, al[0], m)
		if !dec {
			c.undecided(rule, fn, "bind only after allocateIP succeeded", m, "error of allocateIP not tested")
			continue
		}
		c.ob(rule, fn, "bind only after allocateIP succeeded", m, ok, "the binding call (inside the poll closure) is reachable only through the err==nil edge of allocateIP")
	}
}

// heldAt reports whether lock is in the must-hold set before instruction in (lockset engine).
func heldAt(c *Ctx, fn *ssa.Function, in ssa.Instruction, lock string) (bool, string) {
	la := c.locks()
	fi := la.info[fn]
	if fi == nil {
		return false, "function not analysed"
	}
	st := fi.before[in]
	if st == nil {
		return false, "no state"
	}
	if st.top {
		return true, "unreachable"
	}
	return st.held[lock] != modeNone, st.String()
}

// C01.R4 — every IPAM mutator call made from the scheduler plugin runs under the pod lock (through the call chain).
func rulePodLockAtMutators(c *Ctx, rule string) {
	la := c.locks()
	n := 0
	for _, fn := range c.SrcFns {
		if fn.Pkg.Pkg.Path() != modPath+spPkg {
			continue
		}
		for _, need := range la.info[fn].needs {
			if need.lock == podLockID {
				n++
			}
		}
	}
	c.note("%s: %d IPAM mutator call sites in package schedulerplugin", rule, n)
	for _, fn := range c.SrcFns {
		why, isRoot := la.roots[fn]
		if !isRoot {
			continue
		}
		want := map[string]bool{podLockID: true}
		if la.transNeeds(fn, want) == 0 {
			continue
		}
		fi := la.info[fn]
		r, bad := fi.req[podLockID]
		if !bad {
			c.ob(rule, fn, "IPAM mutators under the pod lock", nil, true, "every IPAM mutator call reachable from this entry point has the pod key-mutex class in its must-hold set")
			continue
		}
		inner := r
		for inner.need != nil && inner.need.viaReq != nil {
			inner = inner.need.viaReq
		}
		construct := inner.need.what + " in " + fnName(inner.owner) + " without the pod lock"
		if bareName(fn) == "Preempt" && fnName(inner.owner) == "(*@/pkg/ipam/schedulerplugin.FloatingIPPlugin).allocateInSubnet" ||
			bareName(fn) == "Preempt" && fnName(inner.owner) == "(*@/pkg/ipam/schedulerplugin.FloatingIPPlugin).allocateInSubnetWithKey" {
			c.exempt(rule, fn, construct, r.need.at, "Preempt -> getSubnet is not one of the operations C01 quantifies over; IPAM-level atomicity and the pool lock still hold (DESIGN.md §5 observation)")
			continue
		}
		if bareName(fn) == "preempt" && fn.Pkg.Pkg.Path() == modPath+"pkg/ipam/server" {
			c.exempt(rule, fn, construct, r.need.at, "HTTP wrapper of Preempt (same exception)")
			continue
		}
		c.ob(rule, fn, construct, r.need.at, false, "entry point ("+why+") reaches an IPAM mutator without the pod lock", la.chain(r)...)
	}
}

// C01.R5 — UID guard in allocateIP.
func ruleUIDGuard(c *Ctx, rule string) {
	fn := c.MustFn(rule, spPkg, "(*FloatingIPPlugin).allocateIP")
	if fn == nil {
		return
	}
	isUID := func(v ssa.Value) bool {
		return dependsOn(v, func(x ssa.Value) bool {
			if isFieldLoadNamed(x, "UID") {
				return true
			}
			if call, ok := x.(*ssa.Call); ok {
				return strings.HasSuffix(calleeName(call), ".GetUID")
			}
			return false
		})
	}
	mism := guardEdges(fn, predNeq(func(v ssa.Value) bool { return pathEndsWith(v, "PodUid") }, isUID))
	if len(mism) == 0 {
		c.ob(rule, fn, "stored PodUid compared with the pod's UID", nil, false, "no comparison <ipInfo>.PodUid != <pod UID> found in allocateIP")
		return
	}
	ei := errResultIndex(fn)
	muts := append(calls(fn, "(*FloatingIPPlugin).cloudProviderAssignIP"), calls(fn, ipamMutators...)...)
	for _, e := range mism {
		iff := e.from.Instrs[len(e.from.Instrs)-1]
		r := reachFromEdge(e, nil)
		nret, ok := 0, true
		for _, ret := range returns(fn) {
			if r.has(ret) {
				nret++
				if !nonNilErrOperand(retVal(ret, ei), nil) {
					ok = false
				}
			}
		}
		// from the mismatch edge nothing but an error return may follow: no assign, no IPAM mutator, no loop continuation
		cont := r.has(iff)
		var reachedMut ssa.Instruction
		if m := r.anyCall(muts); m != nil {
			reachedMut = m
		}
		c.ob(rule, fn, "UID mismatch edge ends in an error return", iff, ok && nret > 0 && !cont && reachedMut == nil,
			fmt.Sprintf("from the mismatch edge: %d returns reachable, all with non-nil error=%v, loop continues=%v, assign/mutator reachable=%v", nret, ok, cont, reachedMut != nil))
	}
	// the guard precedes every assign / mutator / successful return
	var guards []ssa.Instruction
	for _, e := range mism {
		guards = append(guards, e.from.Instrs[len(e.from.Instrs)-1])
	}
	// "precedes" modulo the zero-iteration case: a mutator may be reached without the comparison only when the
	// lookup returned no entries; decided as: every path to the mutator passes the guard loop's header block.
	hdr := loopHeaderOf(guards[0])
	for _, m := range muts {
		var ok bool
		if hdr != nil {
			ok = precedes(fn, []ssa.Instruction{hdr.Instrs[0]}, m)
		} else {
			ok = precedes(fn, guards, m)
		}
		c.ob(rule, fn, "UID guard loop precedes "+shortCallee(m), m, ok, "every path from entry to the call passes the loop that compares stored UIDs (zero iterations only if nothing is stored for the key)")
	}
}

// loopHeaderOf finds the innermost loop header block whose loop contains in (a block that dominates in's block and
// is reachable from it).
func loopHeaderOf(in ssa.Instruction) *ssa.BasicBlock {
	b := in.Block()
	fn := b.Parent()
	var best *ssa.BasicBlock
	for _, h := range fn.Blocks {
		if !h.Dominates(b) {
			continue
		}
		// is there a back edge to h from a block reachable from b?
		isLoop := false
		for _, p := range h.Preds {
			if h.Dominates(p) && blockReaches(b, p) {
				isLoop = true
			}
		}
		if isLoop && (best == nil || best.Dominates(h)) {
			best = h
		}
	}
	return best
}

func blockReaches(from, to *ssa.BasicBlock) bool {
	seen := map[*ssa.BasicBlock]bool{}
	work := []*ssa.BasicBlock{from}
	for len(work) > 0 {
		b := work[len(work)-1]
		work = work[:len(work)-1]
		if b == to {
			return true
		}
		if seen[b] {
			continue
		}
		seen[b] = true
		work = append(work, b.Succs...)
	}
	return false
}

// ruleErrorsReturned: in the listed functions every call whose callee is a module function, an IPAM method or a
// cloud-provider wrapper and returns an error has that error returned to the caller (never dropped or only logged).
func ruleErrorsReturned(c *Ctx, rule string, fns []string, pkg string) {
	for _, name := range fns {
		fn := c.MustFn(rule, pkg, name)
		if fn == nil {
			continue
		}
		allInstrs(fn, func(in ssa.Instruction) {
			call, ok := in.(*ssa.Call)
			if !ok {
				return
			}
			n := calleeName(call)
			if !(strings.Contains(n, "@/") || strings.Contains(n, "IPAM)")) || strings.Contains(n, "klog") {
				return
			}
			if len(errValues(call)) == 0 && call.Call.Signature().Results().Len() > 0 {
				res := call.Call.Signature().Results()
				if !types.Identical(res.At(res.Len()-1).Type(), errorType) {
					return
				}
			}
			res := call.Call.Signature().Results()
			if res.Len() == 0 || !types.Identical(res.At(res.Len()-1).Type(), errorType) {
				return
			}
			ok2, dec, why := onErrorReturnsErr(fn, call)
			if !dec {
				c.ob(rule, fn, "error of "+shortCallee(call)+" is returned", call, false, "error result is dropped or not tested: "+why)
				return
			}
			c.ob(rule, fn, "error of "+shortCallee(call)+" is returned", call, ok2, "every return reachable from the err!=nil edge carries a non-nil error "+why)
		})
	}
}
