package main

// A constant-folding evaluator for small pure functions over strings/ints/bools (no loops, no calls other than
// strings.ToLower / len). Used to decide closure properties of constant tables (C11.R2) by folding compile-time
// constants through the SSA of the conversion functions; anything outside the supported shape is "undecided".

import (
	"go/constant"
	"go/token"
	"strings"

	"golang.org/x/tools/go/ssa"
)

type cval struct {
	k constant.Value
}

func evalConstFn(fn *ssa.Function, args []constant.Value) (constant.Value, bool) {
	env := map[ssa.Value]constant.Value{}
	for i, p := range fn.Params {
		if i < len(args) {
			env[p] = args[i]
		}
	}
	var get func(v ssa.Value) (constant.Value, bool)
	get = func(v ssa.Value) (constant.Value, bool) {
		if c, ok := v.(*ssa.Const); ok {
			if c.Value == nil {
				return nil, false
			}
			return c.Value, true
		}
		x, ok := env[v]
		return x, ok
	}
	if len(fn.Blocks) == 0 {
		return nil, false
	}
	b := fn.Blocks[0]
	var prev *ssa.BasicBlock
	for steps := 0; steps < 2000; steps++ {
		var next *ssa.BasicBlock
		for _, in := range b.Instrs {
			switch x := in.(type) {
			case *ssa.DebugRef:
			case *ssa.Phi:
				for i, p := range b.Preds {
					if p == prev {
						v, ok := get(x.Edges[i])
						if !ok {
							return nil, false
						}
						env[x] = v
					}
				}
			case *ssa.BinOp:
				l, ok1 := get(x.X)
				r, ok2 := get(x.Y)
				if !ok1 || !ok2 {
					return nil, false
				}
				switch x.Op {
				case token.EQL, token.NEQ, token.LSS, token.GTR, token.LEQ, token.GEQ:
					env[x] = constant.MakeBool(constant.Compare(l, x.Op, r))
				case token.ADD, token.SUB:
					env[x] = constant.BinaryOp(l, x.Op, r)
				default:
					return nil, false
				}
			case *ssa.UnOp:
				if x.Op == token.NOT {
					v, ok := get(x.X)
					if !ok {
						return nil, false
					}
					env[x] = constant.MakeBool(!constant.BoolVal(v))
				} else {
					return nil, false
				}
			case *ssa.Call:
				n := calleeName(x)
				switch n {
				case "strings.ToLower":
					v, ok := get(x.Call.Args[0])
					if !ok {
						return nil, false
					}
					env[x] = constant.MakeString(strings.ToLower(constant.StringVal(v)))
				case "builtin.len":
					v, ok := get(x.Call.Args[0])
					if !ok || v.Kind() != constant.String {
						return nil, false
					}
					env[x] = constant.MakeInt64(int64(len(constant.StringVal(v))))
				default:
					return nil, false
				}
			case *ssa.Slice:
				v, ok := get(x.X)
				if !ok || v.Kind() != constant.String {
					return nil, false
				}
				s := constant.StringVal(v)
				lo, hi := int64(0), int64(len(s))
				if x.Low != nil {
					l, ok := get(x.Low)
					if !ok {
						return nil, false
					}
					lo, _ = constant.Int64Val(l)
				}
				if x.High != nil {
					h, ok := get(x.High)
					if !ok {
						return nil, false
					}
					hi, _ = constant.Int64Val(h)
				}
				if lo < 0 || hi > int64(len(s)) || lo > hi {
					return nil, false
				}
				env[x] = constant.MakeString(s[lo:hi])
			case *ssa.If:
				v, ok := get(x.Cond)
				if !ok {
					return nil, false
				}
				if constant.BoolVal(v) {
					next = b.Succs[0]
				} else {
					next = b.Succs[1]
				}
			case *ssa.Jump:
				next = b.Succs[0]
			case *ssa.Return:
				if len(x.Results) != 1 {
					return nil, false
				}
				return get(x.Results[0])
			default:
				return nil, false
			}
		}
		if next == nil {
			return nil, false
		}
		prev, b = b, next
	}
	return nil, false
}
