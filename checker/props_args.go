package main

func init() {
	register(&propDef{ID: "C13", Title: "The IPs a plugin configures are exactly the IPs IPAM allocated",
		Explanation: "Decides writer/reader agreement of the three hops: (R1) one Go type at both ends (CommonCniArgs.IPInfos vs the Unmarshal target of cni/ipam.Allocate); (R2) key agreement: JSON tag = IPInfosKey = key the plugin looks up; CniArgs.Common tag = the daemon's anonymous-struct tag; annotation key written by Bind = key read by the daemon; Bind's payload is json(allocateIP result); (R3) IPInfo field types cannot encode the separators, BuildCNIArgs/ParseCNIArgs agree on separators and split key/value with limit 2; (R4) every NetworkInfo created by resolveNetworks passes the loop copying every common.* key, IPInfoToResult takes address, mask and gateway from the same IPInfo, every decoded IPInfo becomes a result; (R5) allocateIP assigns cniArgs.Common.IPInfos a list built from the lookup entries and independent of the value decoded from the pod's existing annotation. (R7) gateway/VLAN/mask of a reported ip come from the pool the ip's table entry points to, created entries take pool and ip from the same unallocated entry; (R9) the allocator's and the lookup's per-range pickers both exclude ips already picked for an earlier range of the same request (k ranges, k distinct ips, also when ranges overlap). Does not decide end-to-end value equality for all configurations (a round trip over runtime values). (R10) getPod has no success return that does not pass the (polled) Pods().Get: the annotation an ADD uses is read in that request. (R11) in cni/ipam.Allocate, from the `ipinfos != \"\"` edge every path reaches the decode; neither a return nor ipam.ExecAdd is reachable without it. (R9, extended) with the matching form in use, every write of an answer slot uses the value of the ip -> range map as index (no fast path past the map). (R12) within an iteration of CmdAdd / CmdDel no path reaches the delegate call without BuildCNIArgs (shared helpers resolved to their call in the function). (R13) every store to NetworkInfo.Args stores a map that does not come from a package-level variable. (R14 = C05.R8) store-client errors, AlreadyExists included, are returned: an ip reaches the plugin only after its object was stored for the pod.",
		Assumptions: []string{"JSON encoding of net.IP / IPNet / uint16 contains neither ';' nor an unquoted '=' before the first one"},
		Run: func(c *Ctx) {
			c.Rule("C13.R14", "an ip reaches the plugin only after it was stored for the pod: store-client errors (AlreadyExists included) are returned", 2)
			ruleStoreErrorsPropagate(c, "C13.R14")
			c.Rule("C13.R1", "writer/reader agreement of the ipinfos path", 6)
			ruleArgsCodec(c, "C13.R1")
			c.Rule("C13.R7", "gateway/VLAN come from the pool whose ranges contain the ip, also after a reload", 4)
			ruleIPInfoFromPool(c, "C13.R7")
			ruleReloadPoolMatch(c, "C13.R7")
			ruleOnlyUnallocatedCreated(c, "C13.R7")
			c.Rule("C13.R8", "plugin decoder: j-th vlan from the j-th IPInfo", 1)
			ruleDecoderPerIP(c, "C13.R8")
			c.Rule("C13.R6", "reported ips are the lookup for the full request, in its order", 1)
			ruleReportedInRequestOrder(c, "C13.R6")
			c.Rule("C13.R10", "the pod of an ADD is read from the API server in that request", 1)
			ruleAddReadsPodFromAPI(c, "C13.R10")
			c.Rule("C13.R13", "every NetworkInfo owns its args map", 1)
			ruleFreshArgsMap(c, "C13.R13")
			c.Rule("C13.R12", "the args of a network are appended for every delegate", 2)
			ruleNetworkArgsAlwaysAppended(c, "C13.R12")
			c.Rule("C13.R11", "ipinfos present in the CNI args are always what the plugin configures", 1)
			ruleIPInfosTakePrecedence(c, "C13.R11")
			c.Rule("C13.R9", "allocator and lookup pick distinct ips for the ranges of one request", 1)
			rulePerRangePickersDistinct(c, "C13.R9")
			c.Rule("C13.R4", "network selection copies all common args", 3)
			ruleNetworkSelection(c, "C13.R4")
		}})
}
