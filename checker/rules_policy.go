package main

import (
	"fmt"
	"go/constant"
	"go/token"
	"go/types"
	"strings"

	"golang.org/x/tools/go/ssa"
)

const constPkg = "pkg/api/galaxy/constant"

func isPolicyConst(v ssa.Value, n int64) bool { return constOfType(v, "ReleasePolicy", n) }

func policyEq(fn *ssa.Function, param *ssa.Parameter, n int64) []edge {
	return guardEdges(fn, predEq(func(v ssa.Value) bool { return sameParam(v, param) }, func(v ssa.Value) bool { return isPolicyConst(v, n) }))
}

func paramNamed(fn *ssa.Function, typ string) *ssa.Parameter {
	for _, p := range fn.Params {
		if typeNameOf(p.Type()) == typ {
			return p
		}
	}
	return nil
}

// everyPathPasses: from each edge, every path to a return passes one of ms.
func everyPathPasses(fn *ssa.Function, from []edge, ms []ssa.CallInstruction) bool {
	for _, e := range from {
		r := reachFromEdge(e, newCut().callInstrs(ms))
		for _, ret := range returns(fn) {
			if r.has(ret) {
				return false
			}
		}
	}
	return len(from) > 0
}

func noneReachable(from []edge, ms []ssa.CallInstruction) bool {
	for _, e := range from {
		if reachFromEdge(e, nil).anyCall(ms) != nil {
			return false
		}
	}
	return len(from) > 0
}

// C03.R1 — policy -> effect on every branch of the unbind functions.
func rulePolicyEffect(c *Ctx, rule string) {
	// deployment pods
	if fn := c.MustFn(rule, spPkg, "(*FloatingIPPlugin).unbindDpPod"); fn != nil {
		pol := paramNamed(fn, "ReleasePolicy")
		rel := calls(fn, "(*FloatingIPPlugin).releaseIP")
		res := calls(fn, "(*FloatingIPPlugin).reserveIP")
		if pol == nil || len(rel) == 0 || len(res) == 0 {
			c.undecided(rule, fn, "policy / releaseIP / reserveIP", nil, "policy parameter or release/reserve calls not found")
		} else {
			del, never := policyEq(fn, pol, 0), policyEq(fn, pol, 2)
			c.ob(rule, fn, "PodDelete: always release, never reserve", nil, everyPathPasses(fn, del, rel) && noneReachable(del, res), "from the policy==PodDelete edge every path to a return calls releaseIP and reserveIP is unreachable")
			c.ob(rule, fn, "Never: never release", nil, noneReachable(never, rel), "from the policy==Never edge releaseIP is unreachable")
			// Never: the pod's key is re-keyed to the pool prefix unless it already is the prefix
			keyIsPrefix := guardEdgesX(fn, predEq(func(v ssa.Value) bool {
				return allActuals(v, func(x ssa.Value) bool { return pathEndsWith(x, "KeyInDB") })
			}, func(v ssa.Value) bool {
				return allActuals(v, func(x ssa.Value) bool { return isResultOf(x, 0, "(*KeyObj).PoolPrefix") })
			}))
			okN := len(never) > 0
			for _, e := range never {
				r := reachFromEdge(e, newCut().callInstrs(res).edge(keyIsPrefix...))
				for _, ret := range returns(fn) {
					if r.has(ret) {
						okN = false
					}
				}
			}
			c.ob(rule, fn, "Never: reserve under the pool prefix unless already there", nil, okN, "from the policy==Never edge every path to a return calls reserveIP or passes key == prefixKey")
			// Immutable: release only through replicas==0 or len(all ips of prefix) > replicas
			repl := func(v ssa.Value) bool { return isResultOf(v, 0, "(*FloatingIPPlugin).getReplicasOfDeployment") }
			zero := guardEdges(fn, predEq(repl, func(v ssa.Value) bool { n, ok := constIntVal(v); return ok && n == 0 }))
			tooMany := guardEdges(fn, func(v ssa.Value) (bool, int) {
				bo, ok := v.(*ssa.BinOp)
				if !ok {
					return false, 0
				}
				isLen := func(x ssa.Value) bool {
					call, ok := x.(*ssa.Call)
					if !ok {
						return false
					}
					b, ok := call.Call.Value.(*ssa.Builtin)
					return ok && b.Name() == "len" && isResultOf(call.Call.Args[0], 0, "IPAM).ByPrefix")
				}
				switch {
				case bo.Op == token.GTR && isLen(bo.X) && repl(bo.Y), bo.Op == token.LSS && repl(bo.X) && isLen(bo.Y):
					return true, 0
				case bo.Op == token.LEQ && isLen(bo.X) && repl(bo.Y), bo.Op == token.GEQ && repl(bo.X) && isLen(bo.Y):
					return true, 1
				}
				return false, 0
			})
			cutPol := newCut().edge(del...).edge(never...)
			r0 := reachFromEntry(fn, cutPol)
			nIm := 0
			for _, m := range rel {
				if !r0.has(m) {
					continue
				}
				nIm++
				ok := !reachFromEntry(fn, newCut().edge(del...).edge(never...).edge(zero...).edge(tooMany...)).has(m)
				c.ob(rule, fn, "Immutable: release only if replicas==0 or the prefix holds more ips than replicas", m, ok && len(tooMany) > 0 && len(zero) > 0,
					"releaseIP reachable (policy edges removed) only through `replicas == 0` or `len(ByPrefix(prefix)) > replicas` (count of ALL ips under the prefix, reserved ones included)")
			}
			if nIm == 0 {
				c.undecided(rule, fn, "Immutable branch", nil, "no releaseIP reachable on the immutable path")
			}
			for _, m := range res {
				if !r0.has(m) {
					continue
				}
				var neg []edge
				for _, e := range tooMany {
					neg = append(neg, edge{e.from, 1 - e.succ})
				}
				c.ob(rule, fn, "Immutable: reserve only if the prefix holds no more ips than replicas", m, !reachFromEntry(fn, newCut().edge(del...).edge(never...).edge(neg...)).has(m), "reserveIP reachable (policy edges removed) only through the complement of `len(ByPrefix(prefix)) > replicas`")
			}
			// the replicas lookup error is not swallowed
			for _, g := range calls(fn, "(*FloatingIPPlugin).getReplicasOfDeployment") {
				nf := guardEdges(fn, predCall("errors.IsNotFound", nil))
				ok, _, why := onErrorReturnsErrExcept(fn, g, nf)
				c.ob(rule, fn, "replicas lookup failure keeps the ip", g, ok, "a lister error other than NotFound returns an error instead of releasing; "+why)
			}
		}
	}
	// statefulset / custom workloads / bare pods
	if fn := c.MustFn(rule, spPkg, "(*FloatingIPPlugin).unbindNoneDpPod"); fn != nil {
		pol := paramNamed(fn, "ReleasePolicy")
		rel := calls(fn, "(*FloatingIPPlugin).releaseIP")
		res := calls(fn, "(*FloatingIPPlugin).reserveIP")
		sr := calls(fn, "(*FloatingIPPlugin).shouldRelease")
		if pol == nil || len(rel) == 0 || len(res) == 0 || len(sr) != 1 {
			c.undecided(rule, fn, "policy / releaseIP / reserveIP / shouldRelease", nil, "expected calls not found")
		} else {
			del, never := policyEq(fn, pol, 0), policyEq(fn, pol, 2)
			unsup := guardEdges(fn, predNeq(func(v ssa.Value) bool { return isResultOf(v, 0, "(*FloatingIPPlugin).supportReserveIPPolicy") }, isNilConst))
			c.ob(rule, fn, "PodDelete: always release, never reserve", nil, everyPathPasses(fn, del, rel) && noneReachable(del, res), "from the policy==PodDelete edge every path to a return calls releaseIP and reserveIP is unreachable")
			c.ob(rule, fn, "Never: always reserve, never release", nil, noneReachable(never, rel) && everyPathPasses(fn, never, res), "from the policy==Never edge releaseIP is unreachable and every path calls reserveIP")
			var srVal ssa.Value
			for _, ref := range *sr[0].Value().Referrers() {
				if ex, ok := ref.(*ssa.Extract); ok && ex.Index == 0 {
					srVal = ex
				}
			}
			yes := guardEdges(fn, predBool(func(v ssa.Value) bool { return v == srVal }))
			no := guardEdges(fn, negate(predBool(func(v ssa.Value) bool { return v == srVal })))
			base := newCut().edge(del...).edge(unsup...)
			for _, m := range rel {
				if !reachFromEntry(fn, base).has(m) {
					continue
				}
				c.ob(rule, fn, "Immutable: release only if shouldRelease", m, !reachFromEntry(fn, newCut().edge(del...).edge(unsup...).edge(yes...)).has(m) && len(yes) > 0,
					"releaseIP reachable (PodDelete and unsupported-workload edges removed) only through the true edge of shouldRelease")
			}
			for _, m := range res {
				if !reachFromEntry(fn, newCut().edge(never...)).has(m) {
					continue
				}
				c.ob(rule, fn, "Immutable: reserve only if not shouldRelease", m, !reachFromEntry(fn, newCut().edge(never...).edge(no...)).has(m) && len(no) > 0,
					"reserveIP reachable (Never edge removed) only through the false edge of shouldRelease")
			}
			for _, g := range append(calls(fn, "(*FloatingIPPlugin).checkAppAndReplicas"), sr...) {
				ok, _, why := onErrorReturnsErr(fn, g)
				c.ob(rule, fn, "failure of "+shortCallee(g)+" keeps the ip", g, ok, "error returned instead of releasing; "+why)
			}
		}
	}
	if fn := c.MustFn(rule, spPkg, "(*FloatingIPPlugin).shouldRelease"); fn != nil {
		gone := guardEdges(fn, negate(predBool(func(v ssa.Value) bool { return sameParam(v, pAt(fn, 2)) })))
		scaled := guardEdges(fn, func(v ssa.Value) (bool, int) {
			bo, ok := v.(*ssa.BinOp)
			if !ok {
				return false, 0
			}
			isRep := func(x ssa.Value) bool { return sameParam(x, pAt(fn, 3)) }
			isIdx := func(x ssa.Value) bool {
				return dependsOn(x, func(y ssa.Value) bool { return isResultOf(y, 0, spPkg+".parsePodIndex") })
			}
			switch {
			case bo.Op == token.LSS && isRep(bo.X) && isIdx(bo.Y), bo.Op == token.GTR && isIdx(bo.X) && isRep(bo.Y):
				return true, 0
			case bo.Op == token.GEQ && isRep(bo.X) && isIdx(bo.Y), bo.Op == token.LEQ && isIdx(bo.X) && isRep(bo.Y):
				return true, 1
			}
			return false, 0
		})
		r := reachFromEntry(fn, newCut().edge(gone...).edge(scaled...))
		bad, n := false, 0
		for _, ret := range returns(fn) {
			if b, ok := constBoolVal(retVal(ret, 0)); ok && b {
				n++
				if r.has(ret) {
					bad = true
				}
			}
		}
		c.ob(rule, fn, "release an immutable ip only if the app is gone or scaled below the pod", nil, !bad && n > 0 && len(gone) > 0 && len(scaled) > 0,
			fmt.Sprintf("`return true` (%d) reachable only through `!parentAppExist` or `replicas < index+1`", n))
	}
}

// C03.R2 — policy derivation and exhaustiveness.
func rulePolicyDerivation(c *Ctx, rule string) {
	if fn := c.MustFn(rule, spPkg, "parseReleasePolicy"); fn != nil {
		// the decision may have moved into a helper that takes the annotations: judge it there, provided parseReleasePolicy
		// returns that helper's result as it is
		if gp := calls(fn, constPkg+".GetPool"); len(gp) > 0 && gp[0].Parent() != fn {
			h := gp[0].Parent()
			direct := false
			for _, ret := range returns(fn) {
				if call, _ := callOf(retVal(ret, 0)); call != nil && call.Call.StaticCallee() == h {
					direct = true
				}
			}
			if direct {
				fn = h
			}
		}
		pool := guardEdges(fn, predNeq(func(v ssa.Value) bool { return isResultOf(v, 0, constPkg+".GetPool") }, func(v ssa.Value) bool { s, ok := constStringVal(v); return ok && s == "" }))
		ok := len(pool) == 1
		if ok {
			r := reachFromEdge(pool[0], nil)
			n := 0
			for _, ret := range returns(fn) {
				if r.has(ret) {
					n++
					if !isPolicyConst(retVal(ret, 0), 2) {
						ok = false
					}
				}
			}
			ok = ok && n > 0
		}
		c.ob(rule, fn, "a pool annotation forces the never policy", nil, ok, "from the pool != \"\" edge every return yields ReleasePolicyNever")
		// ... and nothing else is ever returned for a pool pod: a return of anything but Never is reachable only through
		// the pool == "" edge or the no-annotations edges
		noPool := guardEdges(fn, predEq(func(v ssa.Value) bool { return isResultOf(v, 0, constPkg+".GetPool") }, func(v ssa.Value) bool { s, ok := constStringVal(v); return ok && s == "" }))
		noAnn := guardEdges(fn, predEq(func(v ssa.Value) bool {
			if sameParam(v, pAt(fn, 0)) || pathEndsWith(v, "Annotations") {
				return true
			}
			_, isParam := v.(*ssa.Parameter) // the annotations map handed to the helper
			return isParam
		}, isNilConst))
		r := reachFromEntry(fn, newCut().edge(noPool...).edge(noAnn...))
		okOnly := len(noPool) == 1
		for _, ret := range returns(fn) {
			if r.has(ret) && !isPolicyConst(retVal(ret, 0), 2) {
				okOnly = false
			}
		}
		c.ob(rule, fn, "only a pod without pool annotation gets a policy other than never", nil, okOnly, "a return of anything but ReleasePolicyNever is reachable only through `pool == \"\"` or the no-annotations edges (the release-policy annotation cannot override a named pool)")
		cv := calls(fn, constPkg+".ConvertReleasePolicy")
		okA := len(cv) == 1
		if okA {
			arg := callArgs(cv[0])[0]
			okA = dependsOn(arg, func(v ssa.Value) bool {
				lk, ok := v.(*ssa.Lookup)
				if !ok {
					return false
				}
				s, ok := constStringVal(lk.Index)
				want, _ := c.constString(constPkg, "ReleasePolicyAnnotation")
				return ok && s == want
			})
		}
		c.ob(rule, fn, "otherwise the policy is the release-policy annotation", nil, okA, "ConvertReleasePolicy(annotations[ReleasePolicyAnnotation])")
	}
	// declared policies
	var declared []int64
	if p := c.Prog.ImportedPackage(modPath + constPkg); p != nil {
		for _, n := range p.Pkg.Scope().Names() {
			if k, ok := p.Pkg.Scope().Lookup(n).(*types.Const); ok && typeNameOf(k.Type()) == "ReleasePolicy" {
				v, _ := constant.Int64Val(k.Val())
				declared = append(declared, v)
			}
		}
	}
	if fn := c.MustFn(rule, constPkg, "ConvertReleasePolicy"); fn != nil {
		never, _ := c.constString(constPkg, "Never")
		imm, _ := c.constString(constPkg, "Immutable")
		strEq := func(s string) []edge {
			return guardEdges(fn, predEq(func(v ssa.Value) bool { return sameParam(v, pAt(fn, 0)) }, func(v ssa.Value) bool { x, ok := constStringVal(v); return ok && x == s }))
		}
		check := func(es []edge, want int64) bool {
			if len(es) == 0 {
				return false
			}
			for _, e := range es {
				r := reachFromEdge(e, nil)
				for _, ret := range returns(fn) {
					if r.has(ret) && !isPolicyConst(retVal(ret, 0), want) {
						return false
					}
				}
			}
			return true
		}
		c.ob(rule, fn, "\"never\" -> Never, \"immutable\" -> Immutable", nil, check(strEq(never), 2) && check(strEq(imm), 1), "the edges policyStr == Never / == Immutable reach only returns of the matching constant")
		r := reachFromEntry(fn, newCut().edge(strEq(never)...).edge(strEq(imm)...))
		okD := true
		for _, ret := range returns(fn) {
			if r.has(ret) && !isPolicyConst(retVal(ret, 0), 0) {
				okD = false
			}
		}
		c.ob(rule, fn, "anything else -> PodDelete (default)", nil, okD, "returns reachable without a string match yield ReleasePolicyPodDelete")
		seen := map[int64]bool{}
		for _, ret := range returns(fn) {
			if k, ok := retVal(ret, 0).(*ssa.Const); ok {
				seen[k.Int64()] = true
			}
		}
		all := true
		for _, d := range declared {
			if !seen[d] {
				all = false
			}
		}
		c.ob(rule, fn, "every declared policy is produced", nil, all && len(declared) >= 3, fmt.Sprintf("declared ReleasePolicy constants %v, returned %v", declared, seen))
	}
	if fn := c.MustFn(rule, constPkg, "PolicyStr"); fn != nil {
		n := int64(-1)
		allInstrs(fn, func(in ssa.Instruction) {
			if a, ok := in.(*ssa.Alloc); ok {
				if arr, ok := deref(a.Type()).Underlying().(*types.Array); ok {
					n = arr.Len()
				}
			}
		})
		c.ob(rule, fn, "name table has one entry per declared policy", nil, n == int64(len(declared)) && n > 0, fmt.Sprintf("table length %d, declared policies %d (an out-of-range policy would panic)", n, len(declared)))
	}
}

// C03.R5 — the policy stored with an allocation is the pod's policy.
func ruleStoredPolicyIsPodPolicy(c *Ctx, rule string) {
	isParse := func(v ssa.Value) bool { return isResultOf(v, 0, spPkg+".parseReleasePolicy") }
	n := 0
	for _, fn := range c.SrcFns {
		if fn.Pkg.Pkg.Path() != modPath+spPkg {
			continue
		}
		for _, call := range callsLocal(fn, "IPAM).AllocateSpecificIP", "IPAM).AllocateInSubnet", "IPAM).AllocateInSubnetWithKey", "IPAM).AllocateInSubnetsAndIPRange", "IPAM).UpdateAttr") {
			args := callArgs(call)
			attr := args[len(args)-1]
			n++
			// attr is a load of a local Attr cell, or a parameter
			src := attr
			if ld, ok := attr.(*ssa.UnOp); ok && ld.Op == token.MUL {
				src = ld.X
			}
			if u := unspill(attr); u != attr {
				src = u
			}
			switch x := src.(type) {
			case *ssa.Alloc:
				var pol ssa.Value
				for _, ref := range *x.Referrers() {
					if fa, ok := ref.(*ssa.FieldAddr); ok && fieldName(fa.X.Type(), fa.Field) == "Policy" {
						for _, r2 := range *fa.Referrers() {
							if st, ok := r2.(*ssa.Store); ok && st.Addr == fa {
								pol = st.Val
							}
						}
					}
					if st, ok := ref.(*ssa.Store); ok && st.Addr == x {
						// whole-struct store from a parameter
						if p, ok := st.Val.(*ssa.Parameter); ok {
							pol = p
						}
					}
				}
				if pol == nil {
					c.ob(rule, fn, "Attr.Policy given to "+shortCallee(call)+" is the pod's policy", call, false, "the Attr literal leaves Policy at its zero value (PodDelete): an immutable/never pod's ip would be released by resync")
					continue
				}
				if p, ok := pol.(*ssa.Parameter); ok {
					c.ob(rule, fn, "Attr.Policy given to "+shortCallee(call)+" is the caller's policy", call, callersPassPolicy(c, fn, p, isParse), "policy/attr parameter: every caller in the package passes a value derived from parseReleasePolicy")
					continue
				}
				okP := dependsOn(pol, isParse)
				if !okP {
					if p, ok := unspill(pol).(*ssa.Parameter); ok {
						okP = callersPassPolicy(c, fn, p, isParse)
					}
				}
				c.ob(rule, fn, "Attr.Policy given to "+shortCallee(call)+" is the pod's policy", call, okP, "Attr.Policy derives from parseReleasePolicy(pod)")
			case *ssa.Parameter:
				c.ob(rule, fn, "Attr given to "+shortCallee(call)+" is the caller's attr", call, callersPassPolicy(c, fn, x, isParse), "attr parameter: every caller passes an Attr whose Policy derives from parseReleasePolicy")
			default:
				c.undecided(rule, fn, "Attr given to "+shortCallee(call), call, "cannot identify where the Attr value comes from")
			}
		}
	}
	if n == 0 {
		c.undecided(rule, nil, "IPAM allocator calls", nil, "no IPAM allocator call found in schedulerplugin")
	}
}

// callersPassPolicy: every call of fn inside the package passes, for parameter p, a value deriving from the
// policy source (directly, as Attr.Policy of a local literal, or again through a parameter — bounded depth).
func callersPassPolicy(c *Ctx, fn *ssa.Function, p *ssa.Parameter, isSrc func(ssa.Value) bool) bool {
	return callersPassPolicyD(c, fn, p, isSrc, 0)
}

func callersPassPolicyD(c *Ctx, fn *ssa.Function, p *ssa.Parameter, isSrc func(ssa.Value) bool, depth int) bool {
	if depth > 4 {
		return false
	}
	idx := -1
	for i, q := range fn.Params {
		if q == p {
			idx = i
		}
	}
	if idx < 0 {
		return false
	}
	n := 0
	for _, g := range c.SrcFns {
		if g.Pkg != fn.Pkg {
			continue
		}
		ok := true
		allInstrs(g, func(in ssa.Instruction) {
			call, isCall := in.(ssa.CallInstruction)
			if !isCall || call.Common().StaticCallee() != fn {
				return
			}
			n++
			a := call.Common().Args[idx]
			if dependsOn(a, isSrc) {
				return
			}
			// Attr literal cell
			if ld, isLd := a.(*ssa.UnOp); isLd && ld.Op == token.MUL {
				if al, isAl := ld.X.(*ssa.Alloc); isAl {
					for _, ref := range *al.Referrers() {
						if fa, isFa := ref.(*ssa.FieldAddr); isFa && fieldName(fa.X.Type(), fa.Field) == "Policy" {
							for _, r2 := range *fa.Referrers() {
								if st, isSt := r2.(*ssa.Store); isSt && st.Addr == fa {
									if dependsOn(st.Val, isSrc) {
										return
									}
									if q, isP := unspill(st.Val).(*ssa.Parameter); isP && callersPassPolicyD(c, g, q, isSrc, depth+1) {
										return
									}
									// the policy arrives as a field of a parameter struct: every caller's struct literal
									// must carry a policy from the source
									if fname, q := fieldOfStructParam(g, st.Val); q != nil && depth < 4 {
										allOK, nn := true, 0
										for _, site := range staticSites[g] {
											nn++
											v := argNamed(site, fname, -1)
											if v == nil || !(dependsOn(v, isSrc) || func() bool {
												qq, isP := unspill(v).(*ssa.Parameter)
												return isP && callersPassPolicyD(c, site.Parent(), qq, isSrc, depth+1)
											}()) {
												allOK = false
											}
										}
										if allOK && nn > 0 {
											return
										}
									}
								}
							}
						}
					}
				}
			}
			if q, isP := unspill(a).(*ssa.Parameter); isP && callersPassPolicyD(c, g, q, isSrc, depth+1) {
				return
			}
			ok = false
		})
		if !ok {
			return false
		}
	}
	return n > 0
}

// C03.R6 — the delete/finish path derives the policy from the pod and hands it to the unbind functions.
func ruleUnbindUsesPodPolicy(c *Ctx, rule string) {
	fn := c.MustFn(rule, spPkg, "(*FloatingIPPlugin).unbind")
	if fn == nil {
		return
	}
	us := calls(fn, "(*FloatingIPPlugin).unbindDpPod", "(*FloatingIPPlugin).unbindNoneDpPod")
	if len(us) != 2 {
		c.undecided(rule, fn, "unbindDpPod / unbindNoneDpPod", nil, "expected both calls in unbind")
		return
	}
	for _, u := range us {
		c.ob(rule, fn, "policy given to "+shortCallee(u)+" is parsed from the pod", u, isResultOf(callArgs(u)[1], 0, spPkg+".parseReleasePolicy"), "unbind*Pod(keyObj, parseReleasePolicy(&pod.ObjectMeta), ..)")
	}
	dp := guardEdges(fn, predCall("(*KeyObj).Deployment", nil))
	okR := len(dp) == 1
	if okR {
		for _, u := range us {
			isDp := strings.HasSuffix(calleeName(u), "unbindDpPod")
			r := reachFromEdge(dp[0], nil)
			if r.has(u) != isDp {
				okR = false
			}
		}
	}
	c.ob(rule, fn, "deployment pods go to unbindDpPod, all others to unbindNoneDpPod", nil, okR, "routing on keyObj.Deployment()")
}

// fieldOfStructParam: v is a load of field f of a struct-typed parameter of g (also when the parameter was spilled into a cell)
func fieldOfStructParam(g *ssa.Function, v ssa.Value) (string, *ssa.Parameter) {
	u := stripConv(v)
	var base ssa.Value
	name := ""
	switch x := u.(type) {
	case *ssa.Field:
		base, name = x.X, fieldName(x.X.Type(), x.Field)
	case *ssa.UnOp:
		if fa, ok := x.X.(*ssa.FieldAddr); ok {
			base, name = fa.X, fieldName(fa.X.Type(), fa.Field)
		}
	}
	if base == nil {
		return "", nil
	}
	if p, ok := unspill(base).(*ssa.Parameter); ok && p.Parent() == g {
		return name, p
	}
	if ld, ok := base.(*ssa.UnOp); ok {
		if p, ok := unspill(ld).(*ssa.Parameter); ok && p.Parent() == g {
			return name, p
		}
	}
	if a, ok := base.(*ssa.Alloc); ok {
		for _, ref := range *a.Referrers() {
			if st, ok := ref.(*ssa.Store); ok && st.Addr == ssa.Value(a) {
				if p, ok := st.Val.(*ssa.Parameter); ok && p.Parent() == g {
					return name, p
				}
			}
		}
	}
	return "", nil
}

// throughStructParam: v is a load of field f of a struct-typed parameter of a helper with one static call site: the value
// the caller put into field f of the struct it passed (nil when that cannot be determined)
func throughStructParam(v ssa.Value) ssa.Value {
	g := (*ssa.Function)(nil)
	if in, ok := v.(ssa.Instruction); ok {
		g = in.Parent()
	}
	if g == nil {
		return nil
	}
	name, p := fieldOfStructParam(g, v)
	if p == nil {
		return nil
	}
	acts := actualsOf(p)
	if len(acts) != 1 {
		return nil
	}
	act := acts[0]
	// the struct literal built in a cell of the caller and loaded for the call
	if ld, ok := act.(*ssa.UnOp); ok {
		if a, ok := ld.X.(*ssa.Alloc); ok {
			var val ssa.Value
			for _, ref := range *a.Referrers() {
				fa, ok := ref.(*ssa.FieldAddr)
				if !ok || fieldName(fa.X.Type(), fa.Field) != name {
					continue
				}
				for _, r2 := range *fa.Referrers() {
					if st, ok := r2.(*ssa.Store); ok && st.Addr == ssa.Value(fa) {
						val = st.Val
					}
				}
			}
			return val
		}
	}
	return nil
}
