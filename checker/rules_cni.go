package main

import (
	"fmt"
	"go/token"

	"golang.org/x/tools/go/ssa"
)

const cniutilPkg = "pkg/api/cniutil"
const galaxyPkg = "pkg/galaxy"

// C12.R1/R2 — CmdAdd / CmdDel ordering, pairing, rollback.
func ruleCniAddDel(c *Ctx, rule string) {
	if fn := c.MustFn(rule, cniutilPkg, "CmdAdd"); fn != nil {
		save := calls(fn, cniutilPkg+".saveNetworkInfo")
		add := calls(fn, cniutilPkg+".DelegateAdd")
		del := calls(fn, cniutilPkg+".CmdDel")
		if len(save) == 1 && len(add) == 1 && len(del) == 0 {
			c.ob(rule, fn, "a failed ADD rolls back the plugins already added", add[0], false, "CmdAdd (with its same-package helpers) never calls CmdDel: a failure of plugin k leaves plugins 0..k-1 configured")
		} else if len(save) != 1 || len(add) != 1 || len(del) != 1 {
			c.undecided(rule, fn, "saveNetworkInfo / DelegateAdd / CmdDel", nil, "expected exactly one call of each in CmdAdd")
		} else {
			c.ob(rule, fn, "network list persisted before the first ADD", add[0], precedes(fn, toInstrs(save), add[0]), "saveNetworkInfo precedes DelegateAdd on every path")
			bad, dec := onErrorNever(save[0], toInstrs(add))
			c.ob(rule, fn, "a failed save aborts before any plugin is invoked", save[0], dec && bad == nil, "DelegateAdd unreachable from the err!=nil edge of saveNetworkInfo")
			ts := errTests(add[0])
			okRb := len(ts) > 0
			ei := errResultIndex(fn)
			for _, t := range ts {
				r := reachFromEdge(t.ErrEdge, newCut().callInstrs(del))
				for _, ret := range returns(fn) {
					if r.has(ret) {
						okRb = false
					}
				}
				r2 := reachFromEdge(t.ErrEdge, nil)
				for _, ret := range returns(fn) {
					if r2.has(ret) && !nonNilErrOperand(retVal(ret, ei), errValues(add[0])) {
						okRb = false
					}
				}
				if r2.has(add[0]) {
					okRb = false // must not go on with the next network
				}
			}
			c.ob(rule, fn, "a failed ADD rolls back with DEL and fails the request", add[0], okRb, "from the err!=nil edge of DelegateAdd every path to a return passes CmdDel, the return carries a non-nil error, and no further DelegateAdd is reachable")
			// the rollback starts at the failing network's index
			confArg := callArgs(add[0])[0]
			var idxVal ssa.Value
			dependsOn(confArg, func(x ssa.Value) bool {
				if ld, ok := x.(*ssa.UnOp); ok && ld.Op == token.MUL {
					if ia, ok := ld.X.(*ssa.IndexAddr); ok {
						idxVal = ia.Index
						return true
					}
				}
				return false
			})
			c.ob(rule, fn, "rollback starts at the index of the failing network", del[0], idxVal != nil && throughParams(callArgs(del[0])[1]) == idxVal, "CmdDel(cmdArgs, idx) with idx the index of the network whose ADD failed")
			// prevResult chaining
			n := 0
			allInstrs(fn, func(in ssa.Instruction) {
				mu, ok := in.(*ssa.MapUpdate)
				if !ok {
					return
				}
				if k, ok := constStringVal(mu.Key); !ok || k != "prevResult" {
					return
				}
				n++
				fromAdd := dependsOn(mu.Value, func(x ssa.Value) bool {
					cl, i := callOf(x)
					return cl != nil && ssa.Instruction(cl) == ssa.Instruction(add[0].(*ssa.Call)) && i == 0
				})
				c.ob(rule, fn, "prevResult given to a delegate is the previous delegate's result", mu, fromAdd && precedes(fn, []ssa.Instruction{mu}, add[0]) == false, "Conf[\"prevResult\"] derives from DelegateAdd's result of the previous iteration")
			})
			_ = n
		}
	}
	if fn := c.MustFn(rule, cniutilPkg, "CmdDel"); fn != nil {
		cons := calls(fn, cniutilPkg+".consumeNetworkInfo")
		del := calls(fn, cniutilPkg+".DelegateDel")
		save := calls(fn, cniutilPkg+".saveNetworkInfo")
		rev := calls(fn, cniutilPkg+".reverse")
		if len(cons) != 1 || len(del) != 1 || len(save) != 1 {
			c.undecided(rule, fn, "consumeNetworkInfo / DelegateDel / saveNetworkInfo", nil, "expected exactly one call of each in CmdDel")
		} else {
			// the per-network step may have been moved into a helper: loop shape, error test and what follows are judged at
			// the call of that helper in CmdDel
			delSite := siteIn(fn, del[0])
			if delSite == nil {
				c.undecided(rule, fn, "DelegateDel", del[0], "the call is not reached from CmdDel through one static call")
				return
			}
			c.ob(rule, fn, "state is consumed before any DEL", del[0], precedes(fn, toInstrs(cons), del[0]), "consumeNetworkInfo precedes DelegateDel")
			ne := guardEdges(fn, predCall("os.IsNotExist", nil))
			okNE := len(ne) == 1
			if okNE {
				r := reachFromEdge(ne[0], nil)
				if r.anyCall(del) != nil {
					okNE = false
				}
				for _, ret := range returns(fn) {
					if r.has(ret) && !isNilConst(retVal(ret, 0)) {
						okNE = false
					}
				}
			}
			c.ob(rule, fn, "a repeated DEL succeeds without invoking anything", nil, okNE, "from the os.IsNotExist edge no DelegateDel is reachable and nil is returned")
			// any other consume error is returned
			okE, _, why := onErrorReturnsErrExcept(fn, cons[0], ne)
			c.ob(rule, fn, "an unreadable state file fails the DEL", cons[0], okE, why)
			// descending loop
			desc := false
			dependsOn(callArgs(del[0])[0], func(x ssa.Value) bool {
				if ld, ok := x.(*ssa.UnOp); ok && ld.Op == token.MUL {
					if ia, ok := ld.X.(*ssa.IndexAddr); ok {
						if ph, ok := ia.Index.(*ssa.Phi); ok {
							for _, e := range ph.Edges {
								if sub, ok := e.(*ssa.BinOp); ok && sub.Op == token.SUB && sub.X == ssa.Value(ph) {
									if k, ok := constIntVal(sub.Y); ok && k == 1 {
										desc = true
									}
								}
							}
						}
					}
				}
				return false
			})
			okLoop, whyLoop := loopLeftOnlyWhenExhausted(c, fn, delSite)
			c.ob(rule, fn, "every network of the list gets its DEL (a failing one does not stop the walk)", del[0], okLoop, "the loop around DelegateDel has no break/return: after a failed DEL the lower networks are still torn down in this request, and only the failed ones are remembered for the retry "+whyLoop)
			c.ob(rule, fn, "DEL runs in reverse order of ADD", del[0], desc, "the network given to DelegateDel is indexed by a counter that decreases by 1 each iteration")
			// failed DELs are collected and re-saved in ADD order; the DEL fails
			ts := errTests(delSite)
			okApp := len(ts) > 0
			for _, t := range ts {
				app := false
				r := reachFromEdge(t.ErrEdge, newCut().instr(delSite))
				for in := range r.instrs {
					if st, ok := in.(*ssa.Store); ok && typeNameOf(st.Val.Type()) == "NetworkInfo" {
						if ia, ok := st.Addr.(*ssa.IndexAddr); ok {
							if _, ok := ia.X.(*ssa.Alloc); ok {
								app = true
							}
						}
					}
				}
				if !app {
					okApp = false
				}
			}
			c.ob(rule, fn, "a network whose DEL failed is remembered", del[0], okApp, "the err!=nil edge of DelegateDel appends the network to the failed list before the next iteration")
			ei := errResultIndex(fn)
			okSave := c.reachAfter(delSite, nil).has(save[0])
			r := c.reachAfter(save[0], nil)
			nret := 0
			for _, ret := range returns(fn) {
				if r.has(ret) {
					nret++
					if !nonNilErrOperand(retVal(ret, ei), nil) {
						okSave = false
					}
				}
			}
			c.ob(rule, fn, "failed DELs are re-saved and the DEL fails", save[0], okSave && nret > 0, "saveNetworkInfo(failed) is followed only by returns with a non-nil error")
			// success return not reachable when something failed: `len(errorSet) > 0` edge passes the save
			okRev := len(rev) == 1 && precedes(fn, toInstrs(rev), save[0]) && sameAccessOrValue(callArgs(rev[0])[0], callArgs(save[0])[1])
			c.ob(rule, fn, "the failed tail is stored in ADD order (reversed back)", save[0], okRev, "reverse(fails) precedes saveNetworkInfo(fails): the state file is read in ADD order and walked backwards")
		}
	}
}

// every delegate is invoked with the configuration AND the interface name of the same saved network entry
func ruleDelegateArgs(c *Ctx, rule string) {
	for _, it := range []struct{ fn, callee string }{{"CmdAdd", "DelegateAdd"}, {"CmdDel", "DelegateDel"}} {
		fn := c.MustFn(rule, cniutilPkg, it.fn)
		if fn == nil {
			continue
		}
		for _, d := range calls(fn, cniutilPkg+"."+it.callee) {
			a := d.Common().Args
			b1, f1, ok1 := fieldLoad(a[0])
			b2, f2, ok2 := fieldLoad(a[2])
			ok := ok1 && ok2 && f1 == "Conf" && f2 == "IfName" && b1 == b2
			c.ob(rule, fn, it.callee+" gets Conf and IfName of the same network entry", d, ok, it.callee+"(n.Conf, args, n.IfName) with one n: what a plugin receives depends only on its own saved entry, not on the position in a retried list")
		}
	}
}

// C12.R3 / C14.R1 — port mapping pairing in the request handler.
func ruleRequestPortMapping(c *Ctx, rule string) {
	fn := c.MustFn(rule, galaxyPkg, "(*Galaxy).requestFunc")
	if fn == nil {
		return
	}
	del := callsAllX(fn, cniutilPkg+".CmdDel")
	cl := callsAllX(fn, "(*Galaxy).cleanupPortMapping")
	su := callsAllX(fn, "(*Galaxy).setupPortMapping")
	if len(del) != 1 || len(su) != 1 || len(cl) < 2 {
		c.undecided(rule, fn, "CmdDel / setupPortMapping / cleanupPortMapping", nil, "expected one CmdDel, one setupPortMapping and two cleanupPortMapping calls")
		return
	}
	for _, m := range cl {
		if c.reachAfter(del[0], nil).has(m) {
			host := fn
			if m.Parent() == del[0].Parent() {
				host = m.Parent() // the DEL branch was moved into a method of its own
			}
			ok, dec := onlyAfterSuccess(host, del[0], m)
			c.ob(rule, fn, "port mappings are removed only after the network DEL succeeded", m, ok && dec, "cleanupPortMapping reachable only through the err==nil edge of CmdDel (a failed DEL is retried with the mappings intact)")
		}
	}
	ts := errTests(su[0])
	ok := len(ts) > 0
	for _, t := range ts {
		r := reachFromEdge(t.ErrEdge, newCut().callInstrs(cl))
		for _, ret := range returns(fn) {
			if r.has(ret) {
				ok = false
			}
		}
	}
	c.ob(rule, fn, "a failed port-mapping setup is cleaned up", su[0], ok, "from the err!=nil edge of setupPortMapping every path to a return passes cleanupPortMapping")
	// setup only after a successful cmdAdd
	ad := calls(fn, "(*Galaxy).cmdAdd")
	if len(ad) == 1 {
		// err1 != nil edge: via Extract
		ok, dec := onlyAfterSuccess(fn, ad[0], su[0])
		c.ob(rule, fn, "port mappings are set up only after the network ADD succeeded", su[0], ok && dec, "setupPortMapping reachable only through the err==nil edge of cmdAdd")
	}
}

// C12.R5 — network selection order and interface naming.
func ruleNetworkSelection(c *Ctx, rule string) {
	if fn := c.MustFn(rule, galaxyPkg, "(*Galaxy).resolveNetworks"); fn != nil {
		gets := callsAllX(fn, "(*Galaxy).getNetworkConf")
		parse := callsAllX(fn, "pkg/api/k8s.ParsePodNetworkAnnotation")
		if len(gets) != 3 || len(parse) != 1 {
			c.undecided(rule, fn, "getNetworkConf x3 / ParsePodNetworkAnnotation", nil, fmt.Sprintf("found %d getNetworkConf and %d ParsePodNetworkAnnotation calls", len(gets), len(parse)))
		} else {
			noAnn := guardEdges(fn, predEq(func(v ssa.Value) bool {
				lk, ok := v.(*ssa.Lookup)
				if !ok {
					return false
				}
				s, ok := constStringVal(lk.Index)
				want, _ := c.constString(constPkg, "MultusCNIAnnotation")
				return ok && s == want
			}, func(v ssa.Value) bool { s, ok := constStringVal(v); return ok && s == "" }))
			nilAnn := guardEdges(fn, predEq(func(v ssa.Value) bool { return pathEndsWith(v, "Annotations") }, isNilConst))
			wantENI := guardEdgesX(fn, predCall("utils.WantENIIP", nil))
			eniSet := guardEdgesX(fn, predNeq(func(v ssa.Value) bool { return pathEndsWith(v, "ENIIPNetwork") }, func(v ssa.Value) bool { s, ok := constStringVal(v); return ok && s == "" }))
			for _, g := range gets {
				arg := callArgs(g)[0]
				switch {
				case pathEndsWith(arg, "ENIIPNetwork"):
					ok := guardedBy(fn, g, wantENI) && guardedBy(fn, g, eniSet) && !reachFromEntry(fn, newCut().edge(noAnn...).edge(nilAnn...)).has(g)
					c.ob(rule, fn, "ENI network only without annotation, for pods requesting an ENI ip, when configured", g, ok, "reachable only through (no annotation) && WantENIIP(pod) && ENIIPNetwork != \"\"")
				case dependsOn(arg, func(x ssa.Value) bool {
					return x == parse[0].Value() || (func() bool {
						cl, _ := callOf(x)
						return cl != nil && ssa.Instruction(cl) == ssa.Instruction(parse[0].(*ssa.Call))
					})()
				}):
					var neg []edge
					for _, e := range append(append([]edge{}, noAnn...), nilAnn...) {
						neg = append(neg, e)
					}
					unreachableFromNoAnn := true
					for _, e := range neg {
						if reachFromEdge(e, nil).has(g) {
							unreachableFromNoAnn = false
						}
					}
					c.ob(rule, fn, "annotated networks are used exactly when the annotation is present", g, unreachableFromNoAnn, "not reachable from the 'no annotation' edges")
				default:
					// default networks
					ok := !reachFromEntry(fn, newCut().edge(noAnn...).edge(nilAnn...)).has(g)
					var both []edge
					// must not be reachable when WantENIIP && ENIIPNetwork != ""
					for _, e := range eniSet {
						if reachFromEdge(e, nil).has(g) {
							ok = false
						}
					}
					_ = both
					c.ob(rule, fn, "default networks only without annotation and not for the ENI case", g, ok && dependsOn(arg, func(x ssa.Value) bool { return pathEndsWith(x, "DefaultNetworks") }), "reachable only through 'no annotation' and not from the ENIIPNetwork != \"\" edge; names come from DefaultNetworks")
				}
			}
			// every key of common.* is copied into every network's args, unconditionally
			n := 0
			allInstrsX(fn, func(in ssa.Instruction) {
				mu, ok := in.(*ssa.MapUpdate)
				if !ok || !pathEndsWith(mu.Map, "Args") {
					return
				}
				n++
				// the block of the update is the loop body reached directly from the range test: no other condition
				b := mu.Block()
				okU := len(b.Preds) == 1
				if okU {
					last := b.Preds[0].Instrs[len(b.Preds[0].Instrs)-1]
					iff, isIf := last.(*ssa.If)
					okU = isIf
					if isIf {
						ex, isEx := iff.Cond.(*ssa.Extract)
						_, isNext := (func() (ssa.Value, bool) {
							if !isEx {
								return nil, false
							}
							nx, ok := ex.Tuple.(*ssa.Next)
							return nx, ok
						})()
						okU = isEx && isNext && ex.Index == 0
					}
				}
				c.ob(rule, fn, "every common.* argument is copied to every network", mu, okU, "the copy into networkInfos[i].Args sits directly in the range-over-extendedCNIArgs body, under no filter")
			})
			if n == 0 {
				c.undecided(rule, fn, "copy of extended CNI args", nil, "no update of NetworkInfo.Args found")
			}
		}
	}
	if fn := c.MustFn(rule, galaxyPkg, "setNetInterface"); fn != nil {
		first := guardEdges(fn, predEq(func(v ssa.Value) bool { return sameParam(v, pAt(fn, 1)) }, func(v ssa.Value) bool { n, ok := constIntVal(v); return ok && n == 0 }))
		ok := len(first) == 1
		if ok {
			r := reachFromEdge(first[0], nil)
			for _, ret := range returns(fn) {
				if r.has(ret) && !sameParam(retVal(ret, 0), pAt(fn, 2)) {
					ok = false
				}
			}
		}
		// and nothing else is returned unless idx != 0 was established (the test comes first)
		if ok {
			notFirst := []edge{{first[0].from, 1 - first[0].succ}}
			for _, ret := range returns(fn) {
				if !sameParam(retVal(ret, 0), pAt(fn, 2)) && !guardedBy(fn, ret, notFirst) {
					ok = false
				}
			}
		}
		c.ob(rule, fn, "the first network gets the interface kubelet named", nil, ok, "idx == 0 returns the argIf parameter, and every other return lies behind the idx != 0 edge")
		named := guardEdges(fn, predNeq(func(v ssa.Value) bool { return sameParam(v, pAt(fn, 0)) }, func(v ssa.Value) bool { s, ok := constStringVal(v); return ok && s == "" }))
		ok2 := len(named) == 1
		if ok2 {
			r := reachFromEdge(named[0], nil)
			for _, ret := range returns(fn) {
				if r.has(ret) && !sameParam(retVal(ret, 0), pAt(fn, 0)) {
					ok2 = false
				}
			}
		}
		c.ob(rule, fn, "later networks get the interface their annotation names, else eth<i>", nil, ok2 && len(calls(fn, "fmt.Sprintf")) == 1, "netIf != \"\" returns netIf; otherwise Sprintf(\"eth%d\", idx)")
	}
}

// the saved network list of a container is deleted only by consuming it (CmdDel); nobody else removes the state file
func ruleStateFileOwnership(c *Ctx, rule string) {
	n := 0
	for _, fn := range c.SrcFns {
		if fn.Pkg.Pkg.Path() != modPath+cniutilPkg {
			continue
		}
		for _, rm := range callsLocal(fn, "os.Remove", "os.RemoveAll") {
			n++
			root := fn
			for root.Parent() != nil {
				root = root.Parent()
			}
			c.ob(rule, fn, "the network state file is removed only by consumeNetworkInfo", rm, bareName(root) == "consumeNetworkInfo", "os.Remove in package cniutil appears only in consumeNetworkInfo: the file re-saved with the failed DELs must survive until the next DEL consumes it")
		}
	}
	if n == 0 {
		c.undecided(rule, nil, "os.Remove in cniutil", nil, "no removal of the state file found")
	}
	// CmdAdd's only state operations are the initial save and the rollback CmdDel
	if fn := c.MustFn(rule, cniutilPkg, "CmdAdd"); fn != nil {
		la := c.locks()
		bad := ""
		for in, gs := range la.info[fn].callees {
			for _, g := range gs {
				if g.Pkg == fn.Pkg && bareName(g) != "saveNetworkInfo" && bareName(g) != "CmdDel" && bareName(g) != "DelegateAdd" && bareName(g) != "BuildCNIArgs" {
					// any other same-package helper must not reach os.Remove / WriteFile
					seen := map[*ssa.Function]bool{}
					for _, allowed := range []string{"saveNetworkInfo", "CmdDel"} {
						if af := c.Fn(cniutilPkg, allowed); af != nil {
							seen[af] = true // reaching the state file through these two is the rule
						}
					}
					if reachesCallee(la, g, seen, "os.Remove", "os.RemoveAll", "io/ioutil.WriteFile", "os.WriteFile") {
						bad = fnName(g) + " at " + c.instrPos(in)
					}
				}
			}
		}
		c.ob(rule, fn, "CmdAdd touches the state file only through saveNetworkInfo and the rollback CmdDel", nil, bad == "", "no other helper called from CmdAdd reaches os.Remove / WriteFile "+bad)
	}
}

func reachesCallee(la *lockAnalysis, f *ssa.Function, seen map[*ssa.Function]bool, pats ...string) bool {
	if seen[f] {
		return false
	}
	seen[f] = true
	if len(callsDeep(f, pats...)) > 0 {
		return true
	}
	if fi := la.info[f]; fi != nil {
		for _, gs := range fi.callees {
			for _, g := range gs {
				if reachesCallee(la, g, seen, pats...) {
					return true
				}
			}
		}
	}
	return false
}

// the JSON form of the networks annotation is used as decoded: no field of a decoded entry is rewritten
func ruleAnnotationJSONUntouched(c *Ctx, rule string) {
	fn := c.MustFn(rule, "pkg/api/k8s", "ParsePodNetworkAnnotation")
	if fn == nil {
		return
	}
	um := calls(fn, "encoding/json.Unmarshal")
	if len(um) != 1 {
		c.undecided(rule, fn, "json.Unmarshal", nil, "expected one call")
		return
	}
	r := c.reachAfter(um[0], nil)
	bad := false
	n := 0
	allInstrs(fn, func(in ssa.Instruction) {
		st, ok := in.(*ssa.Store)
		if !ok {
			return
		}
		fa, ok := st.Addr.(*ssa.FieldAddr)
		if !ok || typeNameOf(fa.X.Type()) != "NetworkSelectionElement" {
			return
		}
		n++
		if r.has(st) {
			bad = true
		}
	})
	c.ob(rule, fn, "entries of a JSON-form annotation are used as decoded", um[0], !bad && n > 0, fmt.Sprintf("%d stores to NetworkSelectionElement fields (comma form), none reachable after json.Unmarshal: name and interface of a JSON entry are what the pod wrote", n))
}
