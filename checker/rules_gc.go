package main

import (
	"fmt"
	"go/token"
	"go/types"
	"strings"

	"golang.org/x/tools/go/ssa"
)

const gcPkg = "pkg/gc"

func returnsConstBool(fn *ssa.Function, want bool) []*ssa.Return {
	var out []*ssa.Return
	for _, r := range returns(fn) {
		if len(r.Results) == 1 {
			if b, ok := constBoolVal(retVal(r, 0)); ok && b == want {
				out = append(out, r)
			}
		}
	}
	return out
}

// C17 — garbage collection only of dead containers' state.
func ruleGC(c *Ctx, rule string) {
	// R1: deletion only behind the decision function, for the same id
	n := 0
	for _, fn := range c.SrcFns {
		if fn.Pkg.Pkg.Path() != modPath+gcPkg {
			continue
		}
		for _, d := range callsLocal(fn, gcPkg+".removeLeakyIPFile", "(*flannelGC).removeLeakyStateFile", "netlink.LinkDel") {
			n++
			var sc []*ssa.Call
			for _, s := range callsLocal(fn, "(*flannelGC).shouldCleanup") {
				sc = append(sc, s.(*ssa.Call))
			}
			yes := guardEdges(fn, predBool(func(v ssa.Value) bool {
				for _, s := range sc {
					if v == ssa.Value(s) {
						return true
					}
				}
				return false
			}))
			ok := guardedBy(fn, d, yes)
			// same id: the remover's argument and the decision's argument derive from the same directory entry / link
			same := false
			for _, s := range sc {
				id := s.Call.Args[1]
				for _, a := range d.Common().Args {
					if a == id {
						same = true
					}
					// or both derive from the same Name() call / the same range element
					src := func(x ssa.Value) bool {
						call, ok := x.(*ssa.Call)
						return ok && (strings.HasSuffix(calleeName(call), ".Name") || strings.HasSuffix(calleeName(call), ".Attrs"))
					}
					var roots []ssa.Value
					dependsOn(id, func(x ssa.Value) bool {
						if src(x) {
							roots = append(roots, x.(*ssa.Call).Call.Value)
							if len(x.(*ssa.Call).Call.Args) > 0 {
								roots = append(roots, x.(*ssa.Call).Call.Args[0])
							}
						}
						return false
					})
					dependsOn(a, func(x ssa.Value) bool {
						if call, ok := x.(*ssa.Call); ok && src(x) {
							for _, r := range roots {
								if r != nil && (call.Call.Value == r || (len(call.Call.Args) > 0 && call.Call.Args[0] == r)) {
									same = true
								}
							}
						}
						for _, r := range roots {
							if r != nil && x == r {
								same = true
							}
						}
						return false
					})
				}
			}
			c.ob(rule, fn, shortCallee(d)+" only if shouldCleanup said so, for the same container", d, ok && same, fmt.Sprintf("reachable only through the true edge of shouldCleanup (=%v); remover operand and decision operand name the same entry (=%v)", ok, same))
		}
		// raw deletions live only in the removers
		for _, d := range callsLocal(fn, "os.Remove") {
			c.ob(rule, fn, "os.Remove only inside the leaky-file removers", d, strings.HasPrefix(bareName(fn), "removeLeaky"), "state files are deleted only by removeLeakyIPFile / removeLeakyStateFile")
		}
	}
	if n < 3 {
		c.undecided(rule, nil, "removers", nil, fmt.Sprintf("expected 3 remover call sites in package gc, found %d", n))
	}
	// R2: fail-safe decision function
	if fn := c.MustFn(rule, gcPkg, "(*flannelGC).shouldCleanup"); fn != nil {
		trues := returnsConstBool(fn, true)
		// the decision may be split over same-package helpers whose result shouldCleanup returns
		for _, h := range helperFns(fn, 2) {
			if h.Signature.Results().Len() == 1 && types.Identical(h.Signature.Results().At(0).Type(), types.Typ[types.Bool]) {
				trues = append(trues, returnsConstBool(h, true)...)
			}
		}
		grpcNF := guardEdgesX(fn, predEq(func(v ssa.Value) bool { return isResultOf(v, 0, "status.Status).Code") }, func(v ssa.Value) bool {
			k, ok := v.(*ssa.Const)
			return ok && k.Value != nil && strings.HasSuffix(k.Type().String(), "codes.Code") && k.Int64() == 5
		}))
		k8sNF := guardEdgesX(fn, predCall("errors.IsNotFound", nil))
		dockerNF := guardEdgesX(fn, predBool(func(v ssa.Value) bool {
			ex, ok := v.(*ssa.Extract)
			if !ok || ex.Index != 1 {
				return false
			}
			ta, ok := ex.Tuple.(*ssa.TypeAssert)
			return ok && typeNameOf(ta.AssertedType) == "ContainerNotFoundError"
		}))
		dead := guardEdgesX(fn, predEq(func(v ssa.Value) bool { return pathEndsWith(v, "State", "Status") || pathEndsWith(v, "Status") }, func(v ssa.Value) bool {
			s, ok := constStringVal(v)
			return ok && (s == "exited" || s == "dead")
		}))
		notReady := guardEdgesX(fn, predEq(func(v ssa.Value) bool { return pathEndsWith(v, "State") }, func(v ssa.Value) bool {
			k, ok := v.(*ssa.Const)
			return ok && strings.Contains(k.Type().String(), "PodSandboxState") && k.Int64() == 1
		}))
		// apierrors.IsNotFound(pod) is a classifier only INSIDE the sandbox-not-ready branch, so it is not removed here:
		// a `return true` reached through it without the NOTREADY edge is a violation
		all := newCut().edge(grpcNF...).edge(dockerNF...).edge(dead...).edge(notReady...)
		r := reachFromEntry(fn, all)
		bad := 0
		for _, t := range trues {
			if r.has(t) {
				bad++
			}
		}
		c.ob(rule, fn, "`return true` only through a not-found / exited / dead / sandbox-not-ready classifier", nil, bad == 0 && len(trues) >= 4 && len(grpcNF) == 1 && len(k8sNF) == 1 && len(dockerNF) == 1 && len(dead) == 2 && len(notReady) == 1,
			fmt.Sprintf("%d `return true`; classifier edges: grpc NotFound %d, apierrors.IsNotFound %d, ContainerNotFoundError %d, status exited/dead %d, SANDBOX_NOTREADY %d; reachable without any of them: %d", len(trues), len(grpcNF), len(k8sNF), len(dockerNF), len(dead), len(notReady), bad))
		// every error edge keeps the state unless classified not-found
		for _, s := range callsAllX(fn, "(*DockerInterface).ContainedInspectContainer", "(*DockerInterface).DockerInspectContainer", "PodInterface).Get") {
			ts := errTests(s)
			ok := len(ts) > 0
			for _, t := range ts {
				rr := reachFromEdge(t.ErrEdge, newCut().edge(grpcNF...).edge(k8sNF...).edge(dockerNF...))
				for _, tr := range trues {
					if rr.has(tr) {
						ok = false
					}
				}
			}
			c.ob(rule, fn, "an error of "+shortCallee(s)+" other than not-found keeps the state", s, ok, "from the err!=nil edge `return true` is reachable only through the not-found classifier")
		}
		// a live workload keeps the sandbox's state
		alive := guardEdgesX(fn, predNeq(func(v ssa.Value) bool { return pathEndsWith(v, "Waiting") || pathEndsWith(v, "Running") }, isNilConst))
		okA := len(alive) == 2
		for _, e := range alive {
			rr := reachFromEdge(e, nil)
			for _, tr := range trues {
				if rr.has(tr) {
					okA = false
				}
			}
		}
		c.ob(rule, fn, "a sandbox with a waiting or running container is kept", nil, okA, "from the Waiting != nil / Running != nil edges `return true` is unreachable")
		// the runtime is asked on every path
		insp := callsAllX(fn, "(*DockerInterface).ContainedInspectContainer", "(*DockerInterface).DockerInspectContainer")
		rr := reachFromEntry(fn, newCut().callInstrs(insp))
		asked := true
		for _, ret := range returns(fn) {
			if rr.has(ret) {
				asked = false
			}
		}
		c.ob(rule, fn, "no decision without asking the container runtime", nil, asked && len(insp) == 2, "every path to a return passes an inspect call")
	}
	// the state file is the only record of what to clean: the port-clean callback runs before the file is removed
	if fn := c.MustFn(rule, gcPkg, "(*flannelGC).removeLeakyStateFile"); fn != nil {
		var cb []ssa.Instruction
		allInstrs(fn, func(in ssa.Instruction) {
			if call, ok := in.(*ssa.Call); ok && calleeName(call) == "" {
				// the callback field itself, or a parameter that every caller fills with it
				if pathEndsWith(call.Call.Value, "cleanPortFunc") {
					cb = append(cb, call)
				} else if _, isP := call.Call.Value.(*ssa.Parameter); isP && allActuals(call.Call.Value, func(v ssa.Value) bool { return pathEndsWith(v, "cleanPortFunc") }) {
					cb = append(cb, call)
				}
			}
		})
		rm := calls(fn, "os.Remove")
		ok := len(cb) == 1 && len(rm) == 1
		if ok {
			ok = precedes(fn, cb, rm[0])
		}
		c.ob(rule, fn, "port mappings are cleaned before their record is deleted", nil, ok, "the cleanPortFunc callback (which reads the port file of the container) precedes os.Remove(file) on every path")
	}
	// R3: the docker wrapper: timeout before classification; the daemon is asked on every call
	if fn := c.MustFn(rule, "pkg/api/docker", "(*DockerInterface).DockerInspectContainer"); fn != nil {
		ask := calls(fn, "ContainerInspect")
		nf := calls(fn, "IsErrContainerNotFound")
		ce := calls(fn, "pkg/api/docker.contextError")
		if len(ask) == 1 && len(nf) == 1 && len(ce) == 0 {
			c.ob(rule, fn, "a timed-out inspect is reported as a timeout, never classified", ask[0], false, "DockerInspectContainer never consults contextError: an expired deadline reaches the not-found classification")
		} else if len(ask) != 1 || len(nf) != 1 || len(ce) != 1 {
			c.undecided(rule, fn, "ContainerInspect / IsErrContainerNotFound / contextError", nil, "expected one call of each")
		} else {
			rr := reachFromEntry(fn, newCut().callInstrs(ask))
			asked := true
			for _, ret := range returns(fn) {
				if rr.has(ret) {
					asked = false
				}
			}
			c.ob(rule, fn, "the docker daemon is asked on every call", ask[0], asked, "every path to a return passes client.ContainerInspect (no local short-circuit that would starve collection)")
			// the classification may live in a helper of its own (context error first, then not-found): judge it where it is
			host := fn
			if nf[0].Parent() == ce[0].Parent() {
				host = nf[0].Parent()
			}
			ctxOK := guardEdgesX(host, predEq(func(v ssa.Value) bool { return v == ce[0].Value() }, isNilConst))
			c.ob(rule, fn, "a timeout is never classified as not-found", nf[0], guardedBy(host, nf[0], ctxOK), "IsErrContainerNotFound reachable only through the contextError == nil edge")
			// only the not-found classifier yields ContainerNotFoundError
			isNF := guardEdgesX(host, predCall("IsErrContainerNotFound", nil))
			okT := true
			allInstrsX(fn, func(in ssa.Instruction) {
				if mi, ok := in.(*ssa.MakeInterface); ok && typeNameOf(mi.X.Type()) == "ContainerNotFoundError" {
					if !guardedBy(mi.Parent(), mi, isNF) {
						okT = false
					}
				}
			})
			c.ob(rule, fn, "ContainerNotFoundError only when the daemon says not found", nil, okT && len(isNF) == 1, "the typed error is built only on the IsErrContainerNotFound edge")
		}
	}
	if fn := c.MustFn(rule, "pkg/api/docker", "(*DockerInterface).ContainedInspectContainer"); fn != nil {
		ask := calls(fn, "PodSandboxStatus")
		env := guardEdges(fn, predNeq(func(v ssa.Value) bool { return isResultOf(v, 0, "os.Getenv") }, func(v ssa.Value) bool { s, ok := constStringVal(v); return ok && s == "" }))
		ok := len(ask) == 1 && len(env) == 1
		if ok {
			rr := reachFromEdge(env[0], newCut().callInstrs(ask))
			for _, ret := range returns(fn) {
				if rr.has(ret) {
					ok = false
				}
			}
			okE, _, _ := onErrorReturnsErr(fn, ask[0])
			ok = ok && okE
		}
		c.ob(rule, fn, "containerd is asked on every call and its error is returned as is", nil, ok, "on the CONTAINERD_HOST edge every path passes PodSandboxStatus; its error is returned")
	}
	_ = token.ADD
}

// every directory / link is examined in every round: the collectors leave their scan loop only when it is exhausted
func ruleGCScansEverything(c *Ctx, rule string) {
	for _, name := range []string{"(*flannelGC).cleanupIP", "(*flannelGC).cleanupGCDirs", "(*flannelGC).cleanupVeth"} {
		fn := c.MustFn(rule, gcPkg, name)
		if fn == nil {
			continue
		}
		sc := calls(fn, "(*flannelGC).shouldCleanup")
		if len(sc) == 0 {
			c.undecided(rule, fn, "shouldCleanup", nil, "no decision call")
			continue
		}
		// outermost loop header dominating the decision call (or, when the per-directory body moved into a helper, the call of that
		// helper: a return inside the helper is the `continue` of this loop)
		at := siteIn(fn, sc[0])
		if at == nil {
			c.undecided(rule, fn, "scan loop", nil, "shouldCleanup is not reached from the collector through one static call")
			continue
		}
		var h *ssa.BasicBlock
		for _, b := range fn.Blocks {
			back := false
			for _, p := range b.Preds {
				if b.Dominates(p) {
					back = true
				}
			}
			if back && b.Dominates(at.Block()) && (h == nil || b.Dominates(h)) {
				h = b
			}
		}
		if h == nil {
			c.undecided(rule, fn, "scan loop", nil, "no loop around shouldCleanup")
			continue
		}
		loop := naturalLoop(h)
		bad := ""
		for b := range loop {
			if b == h {
				continue
			}
			for _, s := range b.Succs {
				if !loop[s] {
					bad = fmt.Sprintf("block %d leaves the loop to block %d (%s)", b.Index, s.Index, c.instrPos(s.Instrs[len(s.Instrs)-1]))
				}
			}
		}
		c.ob(rule, fn, "the scan loop is left only when exhausted", nil, bad == "", "no return/break inside the loop over directories/links: an unreadable directory or a failing entry does not keep the rest from being collected in this and every later round "+bad)
	}
	// the id asked about is the first line of the reservation file
	if fn := c.MustFn(rule, gcPkg, "(*flannelGC).cleanupIP"); fn != nil {
		sc := calls(fn, "(*flannelGC).shouldCleanup")
		if len(sc) != 1 {
			c.undecided(rule, fn, "shouldCleanup", nil, "expected one call")
			return
		}
		id := sc[0].Common().Args[1]
		var seps []string
		okSplit := false
		dependsOn(id, func(x ssa.Value) bool {
			call, ok := x.(*ssa.Call)
			if !ok {
				return false
			}
			cn := calleeName(call)
			switch {
			case nameMatch(cn, "strings.Fields"):
				okSplit = true
				seps = append(seps, "<whitespace>")
			case matchAny(cn, []string{"strings.Split", "strings.SplitN", "strings.SplitAfter", "strings.SplitAfterN", "strings.Cut", "strings.Index", "strings.IndexAny", "strings.IndexByte", "strings.IndexRune", "bytes.Split", "bytes.SplitN", "bytes.Cut", "bytes.Index", "bytes.IndexByte", "bytes.IndexAny"}):
				if len(call.Call.Args) >= 2 {
					a := stripConv(call.Call.Args[1])
					if s, ok := constStringVal(a); ok {
						seps = append(seps, fmt.Sprintf("%q", s))
						if s == "\n" || (strings.Contains(cn, "IndexAny") && strings.Contains(s, "\n")) {
							okSplit = true
						}
					} else if n, ok := constIntVal(a); ok {
						seps = append(seps, fmt.Sprintf("%q", rune(n)))
						if n == '\n' {
							okSplit = true
						}
					}
				}
			}
			return false
		})
		c.ob(rule, fn, "the container id asked about is the first line of the reservation file", sc[0], okSplit, fmt.Sprintf("the id passed to shouldCleanup derives from the file content through a split at \"\\n\" (the common part of both line breaks host-local has written: \\n and \\r\\n) or at whitespace; separators seen: %v", seps))
	}
}
