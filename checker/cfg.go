package main

import (
	"fmt"
	"go/token"
	"go/types"
	"strings"

	"golang.org/x/tools/go/ssa"
)

// ---------- callee naming ----------

// calleeName returns the canonical name of the function called by a call instruction:
//
//	static function/method:  "strings.HasPrefix", "(*@/pkg/ipam/floatingip.crdIpam).createFloatingIP"
//	interface method:        "(@/pkg/ipam/floatingip.IPAM).Release"
//	closure:                 name of the anonymous function
//	otherwise ""             (dynamic call through a func value)
func calleeName(call ssa.CallInstruction) string {
	cc := call.Common()
	if cc.IsInvoke() {
		return short(cc.Method.FullName())
	}
	if f := cc.StaticCallee(); f != nil {
		if f.Object() != nil {
			if tf, ok := f.Object().(*types.Func); ok {
				return short(tf.FullName())
			}
		}
		// instantiated generic or anonymous
		if o := f.Origin(); o != nil && o.Object() != nil {
			return short(o.Object().(*types.Func).FullName())
		}
		return fnName(f)
	}
	if b, ok := cc.Value.(*ssa.Builtin); ok {
		return "builtin." + b.Name()
	}
	return ""
}

// nameMatch: pattern may be a full canonical name, or a suffix starting at "." or ")." boundary, e.g.
// "(*crdIpam).createFloatingIP", "IPAM).Release", "strings.HasPrefix".
func nameMatch(name, pat string) bool {
	if name == "" {
		return false
	}
	if name == pat {
		return true
	}
	if strings.HasPrefix(pat, "(") && strings.HasPrefix(name, "(") {
		// "(*T).M" matches "(*some/pkg.T).M"
		if i := strings.Index(name, ")"); i > 0 {
			recv := name[1:i]
			star := ""
			if strings.HasPrefix(recv, "*") {
				star, recv = "*", recv[1:]
			}
			if j := strings.LastIndex(recv, "."); j >= 0 {
				if "("+star+recv[j+1:]+name[i:] == pat {
					return true
				}
			}
		}
	}
	if strings.HasSuffix(name, pat) {
		pre := name[:len(name)-len(pat)]
		if pre == "" {
			return true
		}
		last := pre[len(pre)-1]
		return last == '.' || last == '/' || last == '(' || last == '*'
	}
	return false
}

func matchAny(name string, pats []string) bool {
	for _, p := range pats {
		if nameMatch(name, p) {
			return true
		}
	}
	return false
}

// allInstrs iterates over all instructions of fn (not of nested anonymous functions).
func allInstrs(fn *ssa.Function, f func(in ssa.Instruction)) {
	for _, b := range fn.Blocks {
		for _, in := range b.Instrs {
			f(in)
		}
	}
}

// calls returns the call instructions (call, defer, go) in fn whose callee matches one of pats.
func calls(fn *ssa.Function, pats ...string) []ssa.CallInstruction {
	var out []ssa.CallInstruction
	if fn == nil {
		return nil
	}
	allInstrs(fn, func(in ssa.Instruction) {
		if ci, ok := in.(ssa.CallInstruction); ok {
			if matchAny(calleeName(ci), pats) {
				out = append(out, ci)
			}
		}
	})
	return out
}

// withAnon returns fn and all anonymous functions nested in it.
func withAnon(fn *ssa.Function) []*ssa.Function {
	if fn == nil {
		return nil
	}
	out := []*ssa.Function{fn}
	for _, a := range fn.AnonFuncs {
		out = append(out, withAnon(a)...)
	}
	return out
}

func callsDeep(fn *ssa.Function, pats ...string) []ssa.CallInstruction {
	var out []ssa.CallInstruction
	for _, f := range withAnon(fn) {
		out = append(out, calls(f, pats...)...)
	}
	return out
}

// ---------- reachability on the SSA CFG at instruction granularity ----------

type edge struct {
	from *ssa.BasicBlock
	succ int // index into from.Succs
}

func (e edge) String() string {
	return fmt.Sprintf("b%d->b%d", e.from.Index, e.from.Succs[e.succ].Index)
}

type cut struct {
	avoid map[ssa.Instruction]bool // execution stops *before* these instructions
	edges map[edge]bool            // removed edges
}

func newCut() *cut { return &cut{avoid: map[ssa.Instruction]bool{}, edges: map[edge]bool{}} }
func (c *cut) instr(ins ...ssa.Instruction) *cut {
	for _, i := range ins {
		if i != nil {
			c.avoid[i] = true
		}
	}
	return c
}
func (c *cut) callInstrs(ins []ssa.CallInstruction) *cut {
	for _, i := range ins {
		c.avoid[i] = true
	}
	return c
}
func (c *cut) edge(es ...edge) *cut {
	for _, e := range es {
		c.edges[e] = true
	}
	return c
}

type reachSet struct {
	instrs map[ssa.Instruction]bool
	blocks map[*ssa.BasicBlock]bool // blocks entered at their top
}

func (r *reachSet) has(in ssa.Instruction) bool { return r.instrs[in] }
func (r *reachSet) anyCall(ins []ssa.CallInstruction) ssa.CallInstruction {
	for _, i := range ins {
		if r.instrs[i] {
			return i
		}
	}
	return nil
}

// walk executes from instruction index i of block b.
func reachWalk(r *reachSet, b *ssa.BasicBlock, i int, c *cut, work *[]*ssa.BasicBlock) {
	for ; i < len(b.Instrs); i++ {
		in := b.Instrs[i]
		if c != nil && c.avoid[in] {
			return
		}
		r.instrs[in] = true
	}
	for si, s := range b.Succs {
		if c != nil && c.edges[edge{b, si}] {
			continue
		}
		if !r.blocks[s] {
			r.blocks[s] = true
			*work = append(*work, s)
		}
	}
}

func reachDrain(r *reachSet, c *cut, work []*ssa.BasicBlock) {
	for len(work) > 0 {
		b := work[len(work)-1]
		work = work[:len(work)-1]
		reachWalk(r, b, 0, c, &work)
	}
}

// reachFromEntry: instructions executable from function entry under the cut.
func reachFromEntry(fn *ssa.Function, c *cut) *reachSet {
	r := &reachSet{instrs: map[ssa.Instruction]bool{}, blocks: map[*ssa.BasicBlock]bool{}}
	if len(fn.Blocks) == 0 {
		return r
	}
	r.blocks[fn.Blocks[0]] = true
	reachDrain(r, c, []*ssa.BasicBlock{fn.Blocks[0]})
	return r
}

// reachAfter: instructions executable strictly after instruction in.
func (cx *Ctx) reachAfter(in ssa.Instruction, c *cut) *reachSet {
	r := &reachSet{instrs: map[ssa.Instruction]bool{}, blocks: map[*ssa.BasicBlock]bool{}}
	var work []*ssa.BasicBlock
	reachWalk(r, in.Block(), cx.instrIndex(in)+1, c, &work)
	reachDrain(r, c, work)
	return r
}

// reachFromEdge: instructions executable after taking edge e.
func reachFromEdge(e edge, c *cut) *reachSet {
	r := &reachSet{instrs: map[ssa.Instruction]bool{}, blocks: map[*ssa.BasicBlock]bool{}}
	s := e.from.Succs[e.succ]
	r.blocks[s] = true
	reachDrain(r, c, []*ssa.BasicBlock{s})
	return r
}

// returns lists the Return instructions of fn.
func returns(fn *ssa.Function) []*ssa.Return {
	var out []*ssa.Return
	allInstrs(fn, func(in ssa.Instruction) {
		if r, ok := in.(*ssa.Return); ok {
			out = append(out, r)
		}
	})
	return out
}

// precedes: every path from entry to b passes one of as (b not reachable when the as are avoided).
func precedes(fn *ssa.Function, as []ssa.Instruction, b ssa.Instruction) bool {
	c := newCut().instr(as...)
	return !reachFromEntry(fn, c).has(b)
}

func toInstrs(cs []ssa.CallInstruction) []ssa.Instruction {
	out := make([]ssa.Instruction, len(cs))
	for i, c := range cs {
		out[i] = c
	}
	return out
}

// ---------- error tests ----------

type errTest struct {
	If      *ssa.If
	ErrEdge edge // taken when err != nil
	OkEdge  edge // taken when err == nil
}

func isNilConst(v ssa.Value) bool {
	c, ok := v.(*ssa.Const)
	return ok && c.IsNil()
}

var errorType = types.Universe.Lookup("error").Type()

// errValues returns the SSA values that carry the error result of call (direct value or Extract of the last
// tuple component), plus loads of a variable the error was stored into immediately (named result / captured var).
func errValues(call ssa.CallInstruction) []ssa.Value {
	v := call.Value()
	if v == nil {
		return nil
	}
	var out []ssa.Value
	sig := call.Common().Signature()
	res := sig.Results()
	if res.Len() == 0 {
		return nil
	}
	last := res.At(res.Len() - 1).Type()
	if !types.Identical(last, errorType) {
		return nil
	}
	if res.Len() == 1 {
		out = append(out, v)
	} else {
		for _, ref := range *v.Referrers() {
			if ex, ok := ref.(*ssa.Extract); ok && ex.Index == res.Len()-1 {
				out = append(out, ex)
			}
		}
	}
	// follow a store into a local/captured variable: subsequent loads in the same block before another store
	n := len(out)
	for i := 0; i < n; i++ {
		ev := out[i]
		for _, ref := range *ev.Referrers() {
			st, ok := ref.(*ssa.Store)
			if !ok || st.Val != ev {
				continue
			}
			b := st.Block()
			seen := false
			for _, in := range b.Instrs {
				if in == ssa.Instruction(st) {
					seen = true
					continue
				}
				if !seen {
					continue
				}
				if s2, ok := in.(*ssa.Store); ok && s2.Addr == st.Addr {
					break
				}
				if ld, ok := in.(*ssa.UnOp); ok && ld.Op == token.MUL && ld.X == st.Addr {
					out = append(out, ld)
				}
			}
		}
	}
	return out
}

// errTests finds the `if err != nil` / `if err == nil` tests of the error result of call.
func errTests(call ssa.CallInstruction) []errTest {
	var out []errTest
	for _, ev := range errValues(call) {
		for _, ref := range *ev.Referrers() {
			bo, ok := ref.(*ssa.BinOp)
			if !ok || (bo.Op != token.NEQ && bo.Op != token.EQL) {
				continue
			}
			if !(isNilConst(bo.X) || isNilConst(bo.Y)) {
				continue
			}
			for _, r2 := range *bo.Referrers() {
				iff, ok := r2.(*ssa.If)
				if !ok {
					continue
				}
				t := errTest{If: iff}
				if bo.Op == token.NEQ {
					t.ErrEdge, t.OkEdge = edge{iff.Block(), 0}, edge{iff.Block(), 1}
				} else {
					t.ErrEdge, t.OkEdge = edge{iff.Block(), 1}, edge{iff.Block(), 0}
				}
				out = append(out, t)
			}
		}
	}
	return out
}

// onlyAfterSuccess: m is executable only after the error of s was tested nil
// (m unreachable from entry when all ok-edges of s's error tests are removed). Requires at least one test.
func onlyAfterSuccess(fn *ssa.Function, s ssa.CallInstruction, m ssa.Instruction) (ok bool, decided bool) {
	ts := errTests(s)
	if len(ts) == 0 {
		return false, false
	}
	c := newCut()
	for _, t := range ts {
		c.edge(t.OkEdge)
	}
	return !reachFromEntry(fn, c).has(m), true
}

// onErrorNever: none of ms is executable after the err!=nil edge of s.
func onErrorNever(s ssa.CallInstruction, ms []ssa.Instruction) (bad ssa.Instruction, decided bool) {
	ts := errTests(s)
	if len(ts) == 0 {
		return nil, false
	}
	for _, t := range ts {
		r := reachFromEdge(t.ErrEdge, nil)
		for _, m := range ms {
			if r.has(m) {
				return m, true
			}
		}
	}
	return nil, true
}

// errResultIndex returns the index of the (last) error result of fn, or -1.
func errResultIndex(fn *ssa.Function) int {
	res := fn.Signature.Results()
	if res.Len() == 0 {
		return -1
	}
	if types.Identical(res.At(res.Len()-1).Type(), errorType) {
		return res.Len() - 1
	}
	return -1
}

// nonNilErrOperand: the value returned in the error slot is certainly non-nil or is one of the given tested
// error values (which are non-nil on the error edge).
func nonNilErrOperand(v ssa.Value, errVals []ssa.Value) bool {
	for _, e := range errVals {
		if v == e {
			return true
		}
	}
	switch x := v.(type) {
	case *ssa.Const:
		return !x.IsNil()
	case *ssa.Call:
		n := calleeName(x)
		return n == "fmt.Errorf" || n == "errors.New"
	case *ssa.MakeInterface:
		return true
	case *ssa.UnOp:
		// load of a package-level error variable such as ErrNoEnoughIP
		if x.Op == token.MUL {
			if _, ok := x.X.(*ssa.Global); ok {
				return true
			}
		}
	case *ssa.Phi:
		for _, e := range x.Edges {
			if !nonNilErrOperand(e, errVals) {
				return false
			}
		}
		return true
	}
	return false
}

// onErrorReturnsErr: from the err!=nil edge of s, every reachable return carries a non-nil error, and at
// least one return is reachable.
func onErrorReturnsErr(fn *ssa.Function, s ssa.CallInstruction) (ok bool, decided bool, why string) {
	return onErrorReturnsErrExcept(fn, s, nil)
}

// onErrorReturnsErrExcept is onErrorReturnsErr with the listed classifier edges (e.g. IsNotFound) removed.
func onErrorReturnsErrExcept(fn *ssa.Function, s ssa.CallInstruction, except []edge) (ok bool, decided bool, why string) {
	ts := errTests(s)
	ei := errResultIndex(fn)
	if ei < 0 {
		return false, false, "function has no error result"
	}
	if len(ts) == 0 {
		// direct `return s(...)`?
		evs := errValues(s)
		for _, r := range returns(fn) {
			for _, ev := range evs {
				if retVal(r, ei) == ev {
					return true, true, ""
				}
			}
		}
		return false, false, "error result is neither tested nor returned directly"
	}
	evs := errValues(s)
	for _, t := range ts {
		r := reachFromEdge(t.ErrEdge, newCut().edge(except...))
		n := 0
		for _, ret := range returns(fn) {
			if !r.has(ret) {
				continue
			}
			n++
			if !nonNilErrOperand(retVal(ret, ei), evs) {
				return false, true, "a return reachable from the error edge may carry a nil error"
			}
		}
		if n == 0 {
			return false, true, "no return reachable from the error edge"
		}
	}
	return true, true, ""
}

// ---------- guards ----------

// A condPred inspects the condition value of an `if` and reports whether it matches and which successor
// index is the edge on which the predicate HOLDS.
type condPred func(v ssa.Value) (match bool, holdsSucc int)

func guardEdges(fn *ssa.Function, p condPred) []edge {
	var out []edge
	allInstrs(fn, func(in ssa.Instruction) {
		if iff, ok := in.(*ssa.If); ok {
			if m, s := p(iff.Cond); m {
				out = append(out, edge{iff.Block(), s})
			}
		}
	})
	return out
}

// guardedBy: m is executable only through one of the edges (unreachable from entry when they are removed).
func guardedBy(fn *ssa.Function, m ssa.Instruction, es []edge) bool {
	if len(es) == 0 {
		return false
	}
	return !reachFromEntry(fn, newCut().edge(es...)).has(m)
}

// predCall: condition is the boolean result of a call whose callee matches pat and (optionally) whose
// arguments satisfy argOK. holds on the true edge.
func predCall(pat string, argOK func(call *ssa.Call) bool) condPred {
	return func(v ssa.Value) (bool, int) {
		call, ok := v.(*ssa.Call)
		if !ok {
			return false, 0
		}
		if !nameMatch(calleeName(call), pat) {
			return false, 0
		}
		if argOK != nil && !argOK(call) {
			return false, 0
		}
		return true, 0
	}
}

// predEq: condition is X == Y (holds on true edge) or X != Y (holds on false edge) where mx(X)&&my(Y) or swapped.
func predEq(mx, my func(ssa.Value) bool) condPred {
	return func(v ssa.Value) (bool, int) {
		bo, ok := v.(*ssa.BinOp)
		if !ok || (bo.Op != token.EQL && bo.Op != token.NEQ) {
			return false, 0
		}
		if (mx(bo.X) && my(bo.Y)) || (mx(bo.Y) && my(bo.X)) {
			if bo.Op == token.EQL {
				return true, 0
			}
			return true, 1
		}
		return false, 0
	}
}

// predNeq is predEq with the "holds" edge being inequality.
func predNeq(mx, my func(ssa.Value) bool) condPred {
	p := predEq(mx, my)
	return func(v ssa.Value) (bool, int) {
		m, s := p(v)
		return m, 1 - s
	}
}

// predBool: condition is a boolean value satisfying mv; holds on true edge.
func predBool(mv func(ssa.Value) bool) condPred {
	return func(v ssa.Value) (bool, int) {
		if mv(v) {
			return true, 0
		}
		return false, 0
	}
}

func negate(p condPred) condPred {
	return func(v ssa.Value) (bool, int) {
		m, s := p(v)
		return m, 1 - s
	}
}
