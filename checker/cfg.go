package main

import (
	"fmt"
	"go/token"
	"go/types"
	"strings"

	"golang.org/x/tools/go/ssa"
)

// ---------- callee naming ----------

// calleeName returns the canonical name of the function called by a call instruction:
//
//	static function/method:  "strings.HasPrefix", "(*@/pkg/ipam/floatingip.crdIpam).createFloatingIP"
//	interface method:        "(@/pkg/ipam/floatingip.IPAM).Release"
//	closure:                 name of the anonymous function
//	otherwise ""             (dynamic call through a func value)
func calleeName(call ssa.CallInstruction) string {
	n := rawCalleeName(call)
	if o, ok := renamedFrom[n]; ok {
		return o // a renamed function is reported under the name the rules know (renames.go)
	}
	return n
}

func rawCalleeName(call ssa.CallInstruction) string {
	cc := call.Common()
	if cc.IsInvoke() {
		return short(cc.Method.FullName())
	}
	if f := cc.StaticCallee(); f != nil {
		if f.Object() != nil {
			if tf, ok := f.Object().(*types.Func); ok {
				return short(tf.FullName())
			}
		}
		// instantiated generic or anonymous
		if o := f.Origin(); o != nil && o.Object() != nil {
			return short(o.Object().(*types.Func).FullName())
		}
		return fnName(f)
	}
	if b, ok := cc.Value.(*ssa.Builtin); ok {
		return "builtin." + b.Name()
	}
	return ""
}

// nameMatch: pattern may be a full canonical name, or a suffix starting at "." or ")." boundary, e.g.
// "(*crdIpam).createFloatingIP", "IPAM).Release", "strings.HasPrefix".
func nameMatch(name, pat string) bool {
	if name == "" {
		return false
	}
	if name == pat {
		return true
	}
	if strings.HasPrefix(pat, "(") && strings.HasPrefix(name, "(") {
		// "(*T).M" matches "(*some/pkg.T).M"
		if i := strings.Index(name, ")"); i > 0 {
			recv := name[1:i]
			star := ""
			if strings.HasPrefix(recv, "*") {
				star, recv = "*", recv[1:]
			}
			if j := strings.LastIndex(recv, "."); j >= 0 {
				if "("+star+recv[j+1:]+name[i:] == pat {
					return true
				}
			}
		}
	}
	// "(*T).M" also names the free function M of T's package when T has no method M any more (method -> function refactoring)
	if strings.HasPrefix(pat, "(") && !strings.HasPrefix(name, "(") {
		if i := strings.Index(pat, ")."); i > 0 {
			t := strings.TrimPrefix(pat[1:i], "*")
			if j := strings.LastIndex(t, "."); j >= 0 {
				t = t[j+1:]
			}
			m := pat[i+2:]
			if k := strings.LastIndex(name, "."); k > 0 && name[k+1:] == m {
				pp := name[:k]
				if pk, ok := typeMethods[t]; ok {
					if ms, ok := pk[pp]; ok && !ms[m] {
						return true
					}
				}
			}
		}
	}
	if strings.HasSuffix(name, pat) {
		pre := name[:len(name)-len(pat)]
		if pre == "" {
			return true
		}
		last := pre[len(pre)-1]
		return last == '.' || last == '/' || last == '(' || last == '*'
	}
	return false
}

func matchAny(name string, pats []string) bool {
	for _, p := range pats {
		if nameMatch(name, p) {
			return true
		}
	}
	return false
}

// allInstrs iterates over all instructions of fn (not of nested anonymous functions).
func allInstrs(fn *ssa.Function, f func(in ssa.Instruction)) {
	for _, b := range fn.Blocks {
		for _, in := range b.Instrs {
			f(in)
		}
	}
}

// calls returns the call instructions (call, defer, go) in fn whose callee matches one of pats (fn only; rules that must
// survive an extract-helper refactoring use callsX).
func calls(fn *ssa.Function, pats ...string) []ssa.CallInstruction {
	if fn != nil && curAnchors[fn] {
		return callsX(fn, pats...)
	}
	return callsLocal(fn, pats...)
}

// callsLocal: the matching call instructions of fn itself.
func callsLocal(fn *ssa.Function, pats ...string) []ssa.CallInstruction {
	var out []ssa.CallInstruction
	if fn == nil {
		return nil
	}
	allInstrs(fn, func(in ssa.Instruction) {
		if ci, ok := in.(ssa.CallInstruction); ok {
			if matchAny(calleeName(ci), pats) {
				out = append(out, ci)
			}
		}
	})
	return out
}

// ---------- same-package helpers: anchors and values seen through extracted functions ----------

var staticSites = map[*ssa.Function][]*ssa.Call{}

// typeMethods: receiver type name -> package path -> set of method names (module source functions); used to recognise an
// unexported method that was turned into a free function of the same package (and keeps its name)
var typeMethods = map[string]map[string]map[string]bool{}

func registerCallSites(fns []*ssa.Function) {
	for _, fn := range fns {
		if recv := fn.Signature.Recv(); recv != nil && fn.Pkg != nil {
			tn := typeNameOf(recv.Type())
			if typeMethods[tn] == nil {
				typeMethods[tn] = map[string]map[string]bool{}
			}
			pp := short(fn.Pkg.Pkg.Path())
			if typeMethods[tn][pp] == nil {
				typeMethods[tn][pp] = map[string]bool{}
			}
			typeMethods[tn][pp][fn.Name()] = true
		}
	}
	for _, fn := range fns {
		allInstrs(fn, func(in ssa.Instruction) {
			if call, ok := in.(*ssa.Call); ok {
				if g := call.Call.StaticCallee(); g != nil && g.Blocks != nil {
					staticSites[g] = append(staticSites[g], call)
				}
			}
		})
	}
}

// helperFns: the same-package functions with a body that fn calls statically (plain calls), transitively up to depth.
func helperFns(fn *ssa.Function, depth int) []*ssa.Function {
	var out []*ssa.Function
	seen := map[*ssa.Function]bool{fn: true}
	var rec func(f *ssa.Function, d int)
	rec = func(f *ssa.Function, d int) {
		if d == 0 {
			return
		}
		allInstrs(f, func(in ssa.Instruction) {
			if g := helperOf(in, nil); g != nil && !seen[g] {
				seen[g] = true
				out = append(out, g)
				rec(g, d-1)
			}
		})
	}
	rec(fn, depth)
	return out
}

// callsX: like calls, but when fn itself has no matching call the same-package helpers it calls (depth <= 2) are searched:
// an anchor that was moved into an extracted helper is still found (the reachability primitives follow the helper call).
func callsX(fn *ssa.Function, pats ...string) []ssa.CallInstruction {
	out := callsLocal(fn, pats...)
	if len(out) > 0 || fn == nil {
		return out
	}
	for _, g := range helperFns(fn, 2) {
		// a helper that is itself one of the searched callees is an anchor, not a container
		if matchAny(fnNameForMatch(g), pats) {
			continue
		}
		out = append(out, callsLocal(g, pats...)...)
	}
	return out
}

// callsAllX: matching calls in fn and in its same-package helpers (depth <= 2)
func callsAllX(fn *ssa.Function, pats ...string) []ssa.CallInstruction {
	out := callsLocal(fn, pats...)
	if fn == nil {
		return out
	}
	for _, g := range helperFns(fn, 2) {
		if matchAny(fnNameForMatch(g), pats) {
			continue
		}
		out = append(out, callsLocal(g, pats...)...)
	}
	return out
}

func fnNameForMatch(g *ssa.Function) string {
	n := fnName(g)
	if g.Object() != nil {
		if tf, ok := g.Object().(*types.Func); ok {
			n = short(tf.FullName())
		}
	}
	if o, ok := renamedFrom[n]; ok {
		return o
	}
	return n
}

// allInstrsX iterates over fn and its same-package helpers (depth <= 2)
func allInstrsX(fn *ssa.Function, f func(in ssa.Instruction)) {
	allInstrs(fn, f)
	for _, g := range helperFns(fn, 2) {
		allInstrs(g, f)
	}
}

// actualsOf: the arguments bound to parameter p at the static call sites of its function (nil if p's function has none)
func actualsOf(p *ssa.Parameter) []ssa.Value {
	fn := p.Parent()
	idx := -1
	for i, q := range fn.Params {
		if q == p {
			idx = i
		}
	}
	if idx < 0 {
		return nil
	}
	var out []ssa.Value
	for _, site := range staticSites[fn] {
		if idx < len(site.Call.Args) {
			out = append(out, site.Call.Args[idx])
		}
	}
	return out
}

// helperResults: for a plain call of a same-package helper, the values its returns put into result slot i
func helperResults(call *ssa.Call, i int) []ssa.Value {
	g := helperOf(call, nil)
	if g == nil {
		return nil
	}
	var out []ssa.Value
	for _, ret := range returns(g) {
		if i < len(ret.Results) {
			out = append(out, retVal(ret, i))
		}
	}
	return out
}

// withAnon returns fn and all anonymous functions nested in it.
func withAnon(fn *ssa.Function) []*ssa.Function {
	if fn == nil {
		return nil
	}
	out := []*ssa.Function{fn}
	for _, a := range fn.AnonFuncs {
		out = append(out, withAnon(a)...)
	}
	return out
}

func callsDeep(fn *ssa.Function, pats ...string) []ssa.CallInstruction {
	var out []ssa.CallInstruction
	for _, f := range withAnon(fn) {
		out = append(out, calls(f, pats...)...)
	}
	return out
}

// ---------- reachability on the SSA CFG at instruction granularity ----------

type edge struct {
	from *ssa.BasicBlock
	succ int // index into from.Succs
}

func (e edge) String() string {
	return fmt.Sprintf("b%d->b%d", e.from.Index, e.from.Succs[e.succ].Index)
}

type cut struct {
	avoid map[ssa.Instruction]bool // execution stops *before* these instructions
	edges map[edge]bool            // removed edges
}

func newCut() *cut { return &cut{avoid: map[ssa.Instruction]bool{}, edges: map[edge]bool{}} }
func (c *cut) instr(ins ...ssa.Instruction) *cut {
	for _, i := range ins {
		if i != nil {
			c.avoid[i] = true
		}
	}
	return c
}
func (c *cut) callInstrs(ins []ssa.CallInstruction) *cut {
	for _, i := range ins {
		c.avoid[i] = true
	}
	return c
}
func (c *cut) edge(es ...edge) *cut {
	for _, e := range es {
		c.edges[e] = true
	}
	return c
}

type reachSet struct {
	instrs map[ssa.Instruction]bool
	blocks map[*ssa.BasicBlock]bool // blocks entered at their top (any context)
	seen   map[rkey]bool
}

// rctx: call-string context of the walk (same-package helpers are entered and left at their own call site only)
type rctx struct {
	site  *ssa.Call
	up    *rctx
	depth int
}

type rkey struct {
	b     *ssa.BasicBlock
	i     int
	ctx   *rctx
	facts *retFacts
}

type rwork struct {
	b     *ssa.BasicBlock
	i     int
	ctx   *rctx
	facts *retFacts // what is known about the results of the helper call this walk just returned from (this block only)
}

// retFacts: nil-ness of the results of one helper call, as established by the Return the walk came back through
type retFacts struct {
	call *ssa.Call
	sig  string // per result: 'n' nil, 'x' non-nil, '?' unknown
}

var retFactsIntern = map[[2]interface{}]*retFacts{}

func internFacts(call *ssa.Call, sig string) *retFacts {
	if !strings.ContainsAny(sig, "nx") {
		return nil
	}
	k := [2]interface{}{call, sig}
	if f := retFactsIntern[k]; f != nil {
		return f
	}
	f := &retFacts{call, sig}
	retFactsIntern[k] = f
	return f
}

// nilnessOf: 'n' for the nil constant, 'x' for values that cannot be nil (fresh errors, allocations, addresses), '?' otherwise
func nilnessOf(v ssa.Value) byte {
	if isNilConst(v) {
		return 'n'
	}
	switch x := v.(type) {
	case *ssa.Alloc, *ssa.MakeInterface, *ssa.MakeMap, *ssa.MakeSlice, *ssa.MakeClosure, *ssa.FieldAddr, *ssa.IndexAddr:
		return 'x'
	case *ssa.Call:
		switch calleeName(x) {
		case "fmt.Errorf", "errors.New":
			return 'x'
		}
	}
	return '?'
}

const maxInlineDepth = 3

var rctxIntern = map[[2]interface{}]*rctx{}

func pushCtx(up *rctx, site *ssa.Call) *rctx {
	k := [2]interface{}{up, site}
	if x := rctxIntern[k]; x != nil {
		return x
	}
	d := 1
	if up != nil {
		d = up.depth + 1
	}
	x := &rctx{site: site, up: up, depth: d}
	rctxIntern[k] = x
	return x
}

func newReachSet() *reachSet {
	return &reachSet{instrs: map[ssa.Instruction]bool{}, blocks: map[*ssa.BasicBlock]bool{}, seen: map[rkey]bool{}}
}

func (r *reachSet) has(in ssa.Instruction) bool { return r.instrs[in] }
func (r *reachSet) anyCall(ins []ssa.CallInstruction) ssa.CallInstruction {
	for _, i := range ins {
		if r.instrs[i] {
			return i
		}
	}
	return nil
}

// helperOf: the same-package function with a body that this plain call enters (nil for external, dynamic, go/defer calls
// and for recursion within the current context)
func helperOf(in ssa.Instruction, ctx *rctx) *ssa.Function {
	call, ok := in.(*ssa.Call)
	if !ok {
		return nil
	}
	g := call.Call.StaticCallee()
	if g == nil || g.Blocks == nil || g.Pkg == nil || call.Parent() == nil || call.Parent().Pkg == nil {
		return nil
	}
	host := call.Parent()
	for host.Parent() != nil {
		host = host.Parent()
	}
	if g.Pkg != host.Pkg || g == call.Parent() {
		return nil
	}
	if ctx != nil && ctx.depth >= maxInlineDepth {
		return nil
	}
	for x := ctx; x != nil; x = x.up {
		if x.site.Call.StaticCallee() == g {
			return nil
		}
	}
	return g
}

// reachWalk executes from instruction index i of block b in context ctx. A call of a same-package helper is followed into the
// helper; the walk comes back to the instruction after that very call when a return of the helper is reached.
func reachWalk(r *reachSet, w rwork, c *cut, work *[]rwork) {
	b, i, ctx := w.b, w.i, w.ctx
	for ; i < len(b.Instrs); i++ {
		in := b.Instrs[i]
		if c != nil && c.avoid[in] {
			return
		}
		r.instrs[in] = true
		if g := helperOf(in, ctx); g != nil {
			nw := rwork{g.Blocks[0], 0, pushCtx(ctx, in.(*ssa.Call)), nil}
			k := rkey{nw.b, 0, nw.ctx, nil}
			if !r.seen[k] {
				r.seen[k] = true
				r.blocks[nw.b] = true
				*work = append(*work, nw)
			}
			return // continues at i+1 when the helper returns
		}
		if _, isRet := in.(*ssa.Return); isRet && ctx != nil {
			site := ctx.site
			sb := site.Block()
			idx := 0
			for j, x := range sb.Instrs {
				if x == ssa.Instruction(site) {
					idx = j + 1
				}
			}
			sig := make([]byte, len(in.(*ssa.Return).Results))
			for j := range sig {
				sig[j] = nilnessOf(retVal(in.(*ssa.Return), j))
			}
			facts := internFacts(site, string(sig))
			k := rkey{sb, idx, ctx.up, facts}
			if !r.seen[k] {
				r.seen[k] = true
				*work = append(*work, rwork{sb, idx, ctx.up, facts})
			}
			return
		}
	}
	only := -1
	if w.facts != nil {
		only = factsSucc(b, w.facts)
	}
	if only < 0 && ctx != nil {
		only = constArgSucc(b, ctx)
	}
	for si, s := range b.Succs {
		if c != nil && c.edges[edge{b, si}] {
			continue
		}
		if only >= 0 && si != only {
			continue
		}
		k := rkey{s, 0, ctx, nil}
		if !r.seen[k] {
			r.seen[k] = true
			r.blocks[s] = true
			*work = append(*work, rwork{s, 0, ctx, nil})
		}
	}
}

// constArgSucc: block b (inside a helper entered at ctx.site) ends in `if p` / `if !p` where p is a bool parameter of the
// helper and the call site passes a constant: only one successor is possible in this context. -1 when nothing is known.
func constArgSucc(b *ssa.BasicBlock, ctx *rctx) int {
	if len(b.Instrs) == 0 || ctx == nil || ctx.site == nil {
		return -1
	}
	iff, ok := b.Instrs[len(b.Instrs)-1].(*ssa.If)
	if !ok {
		return -1
	}
	cond, neg := iff.Cond, false
	if u, ok := cond.(*ssa.UnOp); ok && u.Op == token.NOT {
		cond, neg = u.X, true
	}
	p, ok := cond.(*ssa.Parameter)
	if !ok || p.Parent() != b.Parent() {
		return -1
	}
	idx := -1
	for i, q := range p.Parent().Params {
		if q == p {
			idx = i
		}
	}
	if idx < 0 || idx >= len(ctx.site.Call.Args) {
		return -1
	}
	v, isC := constBoolVal(ctx.site.Call.Args[idx])
	if !isC {
		return -1
	}
	if v != neg {
		return 0
	}
	return 1
}

// factsSucc: block b ends in `if <result of the helper call> ==/!= nil`; with the nil-ness established by the helper's
// return only one successor is possible. -1 when nothing is known.
func factsSucc(b *ssa.BasicBlock, f *retFacts) int {
	if len(b.Instrs) == 0 {
		return -1
	}
	iff, ok := b.Instrs[len(b.Instrs)-1].(*ssa.If)
	if !ok {
		return -1
	}
	bo, ok := iff.Cond.(*ssa.BinOp)
	if !ok || (bo.Op != token.EQL && bo.Op != token.NEQ) {
		return -1
	}
	var x ssa.Value
	if isNilConst(bo.Y) {
		x = bo.X
	} else if isNilConst(bo.X) {
		x = bo.Y
	} else {
		return -1
	}
	idx := -1
	if ex, ok := x.(*ssa.Extract); ok && ex.Tuple == ssa.Value(f.call) {
		idx = ex.Index
	} else if x == ssa.Value(f.call) {
		idx = 0
	}
	if idx < 0 || idx >= len(f.sig) || f.sig[idx] == '?' {
		return -1
	}
	isNil := f.sig[idx] == 'n'
	if (bo.Op == token.EQL) == isNil {
		return 0
	}
	return 1
}

func reachDrain(r *reachSet, c *cut, work []rwork) {
	for len(work) > 0 {
		w := work[len(work)-1]
		work = work[:len(work)-1]
		reachWalk(r, w, c, &work)
	}
}

// reachFromEntry: instructions executable from function entry under the cut.
func reachFromEntry(fn *ssa.Function, c *cut) *reachSet {
	r := newReachSet()
	if len(fn.Blocks) == 0 {
		return r
	}
	r.blocks[fn.Blocks[0]] = true
	r.seen[rkey{fn.Blocks[0], 0, nil, nil}] = true
	reachDrain(r, c, []rwork{{fn.Blocks[0], 0, nil, nil}})
	return r
}

// reachAfter: instructions executable strictly after instruction in.
func (cx *Ctx) reachAfter(in ssa.Instruction, c *cut) *reachSet {
	r := newReachSet()
	var work []rwork
	// a call of a helper: "after" begins when the helper has returned; the helper's own instructions are after it too
	reachWalkFrom(r, in, c, &work)
	reachDrain(r, c, work)
	return r
}

func reachWalkFrom(r *reachSet, in ssa.Instruction, c *cut, work *[]rwork) {
	b := in.Block()
	idx := 0
	for j, x := range b.Instrs {
		if x == in {
			idx = j + 1
		}
	}
	reachWalk(r, rwork{b, idx, nil, nil}, c, work)
}

// reachFromEdge: instructions executable after taking edge e.
func reachFromEdge(e edge, c *cut) *reachSet {
	r := newReachSet()
	s := e.from.Succs[e.succ]
	// `a || b` / `a && b` evaluated as a value (switch cases, assignments): the join block computes phi [true, b] and
	// branches on it. Arriving from the edge that carries the constant, only one successor of that branch is possible.
	path := []*ssa.BasicBlock{e.from}
	for depth := 0; depth < 6; depth++ {
		// a block that only jumps on (the body of `x = v; break`): walk through it, remembering the way
		if len(s.Succs) == 1 && len(s.Instrs) > 0 {
			if _, isJump := s.Instrs[len(s.Instrs)-1].(*ssa.Jump); isJump && (c == nil || !c.edges[edge{s, 0}]) {
				stop := false
				for _, in := range s.Instrs {
					if c != nil && c.avoid[in] {
						stop = true
						break
					}
					if helperOf(in, nil) != nil {
						stop = true // a helper call: leave it to the general walk
						break
					}
				}
				if !stop && constPhiCandidate(s.Succs[0]) {
					for _, in := range s.Instrs {
						r.instrs[in] = true
					}
					path = append(path, s)
					e = edge{s, 0}
					s = s.Succs[0]
					continue
				}
			}
		}
		k, ok := constPhiSucc(path, s)
		if !ok || (c != nil && c.edges[edge{s, k}]) {
			break
		}
		stop := false
		for _, in := range s.Instrs {
			if c != nil && c.avoid[in] {
				stop = true
				break
			}
			r.instrs[in] = true
		}
		if stop {
			return r
		}
		path = append(path, s)
		e = edge{s, k}
		s = e.from.Succs[e.succ]
	}
	r.blocks[s] = true
	r.seen[rkey{s, 0, nil, nil}] = true
	reachDrain(r, c, []rwork{{s, 0, nil, nil}})
	return r
}

// constPhiSucc: block s ends in `if phi` where phi (defined in s) has a boolean constant on the edge from pred; returns
// the only successor index that can be taken when s is entered from pred.
// constPhiCandidate: the block merges and branches on the merged value (cheap pre-test for the walk-through above)
func constPhiCandidate(s *ssa.BasicBlock) bool {
	if len(s.Instrs) == 0 {
		return false
	}
	_, isIf := s.Instrs[len(s.Instrs)-1].(*ssa.If)
	_, hasPhi := s.Instrs[0].(*ssa.Phi)
	return isIf && hasPhi
}

func constPhiSucc(path []*ssa.BasicBlock, s *ssa.BasicBlock) (int, bool) {
	pred := path[len(path)-1]
	if len(s.Instrs) == 0 {
		return 0, false
	}
	iff, ok := s.Instrs[len(s.Instrs)-1].(*ssa.If)
	if !ok {
		return 0, false
	}
	ph, ok := iff.Cond.(*ssa.Phi)
	if !ok || ph.Block() != s {
		// flag carried as a pointer: found := phi [nil (loop exhausted), elem (from the break)]; if found != nil { .. }
		// Arriving from a predecessor that dereferenced elem (so it is non-nil there) or that carries the nil constant,
		// only one successor is possible.
		bo, isBo := iff.Cond.(*ssa.BinOp)
		if !isBo || (bo.Op != token.EQL && bo.Op != token.NEQ) {
			return 0, false
		}
		var pv ssa.Value
		if isNilConst(bo.Y) {
			pv = bo.X
		} else if isNilConst(bo.X) {
			pv = bo.Y
		}
		pph, isPhi := pv.(*ssa.Phi)
		if !isPhi || pph.Block() != s {
			return 0, false
		}
		for _, in := range s.Instrs[:len(s.Instrs)-1] {
			switch in.(type) {
			case *ssa.Phi, *ssa.DebugRef, *ssa.BinOp:
			default:
				return 0, false
			}
		}
		for i, p := range s.Preds {
			if p != pred {
				continue
			}
			v := pph.Edges[i]
			isNil, known := false, false
			if isNilConst(v) {
				isNil, known = true, true
			} else {
				for _, pb := range path {
					for _, in := range pb.Instrs {
						switch x := in.(type) {
						case *ssa.FieldAddr:
							if x.X == v {
								known = true
							}
						case *ssa.UnOp:
							if x.Op == token.MUL && x.X == v {
								known = true
							}
						}
					}
				}
			}
			if !known {
				return 0, false
			}
			if (bo.Op == token.EQL) == isNil {
				return 0, true
			}
			return 1, true
		}
		return 0, false
	}
	// the block must do nothing but merge and branch
	for _, in := range s.Instrs[:len(s.Instrs)-1] {
		if _, isPhi := in.(*ssa.Phi); !isPhi {
			if _, isDbg := in.(*ssa.DebugRef); !isDbg {
				return 0, false
			}
		}
	}
	for i, p := range s.Preds {
		if p == pred {
			if b, isC := constBoolVal(ph.Edges[i]); isC {
				if b {
					return 0, true
				}
				return 1, true
			}
		}
	}
	return 0, false
}

// siteIn: the call instruction of fn through which call is executed: call itself when it is in fn (or a closure of fn), otherwise
// the one static call in fn of the same-package helper (depth <= 2) that contains it. nil when there is none or several.
func siteIn(fn *ssa.Function, call ssa.CallInstruction) ssa.CallInstruction {
	in := call
	for d := 0; d < 3; d++ {
		host := in.Parent()
		top := host
		for top.Parent() != nil {
			top = top.Parent()
		}
		if top == fn {
			return in
		}
		var sites, inFn []ssa.CallInstruction
		for _, cs := range staticSites[top] {
			sites = append(sites, cs)
			t2 := cs.Parent()
			for t2.Parent() != nil {
				t2 = t2.Parent()
			}
			if t2 == fn {
				inFn = append(inFn, cs)
			}
		}
		if len(inFn) == 1 {
			return inFn[0] // a helper shared by several functions: the one call of it in fn
		}
		if len(sites) != 1 {
			return nil
		}
		in = sites[0]
	}
	return nil
}

// allActuals: pred holds for v, or v is a parameter of a same-package helper and pred holds for the argument at every call site
func allActuals(v ssa.Value, pred func(ssa.Value) bool) bool {
	var rec func(v ssa.Value, d int) bool
	rec = func(v ssa.Value, d int) bool {
		if pred(v) {
			return true
		}
		p, ok := v.(*ssa.Parameter)
		if !ok || d > 2 {
			return false
		}
		acts := actualsOf(p)
		if len(acts) == 0 {
			return false
		}
		for _, a := range acts {
			if !rec(a, d+1) {
				return false
			}
		}
		return true
	}
	return rec(v, 0)
}

// throughParams: a parameter of a helper with exactly one static call site stands for the argument given there
func throughParams(v ssa.Value) ssa.Value {
	for d := 0; d < 3; d++ {
		p, ok := v.(*ssa.Parameter)
		if !ok {
			return v
		}
		acts := actualsOf(p)
		if len(acts) != 1 {
			return v
		}
		v = acts[0]
	}
	return v
}

// returns lists the Return instructions of fn.
func returns(fn *ssa.Function) []*ssa.Return {
	var out []*ssa.Return
	allInstrs(fn, func(in ssa.Instruction) {
		if r, ok := in.(*ssa.Return); ok {
			out = append(out, r)
		}
	})
	return out
}

// precedes: every path from entry to b passes one of as (b not reachable when the as are avoided).
func precedes(fn *ssa.Function, as []ssa.Instruction, b ssa.Instruction) bool {
	c := newCut().instr(as...)
	return !reachFromEntry(fn, c).has(b)
}

func toInstrs(cs []ssa.CallInstruction) []ssa.Instruction {
	out := make([]ssa.Instruction, len(cs))
	for i, c := range cs {
		out[i] = c
	}
	return out
}

// ---------- error tests ----------

type errTest struct {
	If      *ssa.If
	ErrEdge edge // taken when err != nil
	OkEdge  edge // taken when err == nil
}

func isNilConst(v ssa.Value) bool {
	c, ok := v.(*ssa.Const)
	return ok && c.IsNil()
}

var errorType = types.Universe.Lookup("error").Type()

// errValues returns the SSA values that carry the error result of call (direct value or Extract of the last
// tuple component), plus loads of a variable the error was stored into immediately (named result / captured var).
func errValues(call ssa.CallInstruction) []ssa.Value {
	v := call.Value()
	if v == nil {
		return nil
	}
	var out []ssa.Value
	sig := call.Common().Signature()
	res := sig.Results()
	if res.Len() == 0 {
		return nil
	}
	last := res.At(res.Len() - 1).Type()
	if !types.Identical(last, errorType) {
		return nil
	}
	if res.Len() == 1 {
		out = append(out, v)
	} else {
		for _, ref := range *v.Referrers() {
			if ex, ok := ref.(*ssa.Extract); ok && ex.Index == res.Len()-1 {
				out = append(out, ex)
			}
		}
	}
	// follow a store into a local/captured variable: subsequent loads in the same block before another store
	n := len(out)
	for i := 0; i < n; i++ {
		ev := out[i]
		for _, ref := range *ev.Referrers() {
			st, ok := ref.(*ssa.Store)
			if !ok || st.Val != ev {
				continue
			}
			b := st.Block()
			seen := false
			for _, in := range b.Instrs {
				if in == ssa.Instruction(st) {
					seen = true
					continue
				}
				if !seen {
					continue
				}
				if s2, ok := in.(*ssa.Store); ok && s2.Addr == st.Addr {
					break
				}
				if ld, ok := in.(*ssa.UnOp); ok && ld.Op == token.MUL && ld.X == st.Addr {
					out = append(out, ld)
				}
			}
		}
	}
	return out
}

// errTests finds the `if err != nil` / `if err == nil` tests of the error result of call.
func errTests(call ssa.CallInstruction) []errTest {
	var out []errTest
	for _, ev := range errValues(call) {
		for _, ref := range *ev.Referrers() {
			bo, ok := ref.(*ssa.BinOp)
			if !ok || (bo.Op != token.NEQ && bo.Op != token.EQL) {
				continue
			}
			if !(isNilConst(bo.X) || isNilConst(bo.Y)) {
				continue
			}
			for _, r2 := range *bo.Referrers() {
				iff, ok := r2.(*ssa.If)
				if !ok {
					continue
				}
				t := errTest{If: iff}
				if bo.Op == token.NEQ {
					t.ErrEdge, t.OkEdge = edge{iff.Block(), 0}, edge{iff.Block(), 1}
				} else {
					t.ErrEdge, t.OkEdge = edge{iff.Block(), 1}, edge{iff.Block(), 0}
				}
				out = append(out, t)
			}
		}
	}
	return out
}

// onlyAfterSuccess: m is executable only after the error of s was tested nil
// (m unreachable from entry when all ok-edges of s's error tests are removed). Requires at least one test.
func onlyAfterSuccess(fn *ssa.Function, s ssa.CallInstruction, m ssa.Instruction) (ok bool, decided bool) {
	ts := errTests(s)
	if len(ts) == 0 {
		return false, false
	}
	c := newCut()
	for _, t := range ts {
		c.edge(t.OkEdge)
	}
	return !reachFromEntry(fn, c).has(m), true
}

// onErrorNever: none of ms is executable after the err!=nil edge of s.
func onErrorNever(s ssa.CallInstruction, ms []ssa.Instruction) (bad ssa.Instruction, decided bool) {
	ts := errTests(s)
	if len(ts) == 0 {
		return nil, false
	}
	for _, t := range ts {
		r := reachFromEdge(t.ErrEdge, nil)
		for _, m := range ms {
			if r.has(m) {
				return m, true
			}
		}
	}
	return nil, true
}

// errResultIndex returns the index of the (last) error result of fn, or -1.
func errResultIndex(fn *ssa.Function) int {
	res := fn.Signature.Results()
	if res.Len() == 0 {
		return -1
	}
	if types.Identical(res.At(res.Len()-1).Type(), errorType) {
		return res.Len() - 1
	}
	return -1
}

// nonNilErrOperand: the value returned in the error slot is certainly non-nil or is one of the given tested
// error values (which are non-nil on the error edge).
func nonNilErrOperand(v ssa.Value, errVals []ssa.Value) bool {
	for _, e := range errVals {
		if v == e {
			return true
		}
	}
	switch x := v.(type) {
	case *ssa.Const:
		return !x.IsNil()
	case *ssa.Call:
		n := calleeName(x)
		if n == "fmt.Errorf" || n == "errors.New" {
			return true
		}
		// a same-package helper that builds the error: every return of it gives a non-nil one
		if x.Call.Signature().Results().Len() == 1 {
			if rs := helperResults(x, 0); len(rs) > 0 {
				for _, rv := range rs {
					if rv == v || !nonNilErrOperand(rv, nil) {
						return false
					}
				}
				return true
			}
		}
		return false
	case *ssa.MakeInterface:
		return true
	case *ssa.UnOp:
		// load of a package-level error variable such as ErrNoEnoughIP
		if x.Op == token.MUL {
			if _, ok := x.X.(*ssa.Global); ok {
				return true
			}
		}
	case *ssa.Phi:
		for _, e := range x.Edges {
			if !nonNilErrOperand(e, errVals) {
				return false
			}
		}
		return true
	}
	return false
}

// onErrorReturnsErr: from the err!=nil edge of s, every reachable return carries a non-nil error, and at
// least one return is reachable.
func onErrorReturnsErr(fn *ssa.Function, s ssa.CallInstruction) (ok bool, decided bool, why string) {
	return onErrorReturnsErrExcept(fn, s, nil)
}

// onErrorReturnsErrExcept is onErrorReturnsErr with the listed classifier edges (e.g. IsNotFound) removed.
func onErrorReturnsErrExcept(fn *ssa.Function, s ssa.CallInstruction, except []edge) (ok bool, decided bool, why string) {
	ts := errTests(s)
	ei := errResultIndex(fn)
	if ei < 0 {
		return false, false, "function has no error result"
	}
	if len(ts) == 0 {
		// direct `return s(...)`?
		evs := errValues(s)
		for _, r := range returns(fn) {
			for _, ev := range evs {
				if retVal(r, ei) == ev {
					return true, true, ""
				}
			}
		}
		return false, false, "error result is neither tested nor returned directly"
	}
	evs := errValues(s)
	for _, t := range ts {
		r := reachFromEdge(t.ErrEdge, newCut().edge(except...))
		n := 0
		for _, ret := range returns(fn) {
			if !r.has(ret) {
				continue
			}
			n++
			if !nonNilErrOperand(retVal(ret, ei), evs) {
				return false, true, "a return reachable from the error edge may carry a nil error"
			}
		}
		if n == 0 {
			return false, true, "no return reachable from the error edge"
		}
	}
	return true, true, ""
}

// ---------- guards ----------

// A condPred inspects the condition value of an `if` and reports whether it matches and which successor
// index is the edge on which the predicate HOLDS.
type condPred func(v ssa.Value) (match bool, holdsSucc int)

func guardEdges(fn *ssa.Function, p condPred) []edge {
	var out []edge
	allInstrs(fn, func(in ssa.Instruction) {
		if iff, ok := in.(*ssa.If); ok {
			if m, s := p(iff.Cond); m {
				out = append(out, edge{iff.Block(), s})
				return
			}
			// the condition is `a || b` / `a && b` computed as a value: phi [true.., b] (resp. [false.., b]) in this block.
			// If the predicate holds for b on its true (false) edge, the true (false) edge of this branch is where it holds
			// (over-approximated by the other disjuncts / exactly the edge for the conjunction's last operand).
			if ph, isPhi := iff.Cond.(*ssa.Phi); isPhi && ph.Block() == iff.Block() {
				for i, e := range ph.Edges {
					if _, isC := e.(*ssa.Const); isC {
						continue
					}
					m, s := p(e)
					if !m {
						continue
					}
					okForm := true
					for j, o := range ph.Edges {
						if j == i {
							continue
						}
						// [true.., b] with the predicate on b's true edge and [false.., b] with it on b's false edge are the
						// over-approximated forms; [false.., b] / true edge and [true.., b] / false edge are exact
						if _, isC := constBoolVal(o); !isC {
							okForm = false
						}
					}
					if okForm {
						out = append(out, edge{iff.Block(), s})
					}
				}
			}
		}
	})
	return out
}

// guardEdgesX: guard edges in fn and in the same-package helpers it calls (the reachability primitives follow those calls and
// correlate the helper's return with the caller's test of the returned error)
func guardEdgesX(fn *ssa.Function, p condPred) []edge {
	out := guardEdges(fn, p)
	for _, g := range helperFns(fn, 2) {
		out = append(out, guardEdges(g, p)...)
	}
	return out
}

// guardedBy: m is executable only through one of the edges (unreachable from entry when they are removed).
func guardedBy(fn *ssa.Function, m ssa.Instruction, es []edge) bool {
	if len(es) == 0 {
		return false
	}
	return !reachFromEntry(fn, newCut().edge(es...)).has(m)
}

// predCall: condition is the boolean result of a call whose callee matches pat and (optionally) whose
// arguments satisfy argOK. holds on the true edge.
func predCall(pat string, argOK func(call *ssa.Call) bool) condPred {
	return func(v ssa.Value) (bool, int) {
		call, ok := v.(*ssa.Call)
		if !ok {
			return false, 0
		}
		if !nameMatch(calleeName(call), pat) {
			return false, 0
		}
		if argOK != nil && !argOK(call) {
			return false, 0
		}
		return true, 0
	}
}

// predEq: condition is X == Y (holds on true edge) or X != Y (holds on false edge) where mx(X)&&my(Y) or swapped.
func predEq(mx, my func(ssa.Value) bool) condPred {
	return func(v ssa.Value) (bool, int) {
		bo, ok := v.(*ssa.BinOp)
		if !ok || (bo.Op != token.EQL && bo.Op != token.NEQ) {
			return false, 0
		}
		if (mx(bo.X) && my(bo.Y)) || (mx(bo.Y) && my(bo.X)) {
			if bo.Op == token.EQL {
				return true, 0
			}
			return true, 1
		}
		return false, 0
	}
}

// predNeq is predEq with the "holds" edge being inequality.
func predNeq(mx, my func(ssa.Value) bool) condPred {
	p := predEq(mx, my)
	return func(v ssa.Value) (bool, int) {
		m, s := p(v)
		return m, 1 - s
	}
}

// predBool: condition is a boolean value satisfying mv; holds on true edge.
func predBool(mv func(ssa.Value) bool) condPred {
	return func(v ssa.Value) (bool, int) {
		if mv(v) {
			return true, 0
		}
		return false, 0
	}
}

func negate(p condPred) condPred {
	return func(v ssa.Value) (bool, int) {
		m, s := p(v)
		return m, 1 - s
	}
}
