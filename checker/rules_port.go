package main

import (
	"fmt"
	"go/types"
	"os"
	"sort"
	"strings"

	"golang.org/x/tools/go/ssa"
)

const pmPkg = "pkg/network/portmapping"

// isBufferNamed: v is the local *bytes.Buffer created by the k-th bytes.NewBuffer call? we identify buffers by value.
func writeLinesTo(fn *ssa.Function, buf ssa.Value) []ssa.CallInstruction {
	var out []ssa.CallInstruction
	for _, w := range callsLocal(fn, pmPkg+".writeLine") {
		if w.Common().Args[0] == buf {
			out = append(out, w)
		}
	}
	// a same-package helper that is handed the buffer and writes a line to it on every path counts as a write
	allInstrs(fn, func(in ssa.Instruction) {
		call, ok := in.(*ssa.Call)
		if !ok {
			return
		}
		h := helperOf(call, nil)
		if h == nil || nameMatch(fnNameForMatch(h), pmPkg+".writeLine") {
			return
		}
		for i, a := range call.Call.Args {
			if a != buf || i >= len(h.Params) {
				continue
			}
			var ws []ssa.CallInstruction
			for _, w := range callsLocal(h, pmPkg+".writeLine") {
				if sameParam(w.Common().Args[0], h.Params[i]) {
					ws = append(ws, w)
				}
			}
			if len(ws) == 0 {
				continue
			}
			r := reachFromEntry(h, newCut().callInstrs(ws))
			always := true
			for _, ret := range returns(h) {
				if r.has(ret) {
					always = false
				}
			}
			if always {
				out = append(out, call)
			}
		}
	})
	return out
}

// chainLineBuffer: the buffer that receives the MakeChainLine lines of fn (directly or through a helper handed the buffer)
func chainLineBuffer(fn *ssa.Function) ssa.Value {
	for _, w := range callsLocal(fn, pmPkg+".writeLine") {
		for _, v := range varargValues(w) {
			if isResultOf(v, 0, "MakeChainLine") {
				return w.Common().Args[0]
			}
		}
	}
	var buf ssa.Value
	allInstrs(fn, func(in ssa.Instruction) {
		call, ok := in.(*ssa.Call)
		if !ok || buf != nil {
			return
		}
		h := helperOf(call, nil)
		if h == nil {
			return
		}
		for _, w := range callsLocal(h, pmPkg+".writeLine") {
			for _, v := range varargValues(w) {
				if isResultOf(v, 0, "MakeChainLine") {
					if p, ok := unspill(w.Common().Args[0]).(*ssa.Parameter); ok {
						for i, q := range h.Params {
							if q == p && i < len(call.Call.Args) {
								buf = call.Call.Args[i]
							}
						}
					}
				}
			}
		}
	})
	return buf
}

// variadic string constants of a call: constants stored into the varargs array
func varargConsts(call ssa.CallInstruction) []string {
	var out []string
	args := call.Common().Args
	if len(args) == 0 {
		return nil
	}
	last := args[len(args)-1]
	sl, ok := last.(*ssa.Slice)
	if !ok {
		return nil
	}
	arr, ok := sl.X.(*ssa.Alloc)
	if !ok {
		return nil
	}
	for _, ref := range *arr.Referrers() {
		ia, ok := ref.(*ssa.IndexAddr)
		if !ok {
			continue
		}
		for _, r2 := range *ia.Referrers() {
			if st, ok := r2.(*ssa.Store); ok {
				if s, ok := constStringVal(st.Val); ok {
					out = append(out, s)
				}
			}
		}
	}
	return out
}

func varargValues(call ssa.CallInstruction) []ssa.Value {
	var out []ssa.Value
	args := call.Common().Args
	if len(args) == 0 {
		return nil
	}
	sl, ok := args[len(args)-1].(*ssa.Slice)
	if !ok {
		return nil
	}
	arr, ok := sl.X.(*ssa.Alloc)
	if !ok {
		return nil
	}
	for _, ref := range *arr.Referrers() {
		if ia, ok := ref.(*ssa.IndexAddr); ok {
			for _, r2 := range *ia.Referrers() {
				if st, ok := r2.(*ssa.Store); ok {
					out = append(out, st.Val)
				}
			}
		}
	}
	return out
}

// C14 — host-port mappings.
func ruleHostPorts(c *Ctx, rule string) {
	// R1: OpenHostports closes what it opened on failure and records sockets only on success
	if fn := c.MustFn(rule, pmPkg, "(*PortMappingHandler).OpenHostports"); fn != nil {
		open := calls(fn, pmPkg+".openLocalPort")
		var closes []ssa.CallInstruction
		allInstrsX(fn, func(in ssa.Instruction) { // the close loop may live in a helper of OpenHostports
			if call, ok := in.(ssa.CallInstruction); ok && call.Common().IsInvoke() && call.Common().Method.Name() == "Close" {
				if call.Parent() == fn || bareName(call.Parent()) != "CloseHostports" {
					closes = append(closes, call)
				}
			}
		})
		var rec []ssa.Instruction
		allInstrs(fn, func(in ssa.Instruction) {
			if mu, ok := in.(*ssa.MapUpdate); ok && pathEndsWith(mu.Map, "podPortMap") {
				rec = append(rec, mu)
			}
		})
		if len(open) == 1 && len(closes) == 0 && len(rec) == 1 {
			c.ob(rule, fn, "sockets opened by a failed call are closed", open[0], false, "OpenHostports (with its same-package helpers) closes no socket: the ports opened before the failure stay bound and unrecorded")
		} else if len(open) != 1 || len(closes) == 0 || len(rec) != 1 {
			c.undecided(rule, fn, "openLocalPort / Close / podPortMap update", nil, "expected calls not found")
		} else {
			ts := errTests(open[0])
			ei := errResultIndex(fn)
			ok := len(ts) > 0
			// the error is carried to the clean-up in a flag variable (retErr): on the paths from the error edge that
			// variable holds the non-nil fmt.Errorf value, so its `== nil` edges are removed (the only value correlation
			// this rule uses; the variable is a phi one of whose inputs derives from the failed call's error)
			evs := errValues(open[0])
			var flagNil []edge
			allInstrs(fn, func(in ssa.Instruction) {
				ph, isPhi := in.(*ssa.Phi)
				if !isPhi || !types.Identical(ph.Type(), errorType) {
					return
				}
				carries := false
				for _, e := range ph.Edges {
					if dependsOn(e, func(x ssa.Value) bool {
						for _, ev := range evs {
							if x == ev {
								return true
							}
						}
						return false
					}) {
						carries = true
					}
				}
				if carries {
					flagNil = append(flagNil, guardEdges(fn, predEq(func(x ssa.Value) bool { return x == ssa.Value(ph) }, isNilConst))...)
				}
			})
			for _, t := range ts {
				r := reachFromEdge(t.ErrEdge, newCut().edge(flagNil...))
				if r.has(rec[0]) {
					ok = false
				}
				if r.anyCall(closes) == nil {
					ok = false
				}
				loop := false
				for _, cl := range closes {
					if r.has(cl) && c.reachAfter(cl, nil).has(cl) {
						loop = true
					}
				}
				if !loop {
					ok = false
				}
				n := 0
				for _, ret := range returns(fn) {
					if r.has(ret) {
						n++
						v := retVal(ret, ei)
						if k, isC := v.(*ssa.Const); isC && k.IsNil() {
							ok = false
						}
					}
				}
				if n == 0 || r.has(open[0]) {
					ok = false
				}
			}
			c.ob(rule, fn, "a failed open closes every socket opened so far and fails", open[0], ok, "from the err!=nil edge of openLocalPort: no further open, a loop calling Close is reached, the sockets are not recorded, and no nil error is returned")
		}
	}
	// R4b: CloseHostports closes and forgets in one critical section
	if fn := c.MustFn(rule, pmPkg, "(*PortMappingHandler).CloseHostports"); fn != nil {
		var look, del ssa.Instruction
		var closes []ssa.CallInstruction
		var rels []ssa.Instruction
		allInstrs(fn, func(in ssa.Instruction) {
			switch x := in.(type) {
			case *ssa.Lookup:
				if pathEndsWith(x.X, "podPortMap") {
					look = x
				}
			case ssa.CallInstruction:
				if b, ok := x.Common().Value.(*ssa.Builtin); ok && b.Name() == "delete" && pathEndsWith(x.Common().Args[0], "podPortMap") {
					del = x
				}
				if x.Common().IsInvoke() && x.Common().Method.Name() == "Close" {
					closes = append(closes, x)
				}
				if _, isDefer := in.(*ssa.Defer); !isDefer {
					if op, ok := classifyLockCall(x); ok && op.kind == "rel" {
						rels = append(rels, in)
					}
				}
			}
		})
		if len(closes) == 0 {
			// the close loop extracted into a helper
			for _, h := range helperFns(fn, 1) {
				allInstrs(h, func(in ssa.Instruction) {
					if x, ok := in.(ssa.CallInstruction); ok && x.Common().IsInvoke() && x.Common().Method.Name() == "Close" {
						closes = append(closes, x)
					}
				})
			}
		}
		if look == nil || del == nil || len(closes) == 0 {
			c.undecided(rule, fn, "lookup / Close / delete", nil, "expected the lookup of the pod's sockets, Close calls and the delete of the entry")
		} else {
			r := c.reachAfter(look, newCut().instr(del))
			released := false
			for _, rl := range rels {
				if r.has(rl) {
					released = true
				}
			}
			found := guardEdges(fn, predBool(func(v ssa.Value) bool {
				ex, ok := v.(*ssa.Extract)
				return ok && ex.Tuple == look.(ssa.Value) && ex.Index == 1
			}))
			c.ob(rule, fn, "sockets are closed and the entry deleted in the critical section of its lookup", del, !released && guardedBy(fn, del, found),
				"no Unlock is reachable between the lookup of the pod's sockets and the delete of the entry (an OpenHostports of a new sandbox cannot slip in), and the delete is on the found edge")
			for _, cl := range closes {
				at := siteIn(fn, cl) // the Close itself, or the call of the helper that closes
				if at == nil {
					c.undecided(rule, fn, "Close under the handler mutex", cl, "the Close is not reached from CloseHostports through one static call")
					continue
				}
				okH, held := heldAt(c, fn, at, "PortMappingHandler.Mutex")
				c.ob(rule, fn, "Close under the handler mutex", cl, okH, held)
			}
		}
	}
	// R2: one chain-name function with the same argument shape
	for _, name := range []string{"(*PortMappingHandler).SetupPortMapping", "(*PortMappingHandler).CleanPortMapping", "(*PortMappingHandler).SetupPortMappingForAllPods"} {
		fn := c.MustFn(rule, pmPkg, name)
		if fn == nil {
			continue
		}
		hn := calls(fn, pmPkg+".hostportChainName")
		if len(hn) == 0 {
			c.undecided(rule, fn, "hostportChainName", nil, "expected a call, found none")
			continue
		}
		// one call per loop over the ports (a function may walk the ports twice): every one has the same argument shape
		for _, h := range hn {
			a := h.Common().Args
			b, f, ok := fieldLoad(a[1])
			okS := ok && f == "PodName"
			if okS {
				// same port value: a[0] is a load of the same cell / same value
				if ld, isLd := a[0].(*ssa.UnOp); isLd {
					okS = ld.X == b
				} else {
					okS = a[0] == b
				}
			}
			c.ob(rule, fn, "chain name computed from (port, port.PodName)", h, okS, "hostportChainName(containerPort, containerPort.PodName): setup, cleanup and full sync agree on the name")
		}
	}
	// R3: -X only for galaxy chains
	nx := 0
	for _, fn := range c.SrcFns {
		if fn.Pkg.Pkg.Path() != modPath+pmPkg {
			continue
		}
		for _, w := range callsLocal(fn, pmPkg+".writeLine") {
			cs := varargConsts(w)
			if !contains(cs, "-X") {
				continue
			}
			nx++
			ok := false
			for _, v := range varargValues(w) {
				if _, isC := v.(*ssa.Const); isC {
					continue
				}
				if dependsOn(v, func(x ssa.Value) bool { return isResultOf(x, 0, pmPkg+".hostportChainName") }) {
					ok = true
				}
			}
			if !ok {
				pre := guardEdges(fn, predCall("strings.HasPrefix", func(call *ssa.Call) bool {
					s, okc := constStringVal(call.Call.Args[1])
					want, _ := c.constString(pmPkg, "kubeHostportChainPrefix")
					return okc && s == want
				}))
				inactive := guardEdges(fn, negate(predBool(func(v ssa.Value) bool {
					lk, isL := v.(*ssa.Lookup)
					return isL && types.Identical(lk.Type(), types.Typ[types.Bool])
				})))
				// the set of active chains may be a map[Chain]bool or a sets.String
				inactive = append(inactive, guardEdges(fn, negate(predCall("sets.String).Has", nil)))...)
				ok = guardedBy(fn, w, pre) && guardedBy(fn, w, inactive)
			}
			c.ob(rule, fn, "-X only for a galaxy host-port chain", w, ok, "the deleted chain is a hostportChainName(..) result, or the line is reachable only through HasPrefix(chain, \"KUBE-HP-\") and the not-active edge")
		}
	}
	if nx < 2 {
		c.undecided(rule, nil, "-X lines", nil, fmt.Sprintf("expected at least 2 writeLine(.., \"-X\", ..) sites in portmapping, found %d", nx))
	}
	// R5: the full sync rewrites every given port's chain (chain line = flush, then its rules) whatever existed before
	if fn := c.MustFn(rule, pmPkg, "(*PortMappingHandler).SetupPortMappingForAllPods"); fn != nil {
		hn := calls(fn, pmPkg+".hostportChainName")
		rules := calls(fn, pmPkg+".containerPortChainRules")
		jump := calls(fn, pmPkg+".hostPortChainRules")
		restore := calls(fn, "Interface).RestoreAll")
		if len(hn) == 1 && len(rules) >= 1 && len(jump) >= 1 && len(restore) == 1 {
			// the chains buffer is the first argument of the writeLine that receives MakeChainLine
			chainsBuf := chainLineBuffer(fn)
			okAll := chainsBuf != nil
			if okAll {
				for _, must := range [][]ssa.CallInstruction{rules, jump, writeLinesTo(fn, chainsBuf)} {
					r := c.reachAfter(hn[0], newCut().callInstrs(must))
					if r.has(restore[0]) || r.has(hn[0]) {
						okAll = false
					}
				}
			}
			c.ob(rule, fn, "full sync rewrites the chain of every given port", hn[0], okAll, "after computing a port's chain name, every path to the next port / to RestoreAll writes a chain line (flush), the jump rule and the chain's rules — also when a chain of that name already exists")
		} else {
			c.undecided(rule, fn, "full sync loop", nil, "expected hostportChainName, containerPortChainRules, hostPortChainRules and RestoreAll calls")
		}
		// restore is --noflush: foreign chains are untouched
		if len(restore) == 1 {
			a := callArgs(restore[0])
			okNF := false
			if len(a) >= 2 {
				if k, ok := a[1].(*ssa.Const); ok {
					okNF = !strings.Contains(k.String(), "true") // NoFlushTables == false
				}
			}
			c.ob(rule, fn, "restore does not flush the table", restore[0], okNF, "RestoreAll(.., NoFlushTables, ..)")
		}
	}
}

// C14.R6 — the sockets a failed OpenHostports closes are exactly those it opened itself; the saved port file is
// removed only after the mappings it describes were removed.
func ruleHostPortOwnership(c *Ctx, rule string) {
	if fn := c.MustFn(rule, pmPkg, "(*PortMappingHandler).OpenHostports"); fn != nil {
		n := 0
		allInstrs(fn, func(in ssa.Instruction) {
			mu, ok := in.(*ssa.MapUpdate)
			if !ok || pathEndsWith(mu.Map, "podPortMap") {
				return
			}
			if !isMapType(mu.Map.Type()) {
				return
			}
			n++
			c.ob(rule, fn, "the per-call socket map holds only sockets opened by this call", mu, isResultOf(mu.Value, 0, pmPkg+".openLocalPort"), "ports[hp] = <result of openLocalPort>: the clean-up on failure closes this map, so it must not contain sockets the pod already held")
		})
		if n == 0 {
			c.undecided(rule, fn, "per-call socket map", nil, "no update of a local socket map found")
		}
	}
	if fn := c.MustFn(rule, galaxyPkg, "(*Galaxy).cleanIPtables"); fn != nil {
		cl := calls(fn, "(*PortMappingHandler).CleanPortMapping")
		rm := callsDeep(fn, "pkg/api/k8s.RemovePortFile")
		if len(cl) != 1 || len(rm) == 0 {
			c.undecided(rule, fn, "CleanPortMapping / RemovePortFile", nil, "expected calls not found")
		} else {
			for _, r := range rm {
				okR := r.Parent() == fn
				if okR {
					_, isDefer := r.(*ssa.Defer)
					ok, dec := onlyAfterSuccess(fn, cl[0], r)
					okR = !isDefer && ok && dec
				}
				c.ob(rule, fn, "the saved port file is removed only after the mappings were removed", r, okR, "RemovePortFile is reachable only through the err==nil edge of CleanPortMapping (a failed clean-up is retried by DEL / GC from the same file)")
			}
		}
	}
}

// the ports of a container are recorded before any rule of them is written (the rollback and the gc find
// the chains of a container only through the port file), and the three producers / the remover of
// KUBE-HOSTPORTS rules derive the rule from the same, unmodified, port record
func rulePortRecordFirst(c *Ctx, rule string) {
	if fn := c.MustFn(rule, galaxyPkg, "(*Galaxy).setupPortMapping"); fn != nil {
		sv := calls(fn, "pkg/api/k8s.SavePort")
		su := calls(fn, "(*PortMappingHandler).SetupPortMapping")
		if len(sv) != 1 || len(su) != 1 {
			c.undecided(rule, fn, "SavePort / SetupPortMapping", nil, "expected one call of each")
		} else {
			ok, dec := onlyAfterSuccess(fn, sv[0], su[0])
			c.ob(rule, fn, "port file saved before the iptables rules are written", su[0], ok && dec, "SetupPortMapping is reachable only through the success edge of SavePort: a partially applied setup is found again by cleanupPortMapping and by the gc")
		}
	}
	// sibling agreement: which fields of the port record are rewritten before the rule spec is derived
	sets := map[string]string{}
	var fns []*ssa.Function
	for _, name := range []string{"(*PortMappingHandler).SetupPortMapping", "(*PortMappingHandler).CleanPortMapping", "(*PortMappingHandler).SetupPortMappingForAllPods"} {
		fn := c.MustFn(rule, pmPkg, name)
		if fn == nil {
			return
		}
		fns = append(fns, fn)
		var fields []string
		for _, f := range withAnon(fn) {
			allInstrs(f, func(in ssa.Instruction) {
				if st, ok := in.(*ssa.Store); ok {
					if fa, ok := st.Addr.(*ssa.FieldAddr); ok && typeNameOf(fa.X.Type()) == "Port" {
						fields = append(fields, fieldName(fa.X.Type(), fa.Field))
					}
				}
			})
		}
		sort.Strings(fields)
		sets[name] = strings.Join(fields, ",")
	}
	same := true
	for _, v := range sets {
		if v != sets["(*PortMappingHandler).CleanPortMapping"] {
			same = false
		}
	}
	c.ob(rule, fns[1], "setup, full sync and clean derive the KUBE-HOSTPORTS rule from the same port fields", nil, same, fmt.Sprintf("fields of k8s.Port rewritten before the rule spec is derived: %v — the remover re-derives the exact rule text, so a normalisation must be applied by all three or none", sets))
}

// teardown releases the sockets unconditionally; the restart sync covers every pod that has an ip and is not host-network
func rulePortTeardownAndResync(c *Ctx, rule string) {
	if fn := c.MustFn(rule, galaxyPkg, "(*Galaxy).cleanupPortMapping"); fn != nil {
		cl := calls(fn, "(*PortMappingHandler).CloseHostports")
		ok := len(cl) >= 1
		if ok {
			r := reachFromEntry(fn, newCut().callInstrs(cl))
			for _, ret := range returns(fn) {
				if r.has(ret) {
					ok = false
				}
			}
		}
		c.ob(rule, fn, "the pod's sockets are closed on every path of the teardown", nil, ok, "every return of cleanupPortMapping is preceded by CloseHostports: a failing rule clean-up does not keep the host ports bound")
	}
	if fn := c.MustFn(rule, galaxyPkg, "(*Galaxy).setupIPtables"); fn != nil {
		op := calls(fn, "(*PortMappingHandler).OpenHostports")
		if len(op) != 1 {
			c.undecided(rule, fn, "OpenHostports", nil, "expected one call")
			return
		}
		// branch conditions that can skip OpenHostports for a pod: blocks from which both the call and the loop back edge
		// (without the call) are reachable
		okField := map[string]bool{"PodIP": true, "HostNetwork": true, "Annotations": true, "Items": true, "Status": true, "Spec": true, "ObjectMeta": true}
		allowed := func(v ssa.Value) bool {
			okAll := true
			seen := map[ssa.Value]bool{}
			var walk func(x ssa.Value, d int)
			walk = func(x ssa.Value, d int) {
				if x == nil || seen[x] || d > 12 {
					return
				}
				seen[x] = true
				switch y := x.(type) {
				case *ssa.IndexAddr:
					if pathEndsWith(y.X, "Items") {
						return // the pod of this iteration
					}
				case *ssa.FieldAddr:
					if !okField[fieldName(y.X.Type(), y.Field)] {
						okAll = false
					}
				case *ssa.Field:
					if !okField[fieldName(y.X.Type(), y.Field)] {
						okAll = false
					}
				case *ssa.Call:
					// results of calls (json.Unmarshal error, len) depend on their arguments; the result of a same-package
					// helper (the skip decision extracted into `ports, ok := startupPortsOf(pod)`) depends on every
					// branch condition of that helper
					if h := helperOf(y, nil); h != nil && d < 6 {
						for _, b := range h.Blocks {
							if iff, ok := b.Instrs[len(b.Instrs)-1].(*ssa.If); ok {
								walk(iff.Cond, d+1)
							}
						}
					}
				}
				for _, o := range operandsOf(x) {
					walk(o, d+1)
				}
			}
			walk(v, 0)
			return okAll
		}
		bad := ""
		n := 0
		var h *ssa.BasicBlock
		for _, b := range fn.Blocks {
			for _, p := range b.Preds {
				if b.Dominates(p) && b.Dominates(op[0].Block()) && (h == nil || h.Dominates(b)) {
					h = b
				}
			}
		}
		if h == nil {
			c.undecided(rule, fn, "pod loop", nil, "no loop around OpenHostports")
			return
		}
		loop := naturalLoop(h)
		for b := range loop {
			ifi, ok := b.Instrs[len(b.Instrs)-1].(*ssa.If)
			if !ok || b == h || !b.Dominates(op[0].Block()) && !reachFromEdge(edge{b, 0}, nil).has(op[0]) && !reachFromEdge(edge{b, 1}, nil).has(op[0]) {
				continue
			}
			// does one edge skip the call within this iteration?
			skips := false
			for i := 0; i < 2; i++ {
				r := reachFromEdge(edge{b, i}, newCut().callInstrs(op).instr(h.Instrs[0]))
				_ = r
				// reaches the header (next pod) without the call
				r2 := reachFromEdge(edge{b, i}, newCut().callInstrs(op))
				if r2.has(h.Instrs[0]) && !op[0].Block().Dominates(b) {
					skips = true
				}
			}
			if !skips || op[0].Block().Dominates(b) {
				continue
			}
			n++
			if os.Getenv("GALAXY_DEBUG") != "" {
				fmt.Printf("SKIPCOND %s cond=%s allowed=%v\n", c.instrPos(ifi), ifi.Cond, allowed(ifi.Cond))
			}
			if !allowed(ifi.Cond) {
				bad = c.instrPos(ifi)
			}
		}
		c.ob(rule, fn, "the restart sync skips a pod only for lack of an ip, host networking or an undecodable annotation", op[0], bad == "" && n >= 1, fmt.Sprintf("%d branch conditions can skip OpenHostports for a pod; each depends only on Status.PodIP, Spec.HostNetwork, the annotations or a decode error %s", n, bad))
	}
}
