package main

import (
	"fmt"
	"go/token"
	"go/types"
	"strings"

	"golang.org/x/tools/go/ssa"
)

const polPkg = "pkg/policy"

// callSequence flattens the calls of a straight-line function (single block, or blocks without branching on the
// way) into the sequence of callee names, inlining same-package straight-line helpers (depth <= 3).
func callSequence(c *Ctx, fn *ssa.Function, depth int) ([]string, bool) {
	la := c.locks()
	var out []string
	for _, b := range fn.Blocks {
		if b.Comment == "recover" {
			continue
		}
		if len(b.Succs) > 1 {
			return nil, false
		}
	}
	ok := true
	for _, b := range fn.Blocks {
		if b.Comment == "recover" {
			continue
		}
		for _, in := range b.Instrs {
			call, isCall := in.(*ssa.Call)
			if !isCall {
				continue
			}
			n := calleeName(call)
			cs := la.calleesOf(call)
			if len(cs) == 1 && cs[0].Pkg == fn.Pkg && depth < 3 {
				if sub, okS := callSequence(c, cs[0], depth+1); okS && len(sub) > 0 && !interesting(n) {
					out = append(out, sub...)
					continue
				}
			}
			out = append(out, n)
		}
	}
	return out, ok
}

func interesting(n string) bool {
	return strings.HasSuffix(n, ".syncNetworkPolices") || strings.HasSuffix(n, ".syncNetworkPolicyRules") || strings.HasSuffix(n, ".syncPods")
}

func orderOf(seq []string, names ...string) []int {
	out := make([]int, len(names))
	for i := range out {
		out[i] = -1
	}
	for i, s := range seq {
		for j, n := range names {
			if strings.HasSuffix(s, "."+n) && out[j] < 0 {
				out[j] = i
			}
		}
	}
	return out
}

// C15 — network policy sync ordering and ownership.
func rulePolicySync(c *Ctx, rule string) {
	// event handlers
	for _, h := range []struct {
		name  string
		order []string
		why   string
	}{
		{"(*PolicyManager).AddPolicy", []string{"syncNetworkPolices", "syncNetworkPolicyRules", "syncPods"}, "the policy chain must exist before pod chains jump to it"},
		{"(*PolicyManager).UpdatePolicy", []string{"syncNetworkPolices", "syncNetworkPolicyRules", "syncPods"}, "the policy chain must exist before pod chains jump to it"},
		{"(*PolicyManager).DeletePolicy", []string{"syncNetworkPolices", "syncPods", "syncNetworkPolicyRules"}, "pod chains must stop jumping to the policy chain before it is deleted (-X of a referenced chain fails the whole batch)"},
	} {
		fn := c.MustFn(rule, polPkg, h.name)
		if fn == nil {
			continue
		}
		seq, ok := callSequence(c, fn, 0)
		if ok {
			if pos := orderOf(seq, h.order...); pos[0] < 0 || pos[1] < 0 || pos[2] < 0 {
				ok = false // the syncs sit in a branching helper: decide by paths
			}
		}
		if !ok {
			// branching handler: decide by paths. Every step lies on every path to a return, and each step is preceded by
			// the one before it.
			var steps [][]ssa.CallInstruction
			for _, n := range h.order {
				steps = append(steps, calls(fn, "(*PolicyManager)."+n))
			}
			good, why := true, ""
			for k, st := range steps {
				if len(st) == 0 {
					good, why = false, h.order[k]+" is not called"
					break
				}
				r := reachFromEntry(fn, newCut().callInstrs(st))
				for _, ret := range returns(fn) {
					if r.has(ret) {
						good, why = false, "a return is reachable without "+h.order[k]
					}
				}
				if k > 0 {
					for _, call := range st {
						if !precedes(fn, toInstrs(steps[k-1]), call) {
							good, why = false, h.order[k]+" can run before "+h.order[k-1]
						}
					}
				}
			}
			c.ob(rule, fn, "order "+strings.Join(h.order, " -> "), nil, good, "every path through the handler runs the three syncs in this order ("+h.why+"); "+why)
			continue
		}
		pos := orderOf(seq, h.order...)
		good := pos[0] >= 0 && pos[1] > pos[0] && pos[2] > pos[1]
		// and no earlier occurrence of the later steps
		c.ob(rule, fn, "order "+strings.Join(h.order, " -> "), nil, good, fmt.Sprintf("flattened call sequence positions %v: %s", pos, h.why))
	}
	// syncRules: sets exist before the rules referencing them; stale sets destroyed only after the rules were rewritten
	if fn := c.MustFn(rule, polPkg, "(*PolicyManager).syncRules"); fn != nil {
		cr := calls(fn, "(*PolicyManager).createIPSet")
		si := calls(fn, "(*PolicyManager).syncIptables")
		if len(cr) != 1 || len(si) != 1 {
			c.undecided(rule, fn, "createIPSet / syncIptables", nil, "expected one call of each")
		} else {
			c.ob(rule, fn, "ipsets are created before the rules that reference them", si[0], precedes(fn, toInstrs(cr), si[0]), "createIPSet precedes syncIptables on every path")
			bad, dec := onErrorNever(cr[0], toInstrs(si))
			c.ob(rule, fn, "a failed ipset creation submits no rules", cr[0], dec && bad == nil, "syncIptables unreachable from the err!=nil edge of createIPSet")
			_, isDefer := si[0].(*ssa.Defer)
			destroyInBody := callsLocal(fn, "ipset.Interface).DestroySet")
			var deferred []*ssa.Function
			cands := append([]*ssa.Function{}, fn.AnonFuncs...)
			allInstrs(fn, func(in ssa.Instruction) {
				if d, ok := in.(*ssa.Defer); ok {
					if mc, ok := d.Call.Value.(*ssa.MakeClosure); ok {
						deferred = append(deferred, mc.Fn.(*ssa.Function))
					} else if g := d.Call.StaticCallee(); g != nil && g.Blocks != nil && g.Pkg == fn.Pkg {
						// the clean-up may be a method deferred at the same place instead of a closure
						deferred = append(deferred, g)
						cands = append(cands, g)
					}
				}
			})
			nD := 0
			okD := !isDefer && len(destroyInBody) == 0
			for _, a := range cands {
				ds := calls(a, "ipset.Interface).DestroySet")
				if len(ds) == 0 {
					continue
				}
				isDef := false
				for _, d := range deferred {
					if d == a {
						isDef = true
					}
				}
				if !isDef {
					okD = false
				}
				for _, d := range ds {
					nD++
					pre := guardEdges(a, predCall("strings.HasPrefix", func(call *ssa.Call) bool {
						return isNamedString(c, call.Call.Args[1], polPkg, "NamePrefix")
					}))
					notNew := guardEdges(a, negate(predBool(func(v ssa.Value) bool {
						ex, ok := v.(*ssa.Extract)
						if !ok || ex.Index != 1 {
							return false
						}
						_, isL := ex.Tuple.(*ssa.Lookup)
						return isL
					})))
					okG := guardedBy(a, d, pre) && guardedBy(a, d, notNew)
					if !okG {
						// both tests merged into a bool helper of the package: the destroy sits behind its true edge, and inside the
						// helper a result other than false is computed only behind the prefix test, as `!found` of a map lookup
						for _, h := range helperFns(a, 1) {
							if rs := h.Signature.Results(); rs.Len() != 1 || !types.Identical(rs.At(0).Type().Underlying(), types.Typ[types.Bool]) {
								continue
							}
							hp := guardEdges(h, predCall("strings.HasPrefix", func(call *ssa.Call) bool {
								return isNamedString(c, call.Call.Args[1], polPkg, "NamePrefix")
							}))
							rNoPrefix := reachFromEntry(h, newCut().edge(hp...))
							okH := len(hp) > 0
							for _, ret := range returns(h) {
								v := retVal(ret, 0)
								if b, isC := constBoolVal(v); isC && !b {
									continue
								}
								if rNoPrefix.has(ret) {
									okH = false
								}
								u, isNot := v.(*ssa.UnOp)
								if !isNot || u.Op != token.NOT {
									okH = false
									continue
								}
								ex, isEx := u.X.(*ssa.Extract)
								if !isEx || ex.Index != 1 {
									okH = false
									continue
								}
								if _, isL := ex.Tuple.(*ssa.Lookup); !isL {
									okH = false
								}
							}
							if okH && guardedBy(a, d, guardEdges(a, predCall(fnNameForMatch(h), nil))) {
								okG = true
							}
						}
					}
					c.ob(rule, a, "only galaxy's stale ipsets are destroyed", d, okG, "DestroySet reachable only through HasPrefix(name, NamePrefix) and the not-in-the-new-set-map edge")
				}
			}
			c.ob(rule, fn, "stale ipsets are destroyed only after the rules were rewritten", nil, okD && nD > 0, "DestroySet is called only from the deferred clean-up closure, which runs after syncIptables returned")
		}
	}
	// writeRules: every policy whose chain line is written is marked active in the same iteration (otherwise the next
	// sync deletes the chain of a live, possibly rule-less, policy while pod chains still jump to it)
	if fn := c.MustFn(rule, polPkg, "(*PolicyManager).writeRules"); fn != nil {
		pc := calls(fn, polPkg+".policyChainName")
		var marks []ssa.Instruction
		allInstrs(fn, func(in ssa.Instruction) {
			if mu, ok := in.(*ssa.MapUpdate); ok {
				if b, isB := constBoolVal(mu.Value); isB && b {
					marks = append(marks, mu)
				}
			}
		})
		ok := len(pc) == 1 && len(marks) >= 1
		if ok {
			r := c.reachAfter(pc[0], newCut().instr(marks...))
			if r.has(pc[0]) {
				ok = false
			}
			for _, ret := range returns(fn) {
				if r.has(ret) {
					ok = false
				}
			}
		}
		c.ob(rule, fn, "every policy written in a sync is marked active", nil, ok, "after policyChainName(policy) every path to the next policy / to the return passes activeChains[chain] = true in writeRules itself")
	}
	// syncIptables: no success without the restore — the stale-chain deletion lives in the batch, so a sync that returns nil
	// without submitting it (e.g. "nothing to do for an empty policy list") never removes the chains of deleted policies
	if fn := c.MustFn(rule, polPkg, "(*PolicyManager).syncIptables"); fn != nil {
		rs := calls(fn, "Interface).RestoreAll", "Interface).Restore")
		ei := errResultIndex(fn)
		ok := len(rs) >= 1 && ei >= 0
		if ok {
			r := reachFromEntry(fn, newCut().callInstrs(rs))
			for _, ret := range returns(fn) {
				if r.has(ret) && isNilConst(retVal(ret, ei)) {
					ok = false
				}
			}
		}
		c.ob(rule, fn, "the policy chains are synced whatever the number of policies", nil, ok, "every path to a nil-error return of syncIptables passes iptables RestoreAll: the `-X` of stale policy chains is part of that batch")
	}
	// createIPSet: stale entries are removed on every path after the old entries were listed
	if fn := c.MustFn(rule, polPkg, "(*PolicyManager).createIPSet"); fn != nil {
		ls := calls(fn, "ipset.Interface).ListEntries")
		del := calls(fn, "ipset.Interface).DelEntryWithOptions")
		cs := calls(fn, "ipset.Interface).CreateSet")
		if len(ls) != 1 || len(del) != 1 || len(cs) != 1 {
			c.undecided(rule, fn, "ListEntries / DelEntryWithOptions / CreateSet", nil, "expected one call of each")
		} else {
			hdr := loopHeaderOf(del[0])
			ok := hdr != nil
			for _, t := range errTests(ls[0]) {
				if hdr == nil {
					break
				}
				r := reachFromEdge(t.OkEdge, newCut().instr(hdr.Instrs[0]))
				if r.has(cs[0]) {
					ok = false
				}
				for _, ret := range returns(fn) {
					if r.has(ret) {
						ok = false
					}
				}
			}
			c.ob(rule, fn, "stale ipset entries are scanned for every set whose entries could be listed", del[0], ok && len(errTests(ls[0])) > 0, "from the err==nil edge of ListEntries every path to the next set / to the return passes the loop that deletes entries not in the new set")
			// deletion only of entries not in the new set
			notNew := guardEdgesX(fn, negate(predCall("sets.String).Has", nil)))
			c.ob(rule, fn, "only entries absent from the new set are deleted", del[0], guardedBy(fn, del[0], notNew), "DelEntryWithOptions behind !newEntries.Has(old)")
			okE, _, why := onErrorReturnsErr(fn, cs[0])
			c.ob(rule, fn, "a set that cannot be created fails the sync", cs[0], okE, why)
		}
	}
	// SyncPodChains: basic chains exist before the batch; the pod chain exists before the jump to it
	if fn := c.MustFn(rule, polPkg, "(*PolicyManager).SyncPodChains"); fn != nil {
		eb := calls(fn, "(*PolicyManager).ensureBasicChain")
		rs := calls(fn, "iptables.Interface).RestoreAll")
		er := callsLocal(fn, "iptables.Interface).EnsureRule")
		if len(er) == 0 {
			// the jump-rule handling may have been extracted: EnsureRule calls of the helpers, except those of ensureBasicChain
			for _, h := range helperFns(fn, 2) {
				if len(eb) == 1 && (h == eb[0].Common().StaticCallee() || isCalleeOf(eb[0].Common().StaticCallee(), h)) {
					continue
				}
				er = append(er, callsLocal(h, "iptables.Interface).EnsureRule")...)
			}
		}
		if len(eb) != 1 || len(rs) != 1 || len(er) < 1 {
			c.undecided(rule, fn, "ensureBasicChain / RestoreAll / EnsureRule", nil, fmt.Sprintf("expected 1/1/>=1 calls, found %d/%d/%d", len(eb), len(rs), len(er)))
		} else {
			c.ob(rule, fn, "GLX-INGRESS/EGRESS exist before the pod batch", rs[0], precedes(fn, toInstrs(eb), rs[0]), "ensureBasicChain precedes RestoreAll")
			for _, e := range er {
				ok, dec := onlyAfterSuccess(fn, rs[0], e)
				c.ob(rule, fn, "the jump to the pod chain is added only after the pod chain was restored", e, ok && dec, "EnsureRule reachable only through the err==nil edge of RestoreAll")
			}
			bad, dec := onErrorNever(eb[0], toInstrs(rs))
			c.ob(rule, fn, "no batch without the basic chains", eb[0], dec && bad == nil, "RestoreAll unreachable from the err!=nil edge of ensureBasicChain")
			// a pod that no policy selects gets its chains removed whatever its ip: the clean-up decision comes first
			dl := calls(fn, "(*PolicyManager).deletePodChains")
			noIP := guardEdges(fn, predEq(func(v ssa.Value) bool { return pathEndsWith(v, "Status", "PodIP") }, func(v ssa.Value) bool { s, ok := constStringVal(v); return ok && s == "" }))
			okC := len(dl) == 1 && len(noIP) == 1
			if okC {
				// deletePodChains must be reachable from entry without taking the "PodIP != \"\"" edge, i.e. it is not behind the ip test
				okC = reachFromEntry(fn, newCut().edge(edge{noIP[0].from, 1 - noIP[0].succ})).has(dl[0]) && !reachFromEdge(noIP[0], nil).has(dl[0])
				// stronger: the ip test itself is only reached after the "selected by a policy" decision
				iff := noIP[0].from.Instrs[len(noIP[0].from.Instrs)-1]
				fm := calls(fn, polPkg+".filterMatchingPolicies")
				okC = okC && len(fm) == 1 && precedes(fn, toInstrs(fm), iff)
			}
			c.ob(rule, fn, "stale chains of an unselected pod are removed whether or not it has an ip", nil, okC, "deletePodChains is decided before (not behind) the `PodIP == \"\"` early return")
			// the batch declares the pod chain it fills
			decl := false
			for _, w := range calls(fn, polPkg+".writeLine") {
				for _, v := range varargValues(w) {
					if cl, _ := callOf(v); cl != nil && strings.HasSuffix(calleeName(cl), "MakeChainLine") {
						if dependsOn(cl.Call.Args[0], func(x ssa.Value) bool { return isResultOf(x, 0, polPkg+".podChainName") }) {
							decl = true
						}
					}
				}
			}
			c.ob(rule, fn, "the pod batch declares the pod chain it appends to", nil, decl, "writeLine(filterChains, MakeChainLine(podChainName(pod)))")
		}
	}
	// ownership: -X lines, FlushChain/DeleteChain, restore without flush
	nx := 0
	for _, fn := range c.SrcFns {
		if fn.Pkg.Pkg.Path() != modPath+polPkg {
			continue
		}
		for _, w := range callsLocal(fn, polPkg+".writeLine") {
			if !contains(varargConsts(w), "-X") {
				continue
			}
			nx++
			pre := guardEdges(fn, predCall("strings.HasPrefix", func(call *ssa.Call) bool {
				return isNamedString(c, call.Call.Args[1], polPkg, "policyChainPrefix")
			}))
			inactive := guardEdges(fn, negate(predBool(func(v ssa.Value) bool { _, isL := v.(*ssa.Lookup); return isL })))
			inactive = append(inactive, guardEdges(fn, negate(predCall("sets.String).Has", nil)))...)
			c.ob(rule, fn, "-X only for a stale galaxy policy chain", w, guardedBy(fn, w, pre) && guardedBy(fn, w, inactive), "reachable only through HasPrefix(chain, policyChainPrefix) and the not-active edge")
		}
		for _, d := range callsLocal(fn, "iptables.Interface).FlushChain", "iptables.Interface).DeleteChain") {
			a := callArgs(d)
			c.ob(rule, fn, shortCallee(d)+" only on the pod's own chain", d, dependsOn(a[len(a)-1], func(x ssa.Value) bool { return isResultOf(x, 0, polPkg+".podChainName") }), "the chain operand is podChainName(pod)")
		}
		for _, r := range callsLocal(fn, "iptables.Interface).RestoreAll") {
			a := callArgs(r)
			okNF := false
			if k, ok := a[1].(*ssa.Const); ok {
				okNF = !strings.Contains(k.String(), "true")
			}
			c.ob(rule, fn, "restore does not flush foreign chains", r, okNF, "RestoreAll(.., NoFlushTables, ..)")
		}
	}
	if nx == 0 {
		c.undecided(rule, nil, "-X lines", nil, "no writeLine(.., \"-X\", ..) found in package policy")
	}
	// rules deleted by keyword only in galaxy's own top-level chains
	if fn := c.MustFn(rule, polPkg, "(*PolicyManager).deletePodRuleByKeyword"); fn != nil {
		n, ok := 0, true
		for _, g := range c.SrcFns {
			for _, call := range callsLocal(g, "(*PolicyManager).deletePodRuleByKeyword") {
				n++
				a := callArgs(call)
				if !isNamedString(c, a[1], polPkg, "ingressChain") && !isNamedString(c, a[1], polPkg, "egressChain") {
					ok = false
				}
				if !dependsOn(a[2], func(x ssa.Value) bool { return isResultOf(x, 0, polPkg+".podChainName") }) {
					ok = false
				}
			}
		}
		c.ob(rule, fn, "rules are deleted by keyword only in GLX-INGRESS/GLX-EGRESS and only those naming the pod chain", nil, ok && n == 2, fmt.Sprintf("%d callers, each with a constant chain and podChainName(pod) as keyword", n))
	}
}

// isNamedString: v is the package-level constant or variable pkg.name (a constant of that value, or a load of that global).
func isNamedString(c *Ctx, v ssa.Value, pkg, name string) bool {
	v = stripConv(v)
	if want, ok := c.constString(pkg, name); ok {
		if s, ok := constStringVal(v); ok && s == want {
			return true
		}
	}
	if ld, ok := v.(*ssa.UnOp); ok {
		if g, ok := ld.X.(*ssa.Global); ok && g.Name() == name && g.Pkg.Pkg.Path() == modPath+pkg {
			return true
		}
	}
	return false
}

// C18.R8 — writer/reader index agreement in the policy code: syncIngressInIPSet / syncEgressInIPSet index
// policy.ingressRule.srcRules[i] with the index i of spec.ingress, so policyResult must append exactly one rule per
// spec entry, on every path of its loop body.
func rulePolicyRuleIndexAlignment(c *Ctx, rule string) {
	fn := c.MustFn(rule, polPkg, "(*PolicyManager).policyResult")
	if fn == nil {
		return
	}
	prs := calls(fn, "(*PolicyManager).peerRule")
	if len(prs) != 2 {
		c.undecided(rule, fn, "peerRule", nil, fmt.Sprintf("expected 2 peerRule calls (ingress, egress), found %d", len(prs)))
		return
	}
	for _, pr := range prs {
		hdr := loopHeaderOf(pr)
		var apps []ssa.Instruction
		allInstrs(fn, func(in ssa.Instruction) {
			st, ok := in.(*ssa.Store)
			if !ok {
				return
			}
			fa, ok := st.Addr.(*ssa.FieldAddr)
			if !ok {
				return
			}
			f := fieldName(fa.X.Type(), fa.Field)
			if (f == "srcRules" || f == "dstRules") && loopHeaderOf(st) == hdr && hdr != nil {
				apps = append(apps, st)
			}
		})
		ok := hdr != nil && len(apps) == 1
		if ok {
			r := c.reachAfter(pr, newCut().instr(apps...))
			if r.has(pr) {
				ok = false // next iteration reachable without appending
			}
			for _, ret := range returns(fn) {
				if r.has(ret) {
					ok = false
				}
			}
		}
		c.ob(rule, fn, "one rule is appended per spec entry, on every path of the loop body", pr, ok, "after peerRule(..) every path to the next iteration / to the return passes the append to srcRules/dstRules (the readers index these slices with the spec index)")
	}
	// readers index with the range index over the spec list
	for _, name := range []string{"(*PolicyManager).syncIngressInIPSet", "(*PolicyManager).syncEgressInIPSet"} {
		rd := c.MustFn(rule, polPkg, name)
		if rd == nil {
			continue
		}
		n, okI := 0, true
		allInstrs(rd, func(in ssa.Instruction) {
			ia, ok := in.(*ssa.IndexAddr)
			if !ok || !(pathEndsWith(ia.X, "srcRules") || pathEndsWith(ia.X, "dstRules")) {
				return
			}
			n++
			// the index is the rangeindex phi(+1) of the loop over np.Spec.Ingress / Egress
			if !dependsOn(ia.Index, func(x ssa.Value) bool { ph, isPhi := x.(*ssa.Phi); return isPhi && ph.Comment == "rangeindex" }) {
				okI = false
			}
		})
		c.ob(rule, rd, "rules are indexed with the spec index", nil, okI && n > 0, fmt.Sprintf("%d index expressions into srcRules/dstRules, each with the loop index over the spec's rule list", n))
	}
}

// isCalleeOf: h is called (same package, depth <= 2) from g
func isCalleeOf(g, h *ssa.Function) bool {
	if g == nil {
		return false
	}
	for _, x := range helperFns(g, 2) {
		if x == h {
			return true
		}
	}
	return false
}
