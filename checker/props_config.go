package main

func init() {
	register(&propDef{ID: "C20", Title: "Floating-IP configuration and IP ranges decode, validate and round-trip",
		Explanation: "Decides: (R1) the order/merge test of fipCheck compares IPToInt values without a 32-bit x±c operand (cannot wrap at 255.255.255.255), both ends of every range are tested against the pool subnet, and every 'bad' edge reaches only error returns; (R2) a pool decodes successfully only through fipCheck, an unparsable range / missing gateway / missing subnet rejects the whole pool, ParseIPRange rejects first > last; (R3) a failed decode or failed ConfigurePool leaves the remembered configuration untouched (C05.R5). Does not decide size/enumeration/membership agreement nor encode∘decode = id (value laws over all inputs).",
		Assumptions: []string{"CFG paths"},
		Run: func(c *Ctx) {
			c.Rule("C20.R1", "range checks cannot wrap and reject on every bad edge; successful decode only through fipCheck", 9)
			ruleConfigDecode(c, "C20.R1")
			c.Rule("C20.R3", "a rejected configuration changes nothing at the caller", 2)
			ruleReloadAllOrNothing(c, "C20.R3")
		}})
}
