package main

import "os"

func init() {
	register(&propDef{ID: "C20", Title: "Floating-IP configuration and IP ranges decode, validate and round-trip",
		Explanation: "Decides: (R1) the order/merge test of fipCheck compares IPToInt values without a 32-bit x±c operand (cannot wrap at 255.255.255.255), both ends of every range are tested against the pool subnet, and every 'bad' edge reaches only error returns; (R2) a pool decodes successfully only through fipCheck, an unparsable range / missing gateway / missing subnet rejects the whole pool, ParseIPRange rejects first > last; (R3) a failed decode or failed ConfigurePool leaves the remembered configuration untouched (C05.R5). (R6) (*IPRange).UnmarshalJSON returns nil only after storing the parsed range behind ParseIPRange(..) != nil, and the ConfigurePool walk that fills the unallocated table returns false on every path; (R4) ParseIPRange consumes the whole string (split bounded to the parts parsed), and walkIPRanges skips a range only on first > last — for every other range the callback is reached, so no address value is special to the enumerator. Does not decide size/enumeration/membership agreement beyond that, nor encode∘decode = id (value laws over all inputs). (R7) every return of IPRange.Size is (f(Last) - f(First)) + 1, or the constant 0 behind the len()==0 test: no case distinction on the operands. (R3, extended) a streaming (*json.Decoder).Decode of the configuration must be followed by a test for trailing data. (R8) a module type with both MarshalJSON and UnmarshalJSON that is held by value somewhere (field, element or map value of the bare type) has MarshalJSON in the value's method set. (R9) bound comparisons of the Contains functions are inclusive and not computed by 32-bit arithmetic. (R10) the decode target of the configmap value in ensureIPAMConf is a fresh local.",
		Assumptions: []string{"CFG paths"},
		Run: func(c *Ctx) {
			c.Rule("C20.R10", "the configmap value is decoded into a fresh value", 1)
			ruleConfigDecodedIntoFreshValue(c, "C20.R10")
			c.Rule("C20.R1", "range checks cannot wrap and reject on every bad edge; successful decode only through fipCheck", 5)
			ruleConfigDecode(c, "C20.R1")
			c.Rule("C20.R4", "range strings are parsed whole; the enumerator skips a range only when it is inverted", 1)
			ruleRangeStringWhole(c, "C20.R4")
			ruleWalkSkipsOnlyInverted(c, "C20.R4")
			c.Rule("C20.R9", "range bounds are inclusive in every membership comparison; no bound computed by 32-bit arithmetic", 1)
			ruleRangeBoundsInclusive(c, "C20.R9")
			c.Rule("C20.R8", "self-decoding types encode themselves as values too (MarshalJSON on the value receiver)", 1)
			ruleJSONCodecValueReceiver(c, "C20.R8")
			c.Rule("C20.R7", "size of a range is Last - First + 1 without case distinction", 1)
			ruleRangeSizeFormula(c, "C20.R7")
			c.Rule("C20.R6", "a range text is accepted only by storing the parsed range; table-building walks enumerate every address", 1)
			ruleRangeDecodeAssigns(c, "C20.R6")
			ruleTableBuildersEnumerate(c, "C20.R6")
			c.Rule("C20.R3", "a rejected configuration changes nothing at the caller", 1)
			ruleReloadAllOrNothing(c, "C20.R3")
		}})
}

func init() {
	register(&propDef{ID: "C18", Title: "No request, watched object or configuration can crash or wedge a daemon",
		Explanation: "Decides four families of necessary conditions, each exact on its instances: (R1) results of module functions that can return (nil, nil) (found automatically; through interface dispatch too) are dereferenced only behind a nil test of the same value; (R2) the optional fields policy.ingressRule / policy.egressRule are dereferenced only behind a nil test of the same access path; (R3) no loop continues on `i <= bound` with i++ on a fixed-width counter, and the IP range walk increments only while first != last; (R4) every lock acquisition is released on every return (explicitly or by defer), every lock-wrapper releaser is deferred immediately, the lock-order graph is acyclic and no lock class is re-acquired while held; (R5) the policy name table has one entry per declared policy; (R7) in the pool decoder every pointer decoded from JSON (pointer fields, elements of slices of pointers) is dereferenced only behind a nil test; (R11) at every decode call of an input surface in pkg/ (json.Unmarshal, Decoder.Decode, restful ReadEntity; 5 named sites that read galaxy's own state files or test data are exempt) the pointers a JSON null or a missing key leaves nil — the decoded pointer itself for a **T target, elements of slices / values of maps of pointers, pointer fields of module-defined structs without a custom decoder — are followed through locals, arguments (static, interface and func-field callees), results and conversions, and every dereference is reachable only through the non-nil edge of a test of the same access path, behind a validation loop whose nil edge leaves the function, or behind a caller-side test of the field; (R6) the page/size query parameters are returned by their parsers only inside a constant range (their product feeds a slice bound). (R8) the policy rule slices are index-aligned with the spec; (R9) module-wide, every index of the form x+c (c>0) is compared — that very value, or x against len-c — with a slice length on an edge dominating the access (one named exemption); (R13) every dereference of an entry of ByKeyAndIPRanges(key, ranges) — nil where the key holds no ip in that range — is behind a nil test of that entry, a loop that leaves the function on a nil entry, or the `len(ranges) == 0` edge (dense answer); (R12) in pkg/ every constant index into a slice or string is covered by a dominating length test of that slice (or the Len() of the set a List() was made from), is [0] of strings.Split, or is one of 10 named sites; (R10) a failed release event is re-queued only after its retry counter was stored incremented and only below a constant bound. Does not decide general index/slice bounds, type assertions, division, recursion depth, general termination, or panics inside dependencies. (R14) every self-recursive closure of pkg/ipam/floatingip hands on its own visited-set parameter, and an Insert into it precedes the recursive call on every path (termination of the range matching). (R15) where a function defers (*sync.WaitGroup).Done, no return is reachable before the defer is registered. (R4, extended) the lock-order graph also has an edge A -> B when, inside one function, an acquisition of A reaches an acquisition of B without passing an explicit release of A (a lock taken on one branch only is dropped by the must-hold analysis but MAY be held). (R16) every PolicyStr argument is the result of parseReleasePolicy / ConvertReleasePolicy or a constant 0..2, here or at every caller. (R17) in peerRule the next iteration is reached from the err == nil edge of peerTable without a store to ipTable / netTable / entries only through the set-type tests.",
		Assumptions: []string{"CFG paths; no value correlation (one listed exemption relies on one)"},
		Run: func(c *Ctx) {
			c.Rule("C18.R16", "PolicyStr is given a policy in 0..2", 1)
			rulePolicyStrArgBounded(c, "C18.R16")
			c.Rule("C18.R17", "a resolved peer is always recorded in the rule", 1)
			ruleResolvedPeerRecorded(c, "C18.R17")
			c.Rule("C18.R1", "optional results checked", 4)
			ruleOptionalResults(c, "C18.R1")
			c.Rule("C18.R2", "optional fields checked", 7)
			ruleOptionalFields(c, "C18.R2")
			c.Rule("C18.R3", "inclusive fixed-width loops terminate", 1)
			ruleInclusiveLoops(c, "C18.R3")
			c.Rule("C18.R4", "lock pairing / wrapper releasers deferred / lock order", 29)
			rulePairing(c, "C18.R4")
			ruleWrapperDeferred(c, "C18.R4")
			ruleLockOrder(c, "C18.R4")
			c.Rule("C18.R5", "policy tables exhaustive", 3)
			rulePolicyDerivation(c, "C18.R5")
			c.Rule("C18.R8", "policy rule slices are index-aligned with the spec (no out-of-range in the pod event path)", 2)
			rulePolicyRuleIndexAlignment(c, "C18.R8")
			c.Rule("C18.R9", "stepped indexes are compared with the length of the slice they index", 1)
			ruleSteppedIndexChecked(c, "C18.R9", false)
			if os.Getenv("GALAXY_EXPLORE") != "" {
				exploreDecodeTargets(c)
				exploreDecodedFields(c)
				exploreConstIndex(c)
				exploreTypeAsserts(c)
				exploreSharedFields(c)
			}
			c.Rule("C18.R15", "wg.Done is deferred before any return of a counted worker", 1)
			ruleWaitGroupDone(c, "C18.R15")
			c.Rule("C18.R14", "the recursive range matching hands on one growing visited set (terminates)", 1)
			ruleRecursionSharesVisited(c, "C18.R14")
			c.Rule("C18.R13", "entries of a per-range lookup result are nil-tested before use", 2)
			ruleLookupResultNilChecked(c, "C18.R13")
			c.Rule("C18.R12", "constant indexes are covered by a length test", 14)
			ruleConstIndexChecked(c, "C18.R12")
			c.Rule("C18.R10", "a failed release event is retried a bounded number of times", 1)
			ruleRetryBounded(c, "C18.R10")
			c.Rule("C18.R11", "pointers a JSON null leaves nil are tested before use (all decode sites of the input surfaces)", 5)
			ruleJSONNullable(c, "C18.R11")
			c.Rule("C18.R7", "pointers decoded from the floating-IP configuration are nil-tested before use", 1)
			ruleDecodedPointers(c, "C18.R7")
			c.Rule("C18.R6", "paging parameters clamped to a constant range", 1)
			rulePagingClamped(c, "C18.R6")
		}})
}
