package main

import (
	"fmt"
	"go/token"
	"go/types"
	"strings"

	"golang.org/x/tools/go/ssa"
)

// ---------- C01.R15 / C04.R16 ----------

// ruleUnbindLookupUnderLock — the UID guard of unbind judges a record it read under the pod lock: every IPAM lookup of unbind
// happens with the pod key-mutex held (a snapshot taken before the lock can be overtaken by a resync and the successor's bind).
func ruleUnbindLookupUnderLock(c *Ctx, rule string) {
	fn := c.MustFn(rule, spPkg, "(*FloatingIPPlugin).unbind")
	if fn == nil {
		return
	}
	looks := calls(fn, "IPAM).ByKeyAndIPRanges", "IPAM).First", "IPAM).ByIP", "IPAM).ByPrefix")
	if len(looks) == 0 {
		c.undecided(rule, fn, "lookup of the pod's ips", nil, "no IPAM lookup in unbind")
		return
	}
	for _, l := range looks {
		ok, held := heldAt(c, l.Parent(), l, podLockID)
		c.ob(rule, fn, shortCallee(l)+" under the pod lock", l, ok, "the record the uid guard compares is read with the pod lock held; must-hold set at the call: "+held)
	}
}

// ---------- C02.R13 ----------

// ruleUnbindRoutesByKind — unbind sends exactly the deployment keys down the deployment path (which re-keys the ip to the app /
// pool prefix): unbindDpPod only through the true edge of keyObj.Deployment(), unbindNoneDpPod only through its false edge. A
// statefulset pod in a named pool keeps its ip under its own key, where filter and bind look it up.
func ruleUnbindRoutesByKind(c *Ctx, rule string) {
	fn := c.MustFn(rule, spPkg, "(*FloatingIPPlugin).unbind")
	if fn == nil {
		return
	}
	dp := calls(fn, "(*FloatingIPPlugin).unbindDpPod")
	nd := calls(fn, "(*FloatingIPPlugin).unbindNoneDpPod")
	isDp := guardEdgesX(fn, predCall("(*KeyObj).Deployment", nil))
	notDp := guardEdgesX(fn, negate(predCall("(*KeyObj).Deployment", nil)))
	if len(dp) == 0 || len(nd) == 0 || len(isDp) == 0 {
		c.undecided(rule, fn, "unbindDpPod / unbindNoneDpPod / Deployment()", nil, "expected both calls and the Deployment() test")
		return
	}
	for _, m := range dp {
		c.ob(rule, fn, "the deployment path only for deployment keys", m, !reachFromEntry(m.Parent(), newCut().edge(isDp...)).has(m), "unbindDpPod is unreachable once the true edge of keyObj.Deployment() is removed (no second way in, such as a pool name)")
	}
	for _, m := range nd {
		c.ob(rule, fn, "every other key keeps its own key", m, !reachFromEntry(m.Parent(), newCut().edge(notDp...)).has(m), "unbindNoneDpPod is reachable only through the false edge of keyObj.Deployment()")
	}
}

// ---------- C02.R14 / C03.R12 ----------

// ruleReservePersistsPolicy — reserving an ip keeps its release policy in the store as well as in memory: the Attr from which
// ReserveIP builds the object it writes carries the entry's own Policy (set before the clone is made).
func ruleReservePersistsPolicy(c *Ctx, rule string) {
	fn := c.MustFn(rule, fipPkg, "(*crdIpam).ReserveIP")
	if fn == nil {
		return
	}
	clones := calls(fn, "(*FloatingIP).CloneWith")
	if len(clones) == 0 {
		c.undecided(rule, fn, "CloneWith", nil, "no clone of the entry is written")
		return
	}
	isEntryPolicy := func(v ssa.Value) bool {
		return dependsOnLocal(v, func(x ssa.Value) bool {
			b, name, ok := fieldLoad(x)
			return ok && name == "Policy" && b != nil && namedStructName(b.Type()) == "FloatingIP"
		})
	}
	for _, cl := range clones {
		args := callArgs(cl)
		if len(args) < 2 {
			continue
		}
		attr := args[1]
		var sets []ssa.Instruction
		allInstrs(cl.Parent(), func(in ssa.Instruction) {
			st, ok := in.(*ssa.Store)
			if !ok {
				return
			}
			fa, ok := st.Addr.(*ssa.FieldAddr)
			if !ok || fieldName(fa.X.Type(), fa.Field) != "Policy" || namedStructName(fa.X.Type()) != "Attr" {
				return
			}
			if fa.X == attr && isEntryPolicy(st.Val) {
				sets = append(sets, st)
			}
		})
		c.ob(rule, fn, "the stored object of a reserved ip keeps the entry's release policy", cl, len(sets) > 0 && precedes(cl.Parent(), sets, cl),
			"attr.Policy = <entry>.Policy precedes CloneWith(newKey, &attr, ..) on every path: the object written to the store and the entry in memory carry the same policy, so a reload does not turn a never / immutable reservation into PodDelete")
	}
}

// ---------- C06.R11 ----------

// ruleRebuiltTablesFromNewPools — the tables a reload installs hold entries built from the pools of the NEW configuration: every
// value put into a freshly made map[string]*FloatingIP in ConfigurePool is the result of New(<pool>, ..). An entry carried
// over from the old tables would still point at the old pool (node subnets, vlan, gateway).
func ruleRebuiltTablesFromNewPools(c *Ctx, rule string) {
	fn := c.MustFn(rule, fipPkg, "(*crdIpam).ConfigurePool")
	if fn == nil {
		return
	}
	n := 0
	for _, f := range fnsAround(fn, 2) {
		if nm := bareName(f); nm == "syncCacheAfterCreate" || nm == "syncCacheAfterDel" {
			continue // the single-entry move helpers are not part of a rebuild
		}
		allInstrs(f, func(in ssa.Instruction) {
			mu, ok := in.(*ssa.MapUpdate)
			if !ok || namedStructName(mu.Value.Type()) != "FloatingIP" {
				return
			}
			// only the tables being built (local maps), not the receiver's current ones
			if dependsOnLocal(mu.Map, func(x ssa.Value) bool {
				fa, ok := x.(*ssa.FieldAddr)
				return ok && (fieldName(fa.X.Type(), fa.Field) == "allocatedFIPs" || fieldName(fa.X.Type(), fa.Field) == "unallocatedFIPs")
			}) {
				return
			}
			n++
			call, _ := callOf(unspill(mu.Value))
			ok2 := call != nil && nameMatch(calleeName(call), fipPkg+".New")
			c.ob(rule, fn, "entries of the rebuilt tables are built from the new pools", mu, ok2, "the value stored into the table under construction is New(<pool of the new configuration>, ip, ..): no object of the previous configuration survives a reload")
		})
	}
	if n < 2 {
		c.undecided(rule, fn, "tables under construction", nil, fmt.Sprintf("expected the allocated and the unallocated table to be filled, found %d updates", n))
	}
}

// ---------- C09.R12 ----------

// ruleReloadPublishesTogether — a reload installs pools, allocated table and unallocated table together: once one of the three
// receiver fields has been assigned, no return is reachable before the others are (an early return would leave the free table
// of the previous configuration next to the pools of the new one).
func ruleReloadPublishesTogether(c *Ctx, rule string) {
	fn := c.MustFn(rule, fipPkg, "(*crdIpam).ConfigurePool")
	if fn == nil {
		return
	}
	stores := map[string][]ssa.Instruction{}
	allInstrs(fn, func(in ssa.Instruction) {
		st, ok := in.(*ssa.Store)
		if !ok {
			return
		}
		fa, ok := st.Addr.(*ssa.FieldAddr)
		if !ok || namedStructName(fa.X.Type()) != "crdIpam" {
			return
		}
		if n := fieldName(fa.X.Type(), fa.Field); n == "FloatingIPs" || n == "allocatedFIPs" || n == "unallocatedFIPs" {
			stores[n] = append(stores[n], st)
		}
	})
	if len(stores) != 3 {
		c.undecided(rule, fn, "publication of the rebuilt state", nil, fmt.Sprintf("expected assignments of FloatingIPs, allocatedFIPs and unallocatedFIPs, found %d of them", len(stores)))
		return
	}
	for a, sa := range stores {
		for b, sb := range stores {
			if a == b {
				continue
			}
			// a return reachable after a was published without b ever being published
			bad := false
			for _, s := range sa {
				if !reachFromEntry(fn, newCut().instr(sb...)).has(s) {
					continue // b is always published before a
				}
				r := c.reachAfter(s, newCut().instr(sb...))
				for _, ret := range returns(fn) {
					if r.has(ret) {
						bad = true
					}
				}
			}
			c.ob(rule, fn, "after "+a+" is published no return comes before "+b, sa[0], !bad, "the three parts of the rebuilt state are installed by the same successful reload; an error return in between leaves two configurations mixed")
		}
	}
}

// ---------- C10.R10 ----------

// ruleAssignedIPRecordedBeforeNext — in bind, the node / uid of a re-used ip is recorded right after the provider assigned it and
// before the next ip is assigned: from the success edge of cloudProviderAssignIP, on the re-used side, neither the next assign
// nor a return is reachable without UpdateAttr (a clean provider failure on a later ip must not leave an assigned ip unrecorded).
func ruleAssignedIPRecordedBeforeNext(c *Ctx, rule string) {
	fn := c.MustFn(rule, spPkg, "(*FloatingIPPlugin).allocateIP")
	if fn == nil {
		return
	}
	as := calls(fn, "(*FloatingIPPlugin).cloudProviderAssignIP")
	up := calls(fn, "IPAM).UpdateAttr")
	if len(as) == 0 || len(up) == 0 {
		c.undecided(rule, fn, "cloudProviderAssignIP / UpdateAttr", nil, "expected both calls in allocateIP")
		return
	}
	notReused := guardEdgesX(fn, negate(predCall("sets.String).Has", nil)))
	// the set of re-used ips kept as a map: `_, reused := m[ip]`
	notReused = append(notReused, guardEdgesX(fn, negate(func(v ssa.Value) (bool, int) {
		ex, ok := v.(*ssa.Extract)
		if !ok || ex.Index != 1 {
			return false, 0
		}
		lk, ok := ex.Tuple.(*ssa.Lookup)
		return ok && lk.CommaOk, 0
	}))...)
	for _, a := range as {
		ts := errTests(a)
		if len(ts) == 0 {
			c.undecided(rule, fn, "error test of the assign", a, "not tested")
			continue
		}
		ok := true
		for _, t := range ts {
			r := reachFromEdge(t.OkEdge, newCut().callInstrs(up).edge(notReused...))
			if r.anyCall(as) != nil {
				ok = false
			}
			for _, ret := range returns(a.Parent()) {
				if r.has(ret) {
					ok = false
				}
			}
		}
		c.ob(rule, fn, "a re-used ip is recorded as soon as it is assigned", a, ok && len(notReused) > 0, "from the success edge of the assign, with the `not a re-used ip` edge removed, every path passes UpdateAttr before the next assign and before any return")
	}
}

// ---------- C11.R9 / C11.R10 ----------

// ruleSortBeforePaging — the page window is cut from the sorted list: the sort precedes the pagination on every path and sorts
// the whole result, not a sub-slice.
func ruleSortBeforePaging(c *Ctx, rule string) {
	fn := c.MustFn(rule, "pkg/ipam/api", "(*Controller).ListIPs")
	if fn == nil {
		return
	}
	sorts := calls(fn, "sort.Sort", "sort.Stable", "sort.Slice", "sort.SliceStable")
	pag := calls(fn, "page.Pagination")
	if len(sorts) == 0 || len(pag) == 0 {
		c.undecided(rule, fn, "sort / Pagination", nil, "expected a sort call and the pagination call in ListIPs")
		return
	}
	whole := true
	for _, s := range sorts {
		if dependsOnLocal(s.Common().Args[0], func(x ssa.Value) bool {
			sl, ok := x.(*ssa.Slice)
			return ok && (sl.Low != nil || sl.High != nil)
		}) {
			whole = false
		}
	}
	c.ob(rule, fn, "pages are windows of one sorted list", pag[0], precedes(pag[0].Parent(), toInstrs(sorts), pag[0]) && whole,
		"the sort precedes Pagination on every path and its operand is not a sub-slice: consecutive pages are windows of the same ordering, whatever order the ipam's map iteration produced")
}

// ruleReleaseKeyFromPostedEntry — the key the release API hands to the releaser is built from the posted entry alone: no ipam
// lookup result flows into NewKeyObj (the guard `ip allocated to another pod` compares the posted owner with the stored one).
func ruleReleaseKeyFromPostedEntry(c *Ctx, rule string) {
	fn := c.MustFn(rule, "pkg/ipam/api", "(*Controller).ReleaseIPs")
	if fn == nil {
		return
	}
	ks := calls(fn, "util.NewKeyObj")
	if len(ks) == 0 {
		c.undecided(rule, fn, "NewKeyObj", nil, "the release key is not built with NewKeyObj in ReleaseIPs")
		return
	}
	for _, k := range ks {
		var bad ssa.Value
		for _, a := range k.Common().Args {
			dependsOnLocal(a, func(x ssa.Value) bool {
				call, ok := x.(*ssa.Call)
				if !ok {
					return false
				}
				n := calleeName(call)
				if strings.Contains(n, "IPAM).") || nameMatch(n, "pkg/ipam/api.convert") {
					bad = x
					return true
				}
				return false
			})
		}
		c.ob(rule, fn, "the release key comes from the posted entry", k, bad == nil, "no argument of NewKeyObj derives from an IPAM lookup or from convert(<stored record>): the stored owner is what the posted key is compared WITH")
	}
}

// ---------- C12.R8 ----------

// ruleDelegateSuccessOnlyAfterExec — a delegate call reports success only if the plugin was executed: DelegateAdd / DelegateDel
// have no nil-error return that does not pass invoke.ExecPlugin* (a plugin that cannot be found is a failed DEL, remembered
// for the retry).
func ruleDelegateSuccessOnlyAfterExec(c *Ctx, rule string) {
	for _, name := range []string{"DelegateAdd", "DelegateDel"} {
		fn := c.MustFn(rule, cniutilPkg, name)
		if fn == nil {
			continue
		}
		ex := calls(fn, "invoke.ExecPluginWithResult", "invoke.ExecPluginWithoutResult", "invoke.DelegateAdd", "invoke.DelegateDel")
		if len(ex) == 0 {
			c.undecided(rule, fn, "plugin execution", nil, "no invoke.ExecPlugin* call")
			continue
		}
		ei := errResultIndex(fn)
		r := reachFromEntry(fn, newCut().callInstrs(ex))
		ok := true
		for _, ret := range returns(fn) {
			if r.has(ret) && !retCertainlyErr(ret, ei) {
				ok = false
			}
		}
		c.ob(rule, fn, "success only after the plugin ran", ex[0], ok, "every return of "+name+" that does not pass the plugin execution carries an error")
	}
}

// ---------- C13.R12 ----------

// ruleNetworkArgsAlwaysAppended — the args of a network (which carry the allocated ips) are appended to CNI_ARGS for every
// delegate: inside the loop of CmdAdd / CmdDel no path reaches the delegate call without BuildCNIArgs.
func ruleNetworkArgsAlwaysAppended(c *Ctx, rule string) {
	for _, it := range []struct{ fn, callee string }{{"CmdAdd", "DelegateAdd"}, {"CmdDel", "DelegateDel"}} {
		fn := c.MustFn(rule, cniutilPkg, it.fn)
		if fn == nil {
			continue
		}
		ds := calls(fn, cniutilPkg+"."+it.callee)
		bs := calls(fn, cniutilPkg+".BuildCNIArgs")
		if len(ds) == 0 || len(bs) == 0 {
			c.undecided(rule, fn, it.callee+" / BuildCNIArgs", nil, "expected both calls")
			continue
		}
		d := siteIn(fn, ds[0])
		var bsites []ssa.Instruction
		for _, b := range bs {
			if s := siteIn(fn, b); s != nil {
				bsites = append(bsites, s)
			}
		}
		if d == nil || len(bsites) == 0 {
			c.undecided(rule, fn, it.callee+" / BuildCNIArgs", nil, "the calls are not reached from "+it.fn+" through single static calls")
			continue
		}
		hdr := loopHeaderOf(d)
		if hdr == nil {
			c.undecided(rule, fn, "delegate loop", d, "the delegate call is not in a loop")
			continue
		}
		ok := true
		if d == bsites[0] {
			// both in one helper: judge inside it
			ok = precedes(ds[0].Parent(), toInstrs(bs), ds[0])
		} else {
			for k := range hdr.Succs {
				if reachFromEdge(edge{hdr, k}, newCut().instr(bsites...).instr(hdr.Instrs[0])).has(d) {
					ok = false
				}
			}
		}
		c.ob(rule, fn, "every delegate gets the args of its network", d, ok, "within an iteration no path reaches "+it.callee+" without BuildCNIArgs(<network>.Args) having been appended to the CNI args (no condition on the runtime's own args)")
	}
}

// ---------- C14.R11 / C14.R12 ----------

// ruleExclusiveListen — host-port sockets are bound exclusively: package portmapping opens them with the plain net.Listen* calls
// and sets no socket option (SO_REUSEADDR / SO_REUSEPORT would let a second socket bind a port galaxy handed out).
func ruleExclusiveListen(c *Ctx, rule string) {
	n := 0
	for _, fn := range c.SrcFns {
		if fn.Pkg == nil || !strings.HasSuffix(fn.Pkg.Pkg.Path(), pmPkg) {
			continue
		}
		for _, call := range callsLocal(fn, "net.Listen", "net.ListenTCP", "net.ListenUDP", "net.ListenPacket", "ListenConfig).Listen", "ListenConfig).ListenPacket",
			"syscall.SetsockoptInt", "syscall.Setsockopt", "unix.SetsockoptInt", "(*net.TCPListener).SyscallConn", "(*net.UDPConn).SyscallConn") {
			n++
			cn := calleeName(call)
			plain := cn == "net.Listen" || cn == "net.ListenTCP" || cn == "net.ListenUDP" || cn == "net.ListenPacket"
			c.ob(rule, fn, "host-port socket opened by a plain exclusive listen", call, plain, shortCallee(call)+": no ListenConfig.Control, no setsockopt — a second bind of the same port fails with EADDRINUSE")
		}
	}
	if n == 0 {
		c.undecided(rule, nil, "listen calls of portmapping", nil, "none found")
	}
}

// rulePortKeyCodec — sockets are registered and looked up under one pod key: every OpenHostports / CloseHostports call of the daemon
// passes k8s.GetPodFullName(name, namespace).
func rulePortKeyCodec(c *Ctx, rule string) {
	n := 0
	for _, fn := range c.SrcFns {
		if fn.Pkg == nil || !strings.HasSuffix(fn.Pkg.Pkg.Path(), galaxyPkg) {
			continue
		}
		for _, call := range callsLocal(fn, "(*PortMappingHandler).OpenHostports", "(*PortMappingHandler).CloseHostports") {
			n++
			key := callArgs(call)[0]
			ok := dependsOn(key, func(x ssa.Value) bool { return isResultOf(x, 0, "k8s.GetPodFullName") }) &&
				!dependsOnLocal(key, func(x ssa.Value) bool {
					cl, ok := x.(*ssa.Call)
					return ok && calleeName(cl) == "fmt.Sprintf"
				})
			c.ob(rule, fn, "pod key of "+shortCallee(call)+" is GetPodFullName", call, ok, "sockets opened at ADD or at restart are found again by the teardown: one key function at every site")
		}
	}
	if n < 2 {
		c.undecided(rule, nil, "OpenHostports / CloseHostports sites", nil, fmt.Sprintf("expected several, found %d", n))
	}
}

// ---------- C15.R9 / C15.R10 ----------

// ruleFullSyncRecompiles — a full sync derives every policy from the current cluster state: each element of the list
// syncNetworkPolices installs is built from policyResult(<listed policy>) of this run, never taken from the previous list.
func ruleFullSyncRecompiles(c *Ctx, rule string) {
	fn := c.MustFn(rule, polPkg, "(*PolicyManager).syncNetworkPolices")
	if fn == nil {
		return
	}
	n := 0
	allInstrsX(fn, func(in ssa.Instruction) {
		call, ok := isBuiltinCall(in, "append")
		if !ok || len(call.Call.Args) < 2 {
			return
		}
		sl, ok := call.Type().Underlying().(*types.Slice)
		if !ok || namedStructName(sl.Elem()) != "policy" {
			return
		}
		n++
		fresh := dependsOnLocal(call.Call.Args[1], func(x ssa.Value) bool {
			cl, _ := callOf(x)
			return cl != nil && nameMatch(calleeName(cl), "(*PolicyManager).policyResult")
		})
		c.ob(rule, fn, "every installed policy is compiled in this sync", call, fresh, "the appended policy value is built from policyResult(..) of this run (peer ips are resolved from the pods that exist now), not carried over from p.policies")
	})
	if n == 0 {
		c.undecided(rule, fn, "policy list", nil, "no append to a []policy found")
	}
}

// ruleBasicChainAlwaysEnsuresRules — ensureBasicChain converges whatever existed: no success return is reachable without each of
// its EnsureRule calls (chains that exist say nothing about the jump rules into them).
func ruleBasicChainAlwaysEnsuresRules(c *Ctx, rule string) {
	fn := c.MustFn(rule, polPkg, "(*PolicyManager).ensureBasicChain")
	if fn == nil {
		return
	}
	ers := calls(fn, "Interface).EnsureRule")
	if len(ers) == 0 {
		c.undecided(rule, fn, "EnsureRule", nil, "expected the jump rules to be ensured, found no call")
		return
	}
	ei := errResultIndex(fn)
	for _, e := range ers {
		// a call inside a loop over a table of rules: the loop must be passed (its zero-iteration path is not a shortcut)
		var through ssa.Instruction = e
		if h := loopHeaderOf(e); h != nil && e.Parent() == fn {
			for o := outerLoopHeader(h); o != nil; o = outerLoopHeader(o) {
				h = o
			}
			through = h.Instrs[0]
		}
		r := reachFromEntry(fn, newCut().instr(through))
		ok := true
		for _, ret := range returns(fn) {
			if r.has(ret) && !retCertainlyErr(ret, ei) {
				ok = false
			}
		}
		c.ob(rule, fn, "every jump rule is ensured by every successful call", e, ok, "no `return nil` of ensureBasicChain is reachable without this EnsureRule: a missing jump is restored by the next sync, whether or not the chains already existed")
	}
}

// ---------- C18.R15 ----------

// ruleWaitGroupDone — a goroutine counted by a WaitGroup always reports back: where a function defers wg.Done(), no return is
// reachable before the defer is registered (an early return would block Wait for ever).
func ruleWaitGroupDone(c *Ctx, rule string) {
	n := 0
	for _, fn := range c.SrcFns {
		if isGenerated(fn) {
			continue
		}
		allInstrs(fn, func(in ssa.Instruction) {
			d, ok := in.(*ssa.Defer)
			if !ok || !nameMatch(calleeName(d), "(*sync.WaitGroup).Done") {
				return
			}
			n++
			r := reachFromEntry(fn, newCut().instr(d))
			bad := false
			for _, ret := range returns(fn) {
				if r.has(ret) {
					bad = true
				}
			}
			c.ob(rule, fn, "wg.Done is deferred before any return", d, !bad, "no return of the worker is reachable without `defer wg.Done()` having been registered: Wait cannot block on a worker that left early")
		})
	}
	if n == 0 {
		c.undecided(rule, nil, "deferred WaitGroup.Done", nil, "none found in the module (the pod sync of the policy manager is expected)")
	}
}

// ---------- C19.R11 ----------

// ruleProviderFieldsOnceOrFresh — the cloud-provider client object is shared by all requests and has no lock: its fields are stored
// only on the freshly allocated object (constructor) or inside the closure handed to sync.Once.Do.
func ruleProviderFieldsOnceOrFresh(c *Ctx, rule string) {
	la := c.locks()
	n := 0
	for _, fn := range c.SrcFns {
		if fn.Pkg == nil || !strings.HasSuffix(fn.Pkg.Pkg.Path(), "pkg/ipam/cloudprovider") {
			continue
		}
		allInstrs(fn, func(in ssa.Instruction) {
			st, ok := in.(*ssa.Store)
			if !ok {
				return
			}
			fa, ok := st.Addr.(*ssa.FieldAddr)
			if !ok || namedStructName(fa.X.Type()) != "grpcCloudProvider" {
				return
			}
			n++
			okS := la.isFresh(fa.X)
			if !okS && fn.Parent() != nil {
				for _, u := range closureUses(fn) {
					if call, isCall := u.(ssa.CallInstruction); isCall && nameMatch(calleeName(call), "(*sync.Once).Do") {
						okS = true
					}
				}
			}
			if !okS && fn.Parent() == nil && len(staticSites[fn]) == 0 {
				// a method used only as the method value handed to Once.Do: `p.init.Do(p.dial)`
				uses, once := 0, 0
				for _, g := range c.SrcFns {
					if g.Pkg != fn.Pkg {
						continue
					}
					allInstrs(g, func(in ssa.Instruction) {
						mc, isMC := in.(*ssa.MakeClosure)
						if !isMC {
							return
						}
						w, isFn := mc.Fn.(*ssa.Function)
						if !isFn || w.Name() != fn.Name()+"$bound" || w.Signature.String() == "" {
							return
						}
						uses++
						for _, ref := range *mc.Referrers() {
							if call, isCall := ref.(ssa.CallInstruction); isCall && nameMatch(calleeName(call), "(*sync.Once).Do") {
								once++
							}
						}
					})
				}
				okS = uses > 0 && uses == once
			}
			c.ob(rule, fn, "store to grpcCloudProvider."+fieldName(fa.X.Type(), fa.Field), st, okS, "written on the fresh object or inside sync.Once.Do: concurrent AssignIP / UnAssignIP calls (different pods, no common lock) never race on it")
		})
	}
	if n == 0 {
		c.undecided(rule, nil, "stores to the cloud provider client object", nil, "none found")
	}
}

// ---------- C20.R8 ----------

// ruleJSONCodecValueReceiver — a type that decodes itself (UnmarshalJSON) and encodes itself (MarshalJSON) encodes itself as a
// value too: MarshalJSON is in the method set of T, not only of *T (encoding/json ignores a pointer-receiver MarshalJSON for a
// non-addressable value and writes the struct fields, which UnmarshalJSON then rejects).
func ruleJSONCodecValueReceiver(c *Ctx, rule string) {
	n := 0
	for _, pk := range c.Pkgs {
		if !strings.HasPrefix(pk.PkgPath, modPath) || strings.Contains(pk.PkgPath, "/client/") || pk.Types == nil {
			continue
		}
		sc := pk.Types.Scope()
		for _, name := range sc.Names() {
			tn, ok := sc.Lookup(name).(*types.TypeName)
			if !ok {
				continue
			}
			nt, ok := tn.Type().(*types.Named)
			if !ok {
				continue
			}
			pm := types.NewMethodSet(types.NewPointer(nt))
			if pm.Lookup(pk.Types, "UnmarshalJSON") == nil || pm.Lookup(pk.Types, "MarshalJSON") == nil {
				continue
			}
			// own methods only (not promoted from an embedded field)
			own := false
			for i := 0; i < nt.NumMethods(); i++ {
				if nt.Method(i).Name() == "MarshalJSON" {
					own = true
				}
			}
			if !own {
				continue
			}
			n++
			vm := types.NewMethodSet(nt)
			if vm.Lookup(pk.Types, "MarshalJSON") == nil && !usedByValue(c, nt) {
				c.ob(rule, nil, "MarshalJSON of "+short(pk.PkgPath)+"."+name+" covers every use", nil, true, "pointer receiver, and the module holds this type only behind pointers (no field, element or map value of the bare type)")
				continue
			}
			c.ob(rule, nil, "MarshalJSON of "+short(pk.PkgPath)+"."+name+" has a value receiver", nil, vm.Lookup(pk.Types, "MarshalJSON") != nil,
				"the type is held by value (fields / elements of the bare type), so the encoder must be in the value's method set: whatever UnmarshalJSON accepts is what every encoding of the value produces")
		}
	}
	if n == 0 {
		c.undecided(rule, nil, "types with MarshalJSON and UnmarshalJSON", nil, "none found")
	}
}

// ---------- C08.R12 ----------

// ruleEarlyExitIntersection — when ranges were requested and every one of them already holds an ip of the pod, filter answers with
// the node subnets common to ALL held ips: the success returns on the requested-ranges side that do not go on to allocate
// return a value that went through Intersection (not the subnets of one of the ips).
func ruleEarlyExitIntersection(c *Ctx, rule string) {
	fn := c.MustFn(rule, spPkg, "(*FloatingIPPlugin).getSubnet")
	if fn == nil {
		return
	}
	cnt := calls(fn, "(*FloatingIPPlugin).getAvailableSubnet")
	if len(cnt) == 0 {
		c.undecided(rule, fn, "getAvailableSubnet", nil, "call not found")
		return
	}
	withRanges := guardEdges(fn, func(v ssa.Value) (bool, int) {
		bo, ok := v.(*ssa.BinOp)
		if !ok || (bo.Op != token.EQL && bo.Op != token.NEQ && bo.Op != token.GTR) {
			return false, 0
		}
		call, ok := bo.X.(*ssa.Call)
		if !ok {
			return false, 0
		}
		if b, isB := call.Call.Value.(*ssa.Builtin); !isB || b.Name() != "len" {
			return false, 0
		}
		if k, isC := constIntVal(bo.Y); !isC || k != 0 {
			return false, 0
		}
		if !pathEndsWith(unspill(call.Call.Args[0]), "RequestIPRange") {
			return false, 0
		}
		if bo.Op == token.EQL {
			return true, 1
		}
		return true, 0
	})
	if len(withRanges) == 0 {
		c.undecided(rule, fn, "len(requested ranges) == 0", nil, "the test that separates the single-ip case from requested ranges was not found")
		return
	}
	ei := errResultIndex(fn)
	n := 0
	for _, e := range withRanges {
		r := reachFromEdge(e, newCut().callInstrs(cnt))
		for _, ret := range returns(fn) {
			if !r.has(ret) || !isNilConst(retVal(ret, ei)) {
				continue
			}
			n++
			inter := dependsOn(retVal(ret, 0), func(x ssa.Value) bool {
				cl, ok := x.(*ssa.Call)
				return ok && nameMatch(calleeName(cl), "sets.String).Intersection")
			})
			c.ob(rule, fn, "all held ips are routable from an offered node", ret, inter, "the set returned without allocating, on the requested-ranges side, is the intersection accumulated over every held ip")
		}
	}
	if n == 0 {
		c.undecided(rule, fn, "early success return with requested ranges", nil, "none found")
	}
}

// usedByValue: some struct field, slice / array element or map value in the module has the bare type nt (not a pointer to it)
func usedByValue(c *Ctx, nt *types.Named) bool {
	var direct func(t types.Type, d int) bool
	direct = func(t types.Type, d int) bool {
		if d > 4 {
			return false
		}
		switch x := t.(type) {
		case *types.Named:
			return x.Obj() == nt.Obj()
		case *types.Slice:
			return direct(x.Elem(), d+1)
		case *types.Array:
			return direct(x.Elem(), d+1)
		case *types.Map:
			return direct(x.Elem(), d+1)
		}
		return false
	}
	for _, pk := range c.Pkgs {
		if !strings.HasPrefix(pk.PkgPath, modPath) || pk.Types == nil {
			continue
		}
		sc := pk.Types.Scope()
		for _, name := range sc.Names() {
			tn, ok := sc.Lookup(name).(*types.TypeName)
			if !ok {
				continue
			}
			st, ok := tn.Type().Underlying().(*types.Struct)
			if !ok {
				continue
			}
			for i := 0; i < st.NumFields(); i++ {
				if direct(st.Field(i).Type(), 0) {
					return true
				}
			}
		}
	}
	return false
}

// ---------- C07.R8 ----------

// ruleUpdateWritesRequestedSize — the size in force after a successful update is the requested one: the object handed to
// Pools().Update has its Size set from the request, and it is not replaced by a re-read object afterwards without the size
// being set again (a conflict retry that re-reads and writes back somebody else's size makes pre-allocation fill the pool
// to a size that is not in force).
func ruleUpdateWritesRequestedSize(c *Ctx, rule string) {
	fn := c.MustFn(rule, "pkg/ipam/api", "(*PoolController).CreateOrUpdate")
	if fn == nil {
		return
	}
	isSizeStoreOn := func(in ssa.Instruction) bool {
		st, ok := in.(*ssa.Store)
		if !ok {
			return false
		}
		fa, ok := st.Addr.(*ssa.FieldAddr)
		return ok && fieldName(fa.X.Type(), fa.Field) == "Size" && namedStructName(fa.X.Type()) == "Pool"
	}
	n := 0
	for _, f := range fnsAround(fn, 2) {
		for _, up := range callsLocal(f, "PoolInterface).Update") {
			n++
			var sizeStores []ssa.Instruction
			allInstrs(f, func(in ssa.Instruction) {
				if isSizeStoreOn(in) {
					sizeStores = append(sizeStores, in)
				}
			})
			ok, why := true, ""
			if f.Parent() == nil {
				if len(sizeStores) == 0 || !precedes(f, sizeStores, up) {
					ok, why = false, "no assignment of <object>.Size precedes the Update"
				}
			} else {
				// in a closure: the object may only be replaced (a store of a Get result into the captured variable) if the size is set
				// again before the closure returns or writes
				allInstrs(f, func(in ssa.Instruction) {
					st, isSt := in.(*ssa.Store)
					if !isSt {
						return
					}
					if _, isFV := st.Addr.(*ssa.FreeVar); !isFV {
						return
					}
					if namedStructName(st.Val.Type()) != "Pool" {
						return
					}
					r := c.reachAfter(st, newCut().instr(sizeStores...))
					for _, ret := range returns(f) {
						if r.has(ret) {
							ok, why = false, "the object is replaced by a re-read one and the requested size is not put into it again"
						}
					}
				})
				// and the enclosing function set the size before the closure was made
				var outerStores []ssa.Instruction
				allInstrs(f.Parent(), func(in ssa.Instruction) {
					if isSizeStoreOn(in) {
						outerStores = append(outerStores, in)
					}
				})
				if len(outerStores) == 0 && len(sizeStores) == 0 {
					ok, why = false, "no assignment of <object>.Size"
				}
			}
			c.ob(rule, fn, "the object written by an update carries the requested size", up, ok, "Size is assigned from the request before Pools().Update, and a re-read object never reaches the write (or the end of a retry closure) without the size being assigned again. "+why)
		}
	}
	if n == 0 {
		c.undecided(rule, fn, "Pools().Update", nil, "no update of the Pool object in CreateOrUpdate or its closures")
	}
}
