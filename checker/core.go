package main

import (
	"fmt"
	"go/token"
	"go/types"
	"os"
	"sort"
	"strings"

	"golang.org/x/tools/go/callgraph"
	"golang.org/x/tools/go/callgraph/cha"
	"golang.org/x/tools/go/callgraph/vta"
	"golang.org/x/tools/go/packages"
	"golang.org/x/tools/go/ssa"
	"golang.org/x/tools/go/ssa/ssautil"
)

// buildVTA computes the VTA call graph of the whole program (thorough tier; needs LoadAllSyntax) and indexes the
// callees of every call site in the module.
func (c *Ctx) buildVTA() {
	all := ssautil.AllFunctions(c.Prog)
	g := vta.CallGraph(all, cha.CallGraph(c.Prog))
	c.vtaCallees = map[ssa.CallInstruction][]*ssa.Function{}
	edges := 0
	callgraph.GraphVisitEdges(g, func(e *callgraph.Edge) error {
		if e.Site == nil || e.Callee == nil || e.Callee.Func == nil {
			return nil
		}
		if e.Caller.Func.Pkg == nil || !strings.HasPrefix(e.Caller.Func.Pkg.Pkg.Path(), c.Mod) {
			return nil
		}
		c.vtaCallees[e.Site] = append(c.vtaCallees[e.Site], e.Callee.Func)
		edges++
		return nil
	})
	// reachability from the daemons' main functions
	c.vtaReach = map[string]bool{}
	var roots []*callgraph.Node
	for fn, n := range g.Nodes {
		if fn != nil && fn.Name() == "main" && fn.Pkg != nil && strings.HasPrefix(fn.Pkg.Pkg.Path(), c.Mod+"cmd/") {
			roots = append(roots, n)
		}
		if fn != nil && fn.Name() == "init" && fn.Pkg != nil && strings.HasPrefix(fn.Pkg.Pkg.Path(), c.Mod) {
			roots = append(roots, n)
		}
	}
	seen := map[*callgraph.Node]bool{}
	for len(roots) > 0 {
		n := roots[len(roots)-1]
		roots = roots[:len(roots)-1]
		if seen[n] {
			continue
		}
		seen[n] = true
		if n.Func != nil && n.Func.Pkg != nil && strings.HasPrefix(n.Func.Pkg.Pkg.Path(), c.Mod) {
			c.vtaReach[fnName(n.Func)] = true
		}
		for _, e := range n.Out {
			roots = append(roots, e.Callee)
		}
	}
	c.vtaStats = fmt.Sprintf("VTA call graph over %d functions of the whole program (dependencies from source): %d call edges out of module code at %d sites; %d module functions reachable from the main packages", len(all), edges, len(c.vtaCallees), len(c.vtaReach))
}

const modPath = "tkestack.io/galaxy/"

// Status of one obligation (rule instance).
type Status string

const (
	Discharged Status = "discharged"
	Violated   Status = "violated"
	Exempt     Status = "exempt"
	Undecided  Status = "undecided"
)

// Obligation is one instance of a rule at one construct of the program.
type Obligation struct {
	Rule      string   `json:"rule"`
	Func      string   `json:"func"`
	Construct string   `json:"construct"`
	Pos       string   `json:"pos"`
	Status    Status   `json:"status"`
	Detail    string   `json:"detail,omitempty"`
	Witness   []string `json:"witness,omitempty"`
	// NonTrivial: deciding it needed a path / lock-set / dataflow argument over the code
	// (not a mere presence test).
	NonTrivial bool `json:"nontrivial"`
}

func (o *Obligation) Key() string { return o.Rule + "|" + o.Func + "|" + o.Construct }

// Ctx is the loaded, type-checked, SSA-built program plus the obligations collected.
type Ctx struct {
	Mod        string // module path prefix of the analysed module ("tkestack.io/galaxy/")
	GuardSpecs []guardSpec
	RepoDir    string
	Pkgs       []*packages.Package
	byPath     map[string]*packages.Package
	Prog       *ssa.Program
	Fset       *token.FileSet
	SrcFns     []*ssa.Function // all functions with bodies in module packages (incl. anonymous)

	Obls     []*Obligation
	ruleDocs map[string]string
	ruleMin  map[string]int
	ruleList []string
	exempts  []string
	notes    []string

	idx map[*ssa.Function]map[ssa.Instruction]int

	lockA *lockAnalysis

	vtaCallees map[ssa.CallInstruction][]*ssa.Function // thorough tier only
	vtaStats   string
	vtaReach   map[string]bool // canonical names of module functions reachable from the two main packages
}

var loadPatterns = []string{"./pkg/...", "./cni/...", "./cmd/...", "./tools/..."}

// Load type-checks the module packages of repoDir (optionally with an overlay) and builds SSA.
func Load(repoDir string, overlay map[string][]byte, allSyntax bool) (*Ctx, error) {
	c, err := LoadMod(repoDir, overlay, allSyntax, modPath, loadPatterns, guardSpecs)
	if err == nil {
		resolveRenames(c)
	}
	return c, err
}

// LoadMod loads an arbitrary module (used for the engine self-tests on /verif/checker/testdata).
func LoadMod(repoDir string, overlay map[string][]byte, allSyntax bool, mod string, patterns []string, specs []guardSpec) (*Ctx, error) {
	mode := packages.LoadSyntax
	if allSyntax || len(overlay) > 0 {
		// with an overlay, mixing export data and source-checked packages yields duplicate types.Package
		// instances; load everything from source instead
		mode = packages.LoadAllSyntax
	}
	env := []string{}
	for _, e := range os.Environ() {
		if strings.HasPrefix(e, "GOFLAGS=") || strings.HasPrefix(e, "GOWORK=") || strings.HasPrefix(e, "GOPROXY=") ||
			strings.HasPrefix(e, "GOSUMDB=") || strings.HasPrefix(e, "GOTOOLCHAIN=") || strings.HasPrefix(e, "GOOS=") ||
			strings.HasPrefix(e, "GOARCH=") {
			continue
		}
		env = append(env, e)
	}
	env = append(env, "GOFLAGS=-mod=mod", "GOWORK=off", "GOPROXY=off", "GOSUMDB=off", "GOTOOLCHAIN=local",
		"GOOS=linux", "GOARCH=amd64", "CGO_ENABLED=0")
	cfg := &packages.Config{Mode: mode, Dir: repoDir, Env: env, Overlay: overlay, Tests: false}
	pkgs, err := packages.Load(cfg, patterns...)
	if err != nil {
		return nil, fmt.Errorf("packages.Load: %v", err)
	}
	if len(pkgs) == 0 {
		return nil, fmt.Errorf("no packages loaded from %s", repoDir)
	}
	var errs []string
	packages.Visit(pkgs, nil, func(p *packages.Package) {
		if !strings.HasPrefix(p.PkgPath, mod) {
			return
		}
		for _, e := range p.Errors {
			errs = append(errs, e.Error())
		}
	})
	if len(errs) > 0 {
		if len(errs) > 8 {
			errs = errs[:8]
		}
		return nil, fmt.Errorf("type/parse errors in module packages: %s", strings.Join(errs, "; "))
	}
	prog, _ := ssautil.AllPackages(pkgs, ssa.InstantiateGenerics)
	prog.Build()
	c := &Ctx{Mod: mod, GuardSpecs: specs, RepoDir: repoDir, Pkgs: pkgs, Prog: prog, byPath: map[string]*packages.Package{},
		ruleDocs: map[string]string{}, ruleMin: map[string]int{}, idx: map[*ssa.Function]map[ssa.Instruction]int{}}
	for _, p := range pkgs {
		c.byPath[p.PkgPath] = p
		if c.Fset == nil {
			c.Fset = p.Fset
		}
	}
	for fn := range ssautil.AllFunctions(prog) {
		if fn.Blocks == nil || fn.Pkg == nil || fn.Synthetic != "" {
			continue
		}
		if !strings.HasPrefix(fn.Pkg.Pkg.Path(), mod) {
			continue
		}
		c.SrcFns = append(c.SrcFns, fn)
	}
	sort.Slice(c.SrcFns, func(i, j int) bool { return fnName(c.SrcFns[i]) < fnName(c.SrcFns[j]) })
	registerCallSites(c.SrcFns)
	return c, nil
}

// short replaces the module path by "@/".
func short(s string) string { return strings.ReplaceAll(s, modPath, "@/") }

// fnName is the canonical printable name of an SSA function, e.g.
// "(*@/pkg/ipam/floatingip.crdIpam).Release" or "@/pkg/ipam/floatingip.walkIPRanges" or "...$1".
func fnName(fn *ssa.Function) string {
	n := rawFnName(fn)
	if len(renamedFrom) == 0 {
		return n
	}
	base, rest := n, ""
	if i := strings.Index(n, "$"); i >= 0 {
		base, rest = n[:i], n[i:]
	}
	if o, ok := renamedFrom[base]; ok {
		return o + rest // a renamed function keeps the name the rules know (renames.go)
	}
	return n
}

// rawFnName: the name in the analysed program
func rawFnName(fn *ssa.Function) string {
	if fn == nil {
		return "<nil>"
	}
	return short(fn.String())
}

// bareName: fn.Name() under the name the rules know
func bareName(fn *ssa.Function) string {
	if fn == nil {
		return ""
	}
	if len(renamedFrom) > 0 {
		if o, ok := renamedFrom[rawFnName(fn)]; ok {
			if i := strings.LastIndex(o, "."); i >= 0 {
				return o[i+1:]
			}
		}
	}
	return fn.Name()
}

// Fn resolves "pkg/ipam/floatingip", "(*crdIpam).Release" | "walkIPRanges" | "New$1" to an SSA function.
func (c *Ctx) Fn(pkg, name string) *ssa.Function {
	full := c.Mod + pkg
	var want string
	if strings.HasPrefix(name, "(") {
		// (*T).M  or (T).M
		i := strings.Index(name, ")")
		recv := name[1:i]
		star := ""
		if strings.HasPrefix(recv, "*") {
			star = "*"
			recv = recv[1:]
		}
		want = "(" + star + full + "." + recv + ")" + name[i+1:]
	} else {
		want = full + "." + name
	}
	for _, fn := range c.SrcFns {
		if fn.String() == want {
			return fn
		}
	}
	if fn := renamedTo[short(want)]; fn != nil {
		return fn
	}
	// an unexported method turned into a free function of the same package (or the reverse) keeps its name: accept the one
	// function of that package with that name
	if strings.HasPrefix(name, "(") {
		if i := strings.Index(name, ")."); i > 0 {
			bare := name[i+2:]
			var found *ssa.Function
			n := 0
			for _, fn := range c.SrcFns {
				if fn.Pkg != nil && fn.Pkg.Pkg.Path() == full && fn.Parent() == nil && fn.Name() == bare && !strings.Contains(bare, "$") {
					found = fn
					n++
				}
			}
			if n == 1 && found.Signature.Recv() == nil && !found.Object().Exported() {
				noteConverted(found, strings.TrimPrefix(name[1:i], "*"))
				return found
			}
		}
	}
	return nil
}

// MustFn is Fn, recording an undecided obligation for an unresolved anchor.
func (c *Ctx) MustFn(rule, pkg, name string) *ssa.Function {
	fn := c.Fn(pkg, name)
	if fn == nil {
		c.add(&Obligation{Rule: rule, Func: "@/" + pkg + "." + name, Construct: "anchor", Status: Undecided,
			Detail: "unresolved anchor: function not found in the type-checked program (renamed or removed?)"})
	} else {
		curAnchors[fn] = true
	}
	return fn
}

// curAnchors: the functions the rule being evaluated named as anchors (MustFn). For these, calls() also looks into the
// same-package helpers they call when they have no matching call themselves, so that an anchor call moved into an extracted
// helper is still found; functions merely enumerated by a rule are searched locally only.
var curAnchors = map[*ssa.Function]bool{}

func (c *Ctx) pos(p token.Pos) string {
	if !p.IsValid() {
		return "-"
	}
	pp := c.Fset.Position(p)
	f := pp.Filename
	if strings.HasPrefix(f, c.RepoDir+"/") {
		f = f[len(c.RepoDir)+1:]
	}
	return fmt.Sprintf("%s:%d", f, pp.Line)
}

func (c *Ctx) instrPos(in ssa.Instruction) string {
	if in == nil {
		return "-"
	}
	p := in.Pos()
	if !p.IsValid() {
		// fall back to nearest instruction with a position in the block
		b := in.Block()
		if b != nil {
			for _, x := range b.Instrs {
				if x.Pos().IsValid() {
					p = x.Pos()
					if x == in {
						break
					}
				}
			}
		}
	}
	if !p.IsValid() && in.Parent() != nil {
		p = in.Parent().Pos()
	}
	return c.pos(p)
}

func (c *Ctx) add(o *Obligation) *Obligation {
	c.Obls = append(c.Obls, o)
	return o
}

// Rule declares a rule (for evidence) with the minimum number of instances confirmed by reading.
func (c *Ctx) Rule(id, doc string, min int) {
	if _, ok := c.ruleDocs[id]; !ok {
		c.ruleList = append(c.ruleList, id)
	}
	c.ruleDocs[id] = doc
	c.ruleMin[id] = min
	curAnchors = map[*ssa.Function]bool{}
}

// ob records an obligation. ok=true => discharged, else violated.
func (c *Ctx) ob(rule string, fn *ssa.Function, construct string, at ssa.Instruction, ok bool, detail string, witness ...string) *Obligation {
	st := Discharged
	if !ok {
		st = Violated
	}
	pos := "-"
	if at != nil {
		pos = c.instrPos(at)
	} else if fn != nil {
		pos = c.pos(fn.Pos())
	}
	return c.add(&Obligation{Rule: rule, Func: fnName(fn), Construct: construct, Pos: pos, Status: st, Detail: detail,
		Witness: witness, NonTrivial: true})
}

func (c *Ctx) undecided(rule string, fn *ssa.Function, construct string, at ssa.Instruction, why string) *Obligation {
	pos := "-"
	if at != nil {
		pos = c.instrPos(at)
	} else if fn != nil {
		pos = c.pos(fn.Pos())
	}
	return c.add(&Obligation{Rule: rule, Func: fnName(fn), Construct: construct, Pos: pos, Status: Undecided, Detail: why, NonTrivial: true})
}

func (c *Ctx) exempt(rule string, fn *ssa.Function, construct string, at ssa.Instruction, reason string) *Obligation {
	pos := "-"
	if at != nil {
		pos = c.instrPos(at)
	}
	c.exempts = append(c.exempts, fmt.Sprintf("%s %s %s: %s", rule, fnName(fn), construct, reason))
	return c.add(&Obligation{Rule: rule, Func: fnName(fn), Construct: construct, Pos: pos, Status: Exempt, Detail: reason})
}

func (c *Ctx) note(format string, a ...interface{}) {
	c.notes = append(c.notes, fmt.Sprintf(format, a...))
}

// index of instruction within its block
func (c *Ctx) instrIndex(in ssa.Instruction) int {
	fn := in.Parent()
	m := c.idx[fn]
	if m == nil {
		m = map[ssa.Instruction]int{}
		for _, b := range fn.Blocks {
			for i, x := range b.Instrs {
				m[x] = i
			}
		}
		c.idx[fn] = m
	}
	return m[in]
}

// namedType finds a named type in a module package.
func (c *Ctx) namedType(pkg, name string) *types.Named {
	p := c.Prog.ImportedPackage(c.Mod + pkg)
	if p == nil {
		return nil
	}
	o := p.Pkg.Scope().Lookup(name)
	if o == nil {
		return nil
	}
	n, _ := o.Type().(*types.Named)
	return n
}

// constVal returns the compile-time value of a package-level constant.
func (c *Ctx) constString(pkg, name string) (string, bool) {
	p := c.Prog.ImportedPackage(c.Mod + pkg)
	if p == nil {
		return "", false
	}
	o, _ := p.Pkg.Scope().Lookup(name).(*types.Const)
	if o == nil {
		return "", false
	}
	s := o.Val().ExactString()
	if len(s) >= 2 && s[0] == '"' {
		var out string
		fmt.Sscanf(s, "%q", &out)
		return out, true
	}
	return s, true
}

// convertedAnchors: functions a rule named as methods that were found as free functions (the receiver is gone, every parameter
// index the rule uses is one too high)
var convertedAnchors = map[*ssa.Function]bool{}

// recvAsParam: converted anchors whose former receiver is now their first parameter (parameter indexes stay, and the first
// argument of a call plays the receiver's part)
var recvAsParam = map[*ssa.Function]bool{}

// noteConverted records that free function f stands for the method of type recvType (bare type name) of the same name.
func noteConverted(f *ssa.Function, recvType string) {
	convertedAnchors[f] = true
	if len(f.Params) > 0 && namedStructName(f.Params[0].Type()) == recvType {
		recvAsParam[f] = true
	}
}

// pAt: parameter k of fn in the numbering the rule was written for (receiver = 0 for methods); nil when there is none
func pAt(fn *ssa.Function, k int) *ssa.Parameter {
	if fn == nil {
		return nil
	}
	if convertedAnchors[fn] && !recvAsParam[fn] {
		k--
	}
	if k < 0 || k >= len(fn.Params) {
		return nil
	}
	return fn.Params[k]
}
