package main

// Rules written after the short round 9 of seeded changes.

import (
	"golang.org/x/tools/go/ssa"
)

// loopEscapes: the cycle of the flow graph that contains b (the outermost loop b sits in) and those of its blocks, other than the
// loop header, that have a successor outside the cycle — a break, a return or a goto out of the body. The header is the block of
// the cycle entered from outside; its own exit edge is the loop running out of elements. inLoop is false when b is on no cycle.
func loopEscapes(b *ssa.BasicBlock) (escapes []*ssa.BasicBlock, inLoop bool) {
	walk := func(next func(*ssa.BasicBlock) []*ssa.BasicBlock) map[*ssa.BasicBlock]bool {
		seen := map[*ssa.BasicBlock]bool{}
		work := append([]*ssa.BasicBlock{}, next(b)...)
		for len(work) > 0 {
			x := work[len(work)-1]
			work = work[:len(work)-1]
			if seen[x] {
				continue
			}
			seen[x] = true
			work = append(work, next(x)...)
		}
		return seen
	}
	fwd := walk(func(x *ssa.BasicBlock) []*ssa.BasicBlock { return x.Succs })
	bwd := walk(func(x *ssa.BasicBlock) []*ssa.BasicBlock { return x.Preds })
	if !fwd[b] {
		return nil, false
	}
	cycle := map[*ssa.BasicBlock]bool{}
	for x := range fwd {
		if bwd[x] {
			cycle[x] = true
		}
	}
	headers := map[*ssa.BasicBlock]bool{}
	for x := range cycle {
		for _, p := range x.Preds {
			if !cycle[p] {
				headers[x] = true
			}
		}
	}
	for _, x := range b.Parent().Blocks { // in block order, for a stable report
		if !cycle[x] || headers[x] {
			continue
		}
		for _, s := range x.Succs {
			if !cycle[s] {
				escapes = append(escapes, x)
				break
			}
		}
	}
	return escapes, true
}

// ruleReleaseLoopExhaustive (C11.R17) — every entry of a posted batch reaches the releaser: the loop of ReleaseIPs that calls
// releaseFunc is left only when the requests are exhausted. A break or return out of its body leaves the entries behind the
// current one neither released nor reported as unreleased, so a listed entry posted back in a batch is silently kept.
func ruleReleaseLoopExhaustive(c *Ctx, rule string) {
	fn := c.MustFn(rule, "pkg/ipam/api", "(*Controller).ReleaseIPs")
	if fn == nil {
		return
	}
	isRel := func(ci ssa.CallInstruction) bool {
		if ci.Common().IsInvoke() {
			return false
		}
		_, name, ok := fieldLoad(ci.Common().Value)
		return ok && name == "releaseFunc"
	}
	find := func(f *ssa.Function) []ssa.CallInstruction {
		var out []ssa.CallInstruction
		allInstrs(f, func(in ssa.Instruction) {
			if ci, ok := in.(ssa.CallInstruction); ok && isRel(ci) {
				out = append(out, ci)
			}
		})
		return out
	}
	type site struct {
		f  *ssa.Function
		at ssa.CallInstruction
	}
	var sites []site
	for _, ci := range find(fn) {
		sites = append(sites, site{fn, ci})
	}
	if len(sites) == 0 {
		// the call moved into a helper of the same package: judge the loop in the helper, or the loop around the helper's call
		for _, h := range helperFns(fn, 1) {
			for _, ci := range find(h) {
				if _, in := loopEscapes(ci.Block()); in {
					sites = append(sites, site{h, ci})
				} else {
					for _, s := range staticSitesIn(fn, h) {
						sites = append(sites, site{fn, s})
					}
				}
			}
		}
	}
	if len(sites) == 0 {
		c.undecided(rule, fn, "releaseFunc call", nil, "ReleaseIPs and its helpers do not call the releaseFunc field")
		return
	}
	for _, s := range sites {
		esc, in := loopEscapes(s.at.Block())
		if !in {
			c.ob(rule, s.f, "every posted entry reaches the releaser", s.at, false, "the releaseFunc call is not inside the loop over the posted requests")
			continue
		}
		detail := "the loop around releaseFunc(req) is left only by running out of requests: no break, return or goto out of its body"
		var at ssa.Instruction = s.at
		if len(esc) > 0 {
			at = esc[0].Instrs[len(esc[0].Instrs)-1]
		}
		c.ob(rule, s.f, "every posted entry reaches the releaser", at, len(esc) == 0, detail)
	}
}

// rulePodEventSetsOfOwnNamespace (C15.R15) — a pod event changes the sets of policies of the pod's own namespace only: in
// SyncPodIPInIPSet every addOrDelIPSetEntry is executable only through the edge on which the policy's namespace equals the pod's.
// The full synchronisation lists a policy's pods by namespace, so an entry added for a pod of another namespace is one the
// policies and pods do not dictate.
func rulePodEventSetsOfOwnNamespace(c *Ctx, rule string) {
	fn := c.MustFn(rule, "pkg/policy", "(*PolicyManager).SyncPodIPInIPSet")
	if fn == nil {
		return
	}
	isNs := func(v ssa.Value) bool {
		_, name, ok := fieldLoad(v)
		return ok && name == "Namespace"
	}
	es := guardEdgesX(fn, func(v ssa.Value) (bool, int) {
		b, ok := v.(*ssa.BinOp)
		if !ok || !isNs(b.X) || !isNs(b.Y) {
			return false, 0
		}
		switch b.Op.String() {
		case "==":
			return true, 0
		case "!=":
			return true, 1
		}
		return false, 0
	})
	sites := calls(fn, "(*PolicyManager).addOrDelIPSetEntry")
	if len(sites) == 0 {
		c.undecided(rule, fn, "set update", nil, "SyncPodIPInIPSet does not call addOrDelIPSetEntry")
		return
	}
	for _, s := range sites {
		c.ob(rule, s.Parent(), "a pod event touches sets of its own namespace only", s, s.Parent() == fn && guardedBy(fn, s, es) || s.Parent() != fn && len(es) > 0 && helperGuarded(fn, s, es),
			"the set update is executable only behind `policy namespace == pod namespace`")
	}
}

// helperGuarded: the call s sits in a same-package helper of fn; it is guarded when every call of that helper in fn is, or when it
// is guarded inside the helper.
func helperGuarded(fn *ssa.Function, s ssa.CallInstruction, es []edge) bool {
	h := s.Parent()
	if guardedBy(h, s, es) {
		return true
	}
	sites := staticSitesIn(fn, h)
	if len(sites) == 0 {
		return false
	}
	for _, x := range sites {
		if !guardedBy(fn, x, es) {
			return false
		}
	}
	return true
}
