package main

import (
	"fmt"
	"go/types"

	"golang.org/x/tools/go/ssa"
)

// write-once fields: shared fields that carry no lock are written only while the object is being constructed /
// initialised (before any goroutine that reads them is started).
var writeOnceSpecs = []struct {
	Pkg, Type string
	Fields    []string
	Writers   []string // functions allowed to store (besides stores on a freshly allocated object)
}{
	{"pkg/ipam/floatingip", "crdIpam", []string{"client", "cacheLock", "ipCounterDesc"}, []string{"NewCrdIPAM"}},
	{"pkg/ipam/floatingip", "FloatingIP", []string{"IP", "pool"}, []string{"New", "CloneWith"}},
	{"pkg/ipam/schedulerplugin", "FloatingIPPlugin", []string{"ipam", "conf", "unreleased", "cloudProvider", "dpLockPool", "podLockPool", "crdCache", "crdKey", "IPAMContext"}, []string{"NewFloatingIPPlugin"}},
	{"pkg/galaxy", "Galaxy", []string{"netConf", "pmhandler", "client", "pm", "dockerCli"}, []string{"NewGalaxy", "Init", "Start", "initk8sClient", "SetClient"}},
	{"pkg/network/portmapping", "PortMappingHandler", []string{"Interface", "podPortMap", "natInterfaceName"}, []string{"New"}},
	{"pkg/policy", "PolicyManager", []string{"ipsetHandle", "iptableHandle", "hostName", "client", "policyLister", "podLister", "namespaceLister"}, []string{"New", "NewPolicyManager", "startPodInformerFactory"}},
}

func ruleWriteOnce(c *Ctx, rule string) {
	la := c.locks()
	total := 0
	for _, ws := range writeOnceSpecs {
		nt := c.namedType(ws.Pkg, ws.Type)
		if nt == nil {
			c.undecided(rule, nil, ws.Type, nil, "type not found")
			continue
		}
		for _, fn := range c.SrcFns {
			allInstrs(fn, func(in ssa.Instruction) {
				st, ok := in.(*ssa.Store)
				if !ok {
					return
				}
				fa, ok := st.Addr.(*ssa.FieldAddr)
				if !ok || typeNameOf(fa.X.Type()) != ws.Type {
					return
				}
				if named, isNamed := deref(fa.X.Type()).(*types.Named); !isNamed || named.Obj() != nt.Obj() {
					return // a type of the same name in another package
				}
				f := fieldName(fa.X.Type(), fa.Field)
				if !contains(ws.Fields, f) {
					return
				}
				total++
				root := fn
				for root.Parent() != nil {
					root = root.Parent()
				}
				ok2 := la.isFresh(fa.X) || initOnly(c, root, ws.Writers, 0)
				c.ob(rule, fn, "store to "+ws.Type+"."+f, st, ok2, fmt.Sprintf("field is read without a lock by concurrent requests, so it may be written only on a freshly allocated object or in %v (before the readers start)", ws.Writers))
			})
		}
	}
	c.note("%s: %d stores to write-once fields", rule, total)
}

// goroutine closures must not share a variable that is written after the goroutine was started (loop variables
// under the pre-1.22 semantics this module uses: go.mod says go 1.18).
func ruleGoClosureCaptures(c *Ctx, rule string) {
	n := 0
	for _, fn := range c.SrcFns {
		if isGenerated(fn) {
			continue
		}
		allInstrs(fn, func(in ssa.Instruction) {
			g, ok := in.(*ssa.Go)
			if !ok {
				return
			}
			mc, ok := g.Call.Value.(*ssa.MakeClosure)
			if !ok {
				// go f(x): arguments are evaluated now; a closure passed as argument is handled below
				for _, a := range g.Call.Args {
					if m2, ok := a.(*ssa.MakeClosure); ok {
						mc = m2
					}
				}
			}
			// go f(&v): the address of a local that is assigned again after the go statement (a range variable under
			// the per-loop semantics of this module's Go version) is shared with the goroutine
			after := c.reachAfter(g, nil)
			var addrArgs []*ssa.Alloc
			for _, a := range g.Call.Args {
				var root ssa.Value = a
				for {
					switch x := root.(type) {
					case *ssa.FieldAddr:
						root = x.X
						continue
					case *ssa.IndexAddr:
						root = x.X
						continue
					}
					break
				}
				if al, ok := root.(*ssa.Alloc); ok {
					addrArgs = append(addrArgs, al)
				}
			}
			if mc == nil && len(addrArgs) == 0 {
				return
			}
			n++
			bad := ""
			for _, a := range addrArgs {
				for _, ref := range *a.Referrers() {
					if st, ok := ref.(*ssa.Store); ok && st.Addr == ssa.Value(a) && after.has(st) {
						bad = "&" + a.Comment
					}
				}
			}
			if mc == nil {
				c.ob(rule, fn, "goroutine receives no address of a variable that is written after it started", g, bad == "", "the address passed to the function started with `go` is not of a local assigned again on a path after the go statement "+bad)
				return
			}
			for _, b := range mc.Bindings {
				a, ok := b.(*ssa.Alloc)
				if !ok {
					continue
				}
				for _, ref := range *a.Referrers() {
					if st, ok := ref.(*ssa.Store); ok && st.Addr == ssa.Value(a) && after.has(st) {
						// written after the goroutine started: does the goroutine read or write it?
						bad = a.Comment
					}
				}
			}
			c.ob(rule, fn, "goroutine closure shares no variable that is written after it started", g, bad == "", "captured variables of the closure started with `go` are not assigned again on any path after the go statement (loop variables are per-loop in this module's Go version) "+bad)
		})
	}
	if n == 0 {
		c.undecided(rule, nil, "go statements", nil, "no go statement with a closure found")
	}
}

// initOnly: fn is one of the named constructor/init functions, or every static caller of fn is (transitively).
func initOnly(c *Ctx, fn *ssa.Function, writers []string, depth int) bool {
	if contains(writers, bareName(fn)) {
		return true
	}
	if depth > 4 {
		return false
	}
	la := c.locks()
	n := 0
	for _, g := range c.SrcFns {
		for _, cs := range la.info[g].callees {
			for _, callee := range cs {
				if callee == fn {
					n++
					root := g
					for root.Parent() != nil {
						root = root.Parent()
					}
					if !initOnly(c, root, writers, depth+1) {
						return false
					}
				}
			}
		}
	}
	return n > 0
}

// ruleNoDroppedErrors: in the given packages no error returned by a module function, the IPAM, the store client or
// the cloud provider is silently dropped (result ignored, or assigned to the blank identifier).
func ruleNoDroppedErrors(c *Ctx, rule string, pkgs []string, exceptions map[string]string) {
	n := 0
	for _, fn := range c.SrcFns {
		in := false
		for _, p := range pkgs {
			if fn.Pkg.Pkg.Path() == c.Mod+p {
				in = true
			}
		}
		if !in || isGenerated(fn) {
			continue
		}
		allInstrs(fn, func(ins ssa.Instruction) {
			call, ok := ins.(*ssa.Call)
			if !ok {
				return
			}
			name := calleeName(call)
			if name == "" || !(types.Identical(lastResult(call), errorType)) {
				return
			}
			interesting := (len(name) > 2 && (containsStr(name, "@/pkg/") || containsStr(name, "@/cni/"))) && !containsStr(name, "klog")
			if !interesting {
				return
			}
			n++
			used := false
			for _, ev := range errValues(call) {
				for _, ref := range *ev.Referrers() {
					if _, dbg := ref.(*ssa.DebugRef); !dbg {
						used = true
					}
				}
			}
			key := fnName(fn) + " -> " + shortCallee(call)
			if !used {
				if why, ok := exceptions[key]; ok {
					c.exempt(rule, fn, "error of "+shortCallee(call)+" ignored", call, why)
					return
				}
			}
			c.ob(rule, fn, "error of "+shortCallee(call)+" is looked at", call, used, "the error result is tested, returned, logged or stored; it is not discarded ("+key+")")
		})
	}
	c.note("%s: %d error-returning calls inspected", rule, n)
}

func lastResult(call *ssa.Call) types.Type {
	res := call.Call.Signature().Results()
	if res.Len() == 0 {
		return types.Typ[types.Invalid]
	}
	return res.At(res.Len() - 1).Type()
}

func containsStr(s, sub string) bool {
	return len(sub) <= len(s) && (func() bool {
		for i := 0; i+len(sub) <= len(s); i++ {
			if s[i:i+len(sub)] == sub {
				return true
			}
		}
		return false
	})()
}
