package main

import (
	"fmt"
	"go/types"
	"strings"

	"golang.org/x/tools/go/ssa"
)

// C19.R7 — inventory of the long-lived shared objects: every field of the struct types named in the guarded-by and
// write-once tables is classified. A field that is in neither table must be a synchronisation primitive, a field that
// is stored only on freshly allocated objects (inferred write-once; containers additionally never updated in place
// outside constructors), or a named exemption with the reason it is safe. A new field that is written after
// construction therefore fails until it is put under a lock (table) or shown to be confined.
var sharedFieldExempt = map[string]string{
	"FloatingIPPlugin.lastIPConf":      "written only through the pointer updateConfigMap hands to ensureIPAMConf; updateConfigMap runs on one goroutine at a time (Init's PollInfinite, then the wait.Until loop started by Run)",
	"PolicyManager.podCachedInformer":  "assigned inside podInformerOnce.Do (sync.Once) and read after it",
	"PolicyManager.podInformerFactory": "assigned inside podInformerOnce.Do (sync.Once) and read after it",
	"Galaxy.JsonConf":                  "filled by json.Unmarshal in Init before the server starts",
}

func ruleSharedFieldInventory(c *Ctx, rule string) {
	la := c.locks()
	classified := map[string]string{}
	typesOf := map[string]string{}
	for _, gs := range guardSpecs {
		typesOf[gs.Type] = gs.Pkg
		for _, f := range gs.Fields {
			classified[gs.Type+"."+f] = "guarded by " + gs.Lock
		}
		lf := strings.SplitN(gs.Lock, ".", 2)
		classified[lf[0]+"."+lf[1]] = "the lock"
		if gs.ResidentElem != "" {
			typesOf[gs.ResidentElem] = gs.Pkg
			for _, f := range gs.ResidentFields {
				classified[gs.ResidentElem+"."+f] = "resident field guarded by " + gs.Lock
			}
			for _, f := range gs.WriteOnce {
				classified[gs.ResidentElem+"."+f] = "write-once"
			}
		}
	}
	for _, ws := range writeOnceSpecs {
		typesOf[ws.Type] = ws.Pkg
		for _, f := range ws.Fields {
			if classified[ws.Type+"."+f] == "" {
				classified[ws.Type+"."+f] = "write-once (C19.R4)"
			}
		}
	}
	n := 0
	for tn, pkg := range typesOf {
		nt := c.namedType(pkg, tn)
		if nt == nil {
			c.undecided(rule, nil, tn, nil, "type not found")
			continue
		}
		st, ok := nt.Underlying().(*types.Struct)
		if !ok {
			continue
		}
		for i := 0; i < st.NumFields(); i++ {
			f := st.Field(i)
			key := tn + "." + f.Name()
			n++
			if why := classified[key]; why != "" {
				c.ob(rule, nil, "field "+key+" of a shared object is classified", nil, true, why)
				continue
			}
			ft := f.Type()
			if isSyncPrimitive(ft) {
				c.ob(rule, nil, "field "+key+" of a shared object is classified", nil, true, "synchronisation primitive / channel")
				continue
			}
			if lk := la.autoG[key]; lk != "" {
				c.ob(rule, nil, "field "+key+" of a shared object is classified", nil, true, "written after construction and in no table: treated as guarded by "+lk+" (the guarded-by rule checks every access)")
				continue
			}
			if why, ex := sharedFieldExempt[key]; ex {
				c.exempt(rule, nil, "field "+key, nil, why)
				continue
			}
			// inferred write-once: all stores on fresh objects, address never handed out, containers not updated in place
			bad := ""
			for _, fn := range c.SrcFns {
				allInstrs(fn, func(in ssa.Instruction) {
					fa, ok := in.(*ssa.FieldAddr)
					if !ok || fieldVar(fa.X.Type(), fa.Field) != f {
						return
					}
					fresh := la.isFresh(fa.X)
					for _, ref := range *fa.Referrers() {
						switch r := ref.(type) {
						case *ssa.Store:
							if r.Addr == ssa.Value(fa) && !fresh {
								bad = "stored in " + fnName(fn) + " at " + c.instrPos(r)
							}
						case *ssa.UnOp:
							// loaded: in-place updates of a container
							for _, r2 := range *r.Referrers() {
								switch u := r2.(type) {
								case *ssa.MapUpdate:
									if u.Map == ssa.Value(r) && !fresh {
										bad = "map updated in place in " + fnName(fn) + " at " + c.instrPos(u)
									}
								case *ssa.IndexAddr:
									for _, r3 := range *u.Referrers() {
										if s3, ok := r3.(*ssa.Store); ok && s3.Addr == ssa.Value(u) && !fresh {
											bad = "slice element stored in " + fnName(fn) + " at " + c.instrPos(s3)
										}
									}
								}
							}
						case ssa.CallInstruction:
							if !fresh {
								bad = "address handed to " + calleeName(r) + " in " + fnName(fn) + " at " + c.instrPos(r)
							}
						case *ssa.FieldAddr, *ssa.DebugRef:
						}
					}
				})
			}
			c.ob(rule, nil, "field "+key+" of a shared object is classified", nil, bad == "", "not in the guarded-by / write-once tables: every store is on a freshly allocated object, the address is never handed out and containers are not updated in place (inferred write-once) "+bad)
		}
	}
	if n < 40 {
		c.undecided(rule, nil, "fields of shared types", nil, fmt.Sprintf("expected at least 40 fields, found %d", n))
	}
}

func isSyncPrimitive(t types.Type) bool {
	if _, ok := t.Underlying().(*types.Chan); ok {
		return true
	}
	if p, ok := t.(*types.Pointer); ok {
		t = p.Elem()
	}
	if n, ok := t.(*types.Named); ok && n.Obj().Pkg() != nil {
		switch n.Obj().Pkg().Path() {
		case "sync", "sync/atomic":
			return true
		}
	}
	return false
}
