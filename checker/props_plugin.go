package main

func init() {
	register(&propDef{ID: "C01", Title: "A floating IP is never held by two live pods",
		Explanation: "Decides the mechanisms uniqueness rests on, on every path: (R1) the two tables, the pool list and the guarded fields of table-resident objects are accessed only under cacheLock (lockset engine, W for writes); (R2) an object enters the allocated table only after the Create of that very object succeeded; (R3) store-client errors (AlreadyExists included) are returned by the store wrappers; (R4) every IPAM mutator call made by the scheduler plugin has the per-pod key-mutex class held along the call chain from every entry point (one listed exception: Preempt); (R5) in allocateIP a stored UID that differs from the pod's UID ends in an error return before any assign/mutator. Does not decide that these mechanisms suffice under every interleaving, nor restart behaviour.",
		Assumptions: []string{"locks identified by (struct type, field); hashed key mutexes treated as one class per pool", "CFG paths, no feasibility reasoning"},
		Run: func(c *Ctx) {
			c.Rule("C01.R1", "tables only under the cache lock", 25)
			ruleGuardedBy(c, "C01.R1", []string{cacheLockID}, 40)
			c.Rule("C01.R2", "cache insert only after the Create of that object succeeded", 3)
			ruleCreateBeforeCache(c, "C01.R2")
			c.Rule("C01.R3", "store-client errors are returned", 5)
			ruleStoreErrorsPropagate(c, "C01.R3")
			c.Rule("C01.R4", "IPAM mutators under the pod lock", 7)
			rulePodLockAtMutators(c, "C01.R4")
			c.Rule("C01.R5", "UID guard in allocateIP", 3)
			ruleUIDGuard(c, "C01.R5")
		}})
}

func init() {
	register(&propDef{ID: "C04", Title: "A live pod's IP is never released, re-keyed or handed on",
		Explanation: "Decides, for the two asynchronous releasers (release API, resync closure): (R1) the IP is re-read with the pod lock held; (R2) every unassign/reserve/release/unbind is reachable only through the not-running edge of podRunning and the key-unchanged edge of the re-read record; (R3) the liveness test is fail-safe: 'not running' only via NotFound / uid mismatch / finished, and only after asking the API server; (R4) IPAM Release/ReleaseIPs/UpdateAttr write the store only if the stored key equals the caller's key; (R5) uid, node, address and policy the decision uses derive from the re-read record, not from a snapshot taken before the lock (flow through memory cells checked with dominance); (R6) release events are queued only for deleted / finished / no-longer-existing pods and failed unbinds are re-queued. Does not decide orderings of late events against a replacement's bind (event history), nor informer lag.",
		Assumptions: []string{"CFG paths; memory cells tracked field-sensitively inside one function only"},
		Run: func(c *Ctx) {
			c.Rule("C04.R1", "re-read under the pod lock", 2)
			ruleReleasers(c, "C04.R1", "reread")
			c.Rule("C04.R2", "freeing calls behind 'not running' and 'key unchanged'", 10)
			ruleReleasers(c, "C04.R2", "guards")
			c.Rule("C04.R3", "fail-safe liveness test", 4)
			ruleLivenessFailSafe(c, "C04.R3")
			c.Rule("C04.R4", "store writes match on (ip,key)", 3)
			ruleKeyMatchBeforeStoreWrite(c, "C04.R4")
			c.Rule("C04.R5", "decision inputs derive from the re-read record", 6)
			ruleReleasers(c, "C04.R5", "fresh")
			c.Rule("C04.R6", "release events only for gone/finished pods; failed unbind re-queued", 4)
			ruleReleaseEventsQueued(c, "C04.R6")
			c.Rule("C04.R7", "IPAM mutators under the pod lock (unbind, syncPodIP, resync, release)", 7)
			rulePodLockAtMutators(c, "C04.R7")
		}})
}
