package main

func init() {
	register(&propDef{ID: "C01", Title: "A floating IP is never held by two live pods",
		Explanation: "Decides the mechanisms uniqueness rests on, on every path: (R1) the two tables, the pool list and the guarded fields of table-resident objects are accessed only under cacheLock (lockset engine, W for writes); (R2) an object enters the allocated table only after the Create of that very object succeeded; (R3) store-client errors (AlreadyExists included) are returned by the store wrappers; (R4) every IPAM mutator call made by the scheduler plugin has the per-pod key-mutex class held along the call chain from every entry point (one listed exception: Preempt); (R5) in allocateIP a stored UID that differs from the pod's UID ends in an error return before any assign/mutator; (R6) the release API and resync free an IP only behind the not-running and key-unchanged edges, with a fail-safe liveness test, deciding on the record re-read under the pod lock; (R7) release events are queued only for deleted, finished or no-longer-existing pods (an IP freed under a live pod would be handed to a second one). (R12) the uid and node recorded for an ip are persisted and restored into the entry itself (pointer receiver), so the uid guard survives a reload. Does not decide that these mechanisms suffice under every interleaving, nor restart behaviour beyond that. (R14) the ip list Bind writes into the annotation is built from the ipam lookup only: what the pod's own annotation already carried in common.ipinfos never flows into it.",
		Assumptions: []string{"locks identified by (struct type, field); hashed key mutexes treated as one class per pool", "CFG paths, no feasibility reasoning"},
		Run: func(c *Ctx) {
			c.Rule("C01.R1", "tables only under the cache lock", 21)
			ruleGuardedBy(c, "C01.R1", []string{cacheLockID}, 15)
			c.Rule("C01.R2", "cache insert only after the Create of that object succeeded", 1)
			ruleCreateBeforeCache(c, "C01.R2")
			c.Rule("C01.R3", "store-client errors are returned", 2)
			ruleStoreErrorsPropagate(c, "C01.R3")
			c.Rule("C01.R4", "IPAM mutators under the pod lock", 4)
			rulePodLockAtMutators(c, "C01.R4")
			c.Rule("C01.R5", "UID guard in allocateIP", 2)
			ruleUIDGuard(c, "C01.R5")
			c.Rule("C01.R6", "asynchronous releasers free an ip only behind 'not running' and 'key unchanged', deciding on the re-read record", 15)
			ruleReleasers(c, "C01.R6", "reread")
			ruleReleasers(c, "C01.R6", "guards")
			ruleReleasers(c, "C01.R6", "fresh")
			ruleLivenessFailSafe(c, "C01.R6")
			c.Rule("C01.R8", "a reload keeps every allocation whose ip is still configured (search exhaustion, range match, snapshot under the lock)", 2)
			ruleReloadDeletesOnlyForeign(c, "C01.R8")
			ruleReloadPoolMatch(c, "C01.R8")
			ruleListUnderLock(c, "C01.R8")
			c.Rule("C01.R9", "owner keys are compared for equality; prefix queries only with pool prefixes", 6)
			ruleExactKeyQueries(c, "C01.R9")
			c.Rule("C01.R10", "the pod lock key is (name, namespace) at every site", 3)
			rulePodLockKey(c, "C01.R10")
			c.Rule("C01.R11", "table entries move only through the paired helpers (an ip is in exactly one table)", 3)
			ruleTablesOnlyThroughHelpers(c, "C01.R11")
			c.Rule("C01.R12", "the uid / node recorded for an ip survive a reload (persisted fields = restored fields, restored into the entry itself)", 1)
			rulePersistRestoreAgree(c, "C01.R12")
			c.Rule("C01.R14", "the ip list bind writes does not contain what the pod's own annotation carried", 1)
			ruleBindAnnotationFromLookupOnly(c, "C01.R14")
			c.Rule("C01.R13", "unbind acts only for the incarnation that holds the ip (a late event cannot free the ip of the new pod, which would then be handed out twice)", 2)
			ruleUnbindUIDGuard(c, "C01.R13")
			c.Rule("C01.R7", "release events are queued only for pods that are gone or finished", 2)
			ruleReleaseEventsQueued(c, "C01.R7")
		}})
}

func init() {
	register(&propDef{ID: "C04", Title: "A live pod's IP is never released, re-keyed or handed on",
		Explanation: "Decides, for the two asynchronous releasers (release API, resync closure): (R1) the IP is re-read with the pod lock held; (R2) every unassign/reserve/release/unbind is reachable only through the not-running edge of podRunning and the key-unchanged edge of the re-read record; (R3) the liveness test is fail-safe: 'not running' only via NotFound / uid mismatch / finished, and only after asking the API server; (R4) IPAM Release/ReleaseIPs/UpdateAttr write the store only if the stored key equals the caller's key; (R5) uid, node, address and policy the decision uses derive from the re-read record, not from a snapshot taken before the lock (flow through memory cells checked with dominance); (R6) release events are queued only for deleted / finished / no-longer-existing pods and failed unbinds are re-queued. Does not decide orderings of late events against a replacement's bind (event history), nor informer lag. (R14) the pod field of a queued release event is stored only at construction and the loop hands exactly that field to unbind: a retried event keeps the deleted incarnation's uid. (R15) IPAM.UpdateAttr is unreachable from the event / resync entry points (syncPodIP, syncIP, resyncPod, UpdatePod, DeletePod, unbind, loop; helpers and closures followed): uid and node of a record are written by Bind only.",
		Assumptions: []string{"CFG paths; memory cells tracked field-sensitively inside one function only"},
		Run: func(c *Ctx) {
			c.Rule("C04.R1", "re-read under the pod lock", 1)
			ruleReleasers(c, "C04.R1", "reread")
			c.Rule("C04.R2", "freeing calls behind 'not running' and 'key unchanged'", 8)
			ruleReleasers(c, "C04.R2", "guards")
			c.Rule("C04.R14", "a release event keeps the pod object (uid) it was queued with", 2)
			ruleEventKeepsItsPod(c, "C04.R14")
			c.Rule("C04.R15", "uid / node of an allocated ip are written by Bind only (never from an event or resync pod object)", 3)
			ruleAttrWrittenOnlyOnBind(c, "C04.R15")
			c.Rule("C04.R13", "unbind acts only for the incarnation that holds the ip (UID guard in the event handler)", 2)
			ruleUnbindUIDGuard(c, "C04.R13")
			c.Rule("C04.R3", "fail-safe liveness test", 2)
			ruleLivenessFailSafe(c, "C04.R3")
			c.Rule("C04.R4", "store writes match on (ip,key)", 1)
			ruleKeyMatchBeforeStoreWrite(c, "C04.R4")
			c.Rule("C04.R5", "decision inputs derive from the re-read record", 4)
			ruleReleasers(c, "C04.R5", "fresh")
			c.Rule("C04.R6", "release events only for gone/finished pods; failed unbind re-queued", 2)
			ruleReleaseEventsQueued(c, "C04.R6")
			c.Rule("C04.R8", "a reload keeps every allocation whose ip is still configured", 2)
			ruleReloadDeletesOnlyForeign(c, "C04.R8")
			ruleReloadPoolMatch(c, "C04.R8")
			ruleListUnderLock(c, "C04.R8")
			c.Rule("C04.R9", "owner keys are compared for equality; prefix queries only with pool prefixes", 6)
			ruleExactKeyQueries(c, "C04.R9")
			c.Rule("C04.R10", "bind waits for the old incarnation's delete event (UID guard)", 2)
			ruleUIDGuard(c, "C04.R10")
			c.Rule("C04.R11", "a store Create conflict is an error (never an upsert over a live pod's object)", 2)
			ruleStoreErrorsPropagate(c, "C04.R11")
			c.Rule("C04.R12", "the pod lock key is (name, namespace) at every site", 3)
			rulePodLockKey(c, "C04.R12")
			c.Rule("C04.R7", "IPAM mutators under the pod lock (unbind, syncPodIP, resync, release)", 5)
			rulePodLockAtMutators(c, "C04.R7")
		}})
}

func init() {
	register(&propDef{ID: "C10", Title: "Cloud-provider assign/unassign calls are well ordered per IP",
		Explanation: "Decides, in unbind, the release API and the resync closure: (R1) the unassign exists on the provider path, a failed unassign never proceeds to free/re-key and is returned/retried, no unassign follows a free, node and uid are cleared (reserveIP(key,key)) only after a successful unassign, and with a provider the free is preceded by the unassign unless no node is recorded; (R2) the UID guard of allocateIP ends in an error before any assign; (R3) a failed assign fails allocateIP and the pod is bound only after allocateIP succeeded; (R4) node names and addresses in the requests come from the stored/re-read record (unassign) and from the bind's node (assign). (R7) the provider wrappers return nil only behind reply.Success (or 'no provider configured'): a failed, missing or swallowed reply is never success. Does not decide whole per-IP call sequences across moves and retries (a state machine over a history). (R8 = C04.R14) a retried release event still carries the deleted incarnation. (R9 = C04.R15) the node recorded for an ip is written by Bind only.",
		Assumptions: []string{"CFG paths; the provider is reached only through cloudProviderAssignIP/UnAssignIP"},
		Run: func(c *Ctx) {
			c.Rule("C10.R1", "unassign before free; failure stops; node/uid cleared after", 10)
			ruleUnbindCloudOrder(c, "C10.R1")
			ruleReleasers(c, "C10.R1", "cloud")
			c.Rule("C10.R2", "UID guard before assign", 2)
			ruleUIDGuard(c, "C10.R2")
			c.Rule("C10.R3", "failed assign fails the bind; bind only after allocateIP", 2)
			ruleAssignInBind(c, "C10.R3")
			ruleBindAfterAllocate(c, "C10.R3")
			c.Rule("C10.R5", "the node recorded for an ip is refreshed by every successful bind", 1)
			ruleUpdateAttrAlwaysWrites(c, "C10.R5")
			c.Rule("C10.R6", "free / reserve after a pod is gone is entered only from the unassign-first paths; scheduling paths never release", 4)
			ruleWhoMayUnbind(c, "C10.R6")
			ruleSchedulingNeverReleases(c, "C10.R6")
			c.Rule("C10.R8", "a retried release event still carries the deleted incarnation (uid guard compares that one)", 2)
			ruleEventKeepsItsPod(c, "C10.R8")
			c.Rule("C10.R9", "the node recorded for an ip is written by Bind only", 3)
			ruleAttrWrittenOnlyOnBind(c, "C10.R9")
			c.Rule("C10.R7", "provider wrappers report success only for a successful reply", 1)
			ruleProviderSuccessOnlyOnReply(c, "C10.R7")
			c.Rule("C10.R4", "request fields come from the re-read record", 4)
			ruleReleasers(c, "C10.R4", "fresh")
		}})
}

func init() {
	register(&propDef{ID: "C03", Title: "IPs are released exactly when the release policy says so",
		Explanation: "Decides: (R1) policy -> effect on every branch of unbindDpPod / unbindNoneDpPod / shouldRelease: PodDelete always releases and never reserves; Never never releases; Immutable releases only through `replicas==0`, `len(all ips of the prefix) > replicas`, `app gone`, `replicas < index+1`, and reserves only through their complements; lookup errors keep the IP; (R2) policy derivation: pool annotation forces Never, ConvertReleasePolicy maps the documented strings and defaults to PodDelete, every declared policy is produced, the PolicyStr table has one entry per declared constant; (R3) resync hands the re-read stored policy to the unbind functions; (R4) delete / finish events are queued and a failed unbind is re-queued; (R5) the Attr given to every IPAM allocator/UpdateAttr call carries a Policy derived from parseReleasePolicy(pod) (through parameters, checked at every caller); (R6) unbind parses the policy from the pod and routes deployment pods to unbindDpPod. (R9) only unbind takes the policy decision (scheduling paths never release or reserve directly), and a found pod counts as gone only when finished or of another uid — a terminating pod is still running. Numeric boundaries (>= for >) and quiescent-state equality over all histories are not decided. (R10) the owner lookups (statefulset lister, custom-resource replicas) conclude 'app gone' from NotFound only: from the err != nil edge, IsNotFound removed, every return carries the error (phi inputs resolved along the reached edges).",
		Assumptions: []string{"CFG paths; constants identified by type and value"},
		Run: func(c *Ctx) {
			c.Rule("C03.R1", "policy -> release/reserve effect on every branch", 7)
			rulePolicyEffect(c, "C03.R1")
			c.Rule("C03.R2", "policy derivation / exhaustiveness", 3)
			rulePolicyDerivation(c, "C03.R2")
			c.Rule("C03.R3", "resync uses the stored (re-read) policy", 4)
			ruleReleasers(c, "C03.R3", "fresh")
			c.Rule("C03.R4", "events reach unbind; failed unbind re-queued", 2)
			ruleReleaseEventsQueued(c, "C03.R4")
			c.Rule("C03.R7", "reserve keeps the stored policy in store and memory alike", 1)
			ruleCloneMatchesAssign(c, "C03.R7")
			c.Rule("C03.R8", "the immutable-deployment count and its release/reserve decision run under the pool lock of the counted prefix", 12)
			rulePoolLock(c, "C03.R8")
			c.Rule("C03.R10", "owner lookups conclude \"app gone\" from NotFound only", 1)
			ruleAppLookupErrorsKeep(c, "C03.R10")
			c.Rule("C03.R9", "the policy decision is taken only by unbind (no direct release from scheduling paths) and only for pods that are gone: terminating pods count as running", 6)
			ruleWhoMayUnbind(c, "C03.R9")
			ruleSchedulingNeverReleases(c, "C03.R9")
			ruleLivenessFailSafe(c, "C03.R9")
			c.Rule("C03.R5", "stored policy is the pod's policy", 2)
			ruleStoredPolicyIsPodPolicy(c, "C03.R5")
			c.Rule("C03.R6", "unbind derives the policy from the pod", 1)
			ruleUnbindUsesPodPolicy(c, "C03.R6")
		}})
}

func init() {
	register(&propDef{ID: "C07", Title: "A sized IP pool never grows beyond its size",
		Explanation: "Decides the mechanism 'count and allocate inside the pool lock': in the filter (getSubnet/getAvailableSubnet/allocateDuringFilter) deployment keys always pass LockDpPool(PoolPrefix()) before the count, nothing is counted or allocated before the lock, and isPoolSizeDefined can be true only on paths dominated by the lock acquisition; the count is over the locked prefix and the size/replicas limit ends in an error before any subnet is computed; pre-allocation through the API counts and allocates with the same lock class held (LockPoolFunc is bound to exactly the pool-lock wrapper) and lock key = counted prefix = allocation key; unbindDpPod counts and decides under the pool lock; a failed re-key never falls through to a fresh allocation and errors on this path are returned. (R4) once the Pool object was found, getDpReplicas answers (pool.Size, true) for every size value including 0. Does not decide the numeric bound under all interleavings nor that the size read before the lock is the size in force. (R5) inside the counting loop, from the `ip.Key != poolPrefix` edge the next iteration is reached without the increment only through an edge on which isPoolSizeDefined is false (the parameter itself or `isPoolSizeDefined || x` kept in a variable). (R6) the counter compared in the loop condition around AllocateInSubnet in preAllocateIP gets its initial value on an edge that cannot be reached again after an allocation (a fail-over to the next subnet continues the count).",
		Assumptions: []string{"key mutex pools are identified by field (class), the key argument is checked to be the PoolPrefix() value"},
		Run: func(c *Ctx) {
			c.Rule("C07.R1", "count + allocate inside the pool lock (filter, pre-allocation, unbind); limit; error discipline", 12)
			rulePoolLock(c, "C07.R1")
			c.Rule("C07.R3", "pre-allocation only after the Pool object was stored successfully", 1)
			rulePreallocAfterStore(c, "C07.R3")
			c.Rule("C07.R5", "with a sized pool every used ip of the pool counts against the size", 1)
			ruleSizedPoolCountsAll(c, "C07.R5")
			c.Rule("C07.R6", "the pre-allocation counter carries across subnets", 1)
			rulePreallocBoundCarries(c, "C07.R6")
			c.Rule("C07.R4", "a found Pool object defines the size, whatever its value", 1)
			rulePoolFoundDefinesSize(c, "C07.R4")
			c.Rule("C07.R2", "releaser of a lock wrapper is deferred immediately", 4)
			ruleWrapperDeferred(c, "C07.R2")
		}})
	register(&propDef{ID: "C02", Title: "Float IP is sticky across reschedule and rolling update",
		Explanation: "Decides necessary conditions of 'reuse the reserved IP, never a fresh one': (R1) bind looks the pod's IPs up before allocating, has a success path that allocates nothing, allocates only the ranges whose lookup entry is nil, and only refreshes attributes of reused IPs under the same key; (R2) filter looks up first and returns the held IPs' node subnets without consulting the free pool; a partly allocated request is intersected with the held IPs' subnets; (R3) the UID guard; (R4) the re-key picks only an entry with the old key in a pool routable from the subnet, and updates store and memory with a clone of that entry under the new key; (R5) the unbind functions reserve instead of releasing for immutable/never (C03.R1). (R11) the wait-for-release decision of getAvailableSubnet is computed from every entry of the prefix listing (the loop has no break/return) and from Spec.Replicas only. Does not decide 'exactly the IP it held before' over all histories and event orders, nor 'newest first'. (R12) when the app / pool holds an ip in reserve, the set returned by getAvailableSubnet on the `reserved.Len() > 0` edge is the very set the reserved entries were collected into, with reserve=true and nil error; no other return is reachable from that edge (free capacity is not consulted).",
		Assumptions: []string{"CFG paths; data dependence is syntactic (SSA operands, phis, local cells)"},
		Run: func(c *Ctx) {
			c.Rule("C02.R12", "with an ip in reserve the reserved subnets are the answer", 1)
			ruleReserveDefinesAnswer(c, "C02.R12")
			c.Rule("C02.R11", "the wait-for-release decision uses the whole prefix listing and the desired replica count", 1)
			ruleUsedCountWholeListing(c, "C02.R11")
			c.Rule("C02.R1", "lookup before allocate; reuse path; filter/bind node-subnet agreement", 6)
			ruleStickyLookup(c, "C02.R1")
			c.Rule("C02.R3", "UID guard", 2)
			ruleUIDGuard(c, "C02.R3")
			c.Rule("C02.R4", "re-key guards", 1)
			ruleRekeyGuards(c, "C02.R4")
			c.Rule("C02.R5", "unbind reserves for immutable/never", 7)
			rulePolicyEffect(c, "C02.R5")
			c.Rule("C02.R7", "resync / release API clear node and uid under the pod's own key (reserveIP(key, key))", 4)
			ruleReleasers(c, "C02.R7", "cloud")
			c.Rule("C02.R8", "filter / bind / preempt / pod-ip sync never release or reserve", 2)
			ruleSchedulingNeverReleases(c, "C02.R8")
			c.Rule("C02.R9", "a pod is judged gone only after asking the API server (fail-safe liveness test)", 2)
			ruleLivenessFailSafe(c, "C02.R9")
			c.Rule("C02.R10", "release events are queued only for pods that are gone or finished", 2)
			ruleReleaseEventsQueued(c, "C02.R10")
			c.Rule("C02.R6", "a failed re-key of the reserved ip is returned, never replaced by a fresh allocation", 3)
			ruleFilterAllocErrors(c, "C02.R6")
		}})
	register(&propDef{ID: "C06", Title: "Filter-approved nodes can be bound and get a routable IP",
		Explanation: "Decides: (R1) allocation only from pools that list the node subnet (single-IP allocator, multi-IP candidate callback, re-key); (R2) the ipinfo written for an IP takes mask, VLAN and gateway from that IP's own pool and the address from the IP; (R3) Filter keeps a node iff the computed subnet set contains getNodeSubnet(node), records the others as failed, and fails on a getSubnet error; filter and bind resolve node subnets through the same IPAM query; (R4) a pod that holds IPs is offered only their node subnets, and a partly allocated request is intersected with them; (R5) on reload an allocation is attached to the pool whose ranges contain the IP (not merely whose subnet does); errors on the allocation path are returned. (R8) a requested range without a free ip makes NodeSubnetsByIPRanges return the empty set, and after the allocation made during filter getSubnet returns exactly {the subnet of that allocation}. Does not decide that bind succeeds after filter, nor 'exactly the nodes with a free routable IP' (set equality over runtime tables). (R9 = C08.R9) the rollback of a failed multi-ip allocation reaches the first created object (memory says free => the store has no object). (R10) no ConfigurePool call is reachable after the reset of the node-subnet cache (inside the resetting function, after the call of a resetting helper, or after a plainly called closure; a deferred closure runs last).",
		Assumptions: []string{"CFG paths"},
		Run: func(c *Ctx) {
			c.Rule("C06.R1", "allocation only from pools that list the node subnet", 4)
			ruleAllocateRoutable(c, "C06.R1")
			ruleCandidateGuards(c, "C06.R1")
			ruleRekeyGuards(c, "C06.R1")
			c.Rule("C06.R2", "ipinfo from the IP's own pool", 2)
			ruleIPInfoFromPool(c, "C06.R2")
			c.Rule("C06.R3", "filter/bind lookup and node-subnet agreement", 6)
			ruleStickyLookup(c, "C06.R3")
			c.Rule("C06.R6", "a pool's node-subnet set is read-only after ConfigurePool; hand-outs are copies", 1)
			rulePoolSetsImmutable(c, "C06.R6")
			c.Rule("C06.R7", "a reserved ip leaves the free table (paired moves); reservation handlers guarded", 6)
			ruleTablesOnlyThroughHelpers(c, "C06.R7")
			ruleReservationHandlers(c, "C06.R7")
			c.Rule("C06.R9", "the rollback of a failed multi-ip allocation leaves no store object behind (memory says free => bind can create)", 1)
			ruleRollbackCoversFirst(c, "C06.R9")
			c.Rule("C06.R10", "the node-subnet cache is dropped after the pools were reconfigured, never before", 1)
			ruleCacheResetAfterReconfigure(c, "C06.R10")
			c.Rule("C06.R8", "an unservable range vetoes the pod; after the allocation during filter exactly that subnet is offered", 1)
			ruleFilterSubnetAnswers(c, "C06.R8")
			c.Rule("C06.R5", "reload attaches an allocation to the pool whose ranges contain it", 2)
			ruleReloadDeletesOnlyForeign(c, "C06.R5")
			ruleReloadPoolMatch(c, "C06.R5")
		}})
}
