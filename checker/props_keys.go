package main

func init() {
	register(&propDef{ID: "C11", Title: "Allocation keys are unambiguous and the API releases what it lists",
		Explanation: "Decides: (R1) ListIPs and ReleaseIPs give NewKeyObj the statefulset prefix constant on the appType==\"\" edge and GetAppTypePrefix(appType) otherwise (a dead store of the default is a missing phi), and reject an empty prefix before building a key; (R2) every constant app-type prefix FormatKey can store, and the image of a custom kind, is a fixed point of GetAppTypePrefix∘GetAppType — decided by folding the compile-time constants through the SSA of the two functions (constant propagation, no execution of galaxy code); (R3) KeyObj.KeyInDB is written only in package util, writer format and parser agree on separator, number of parts and the pool prefix constant. (R6) the releasers reached from the release API free an ip only behind the 'key unchanged' and 'not running' edges (shared with C01/C04), and a computed app-type prefix stored by FormatKey is GetAppTypePrefix(kind); (R5) the page window uses one size value for offset, length and the reported size, and the release loop ranges over the very slice the parsed requests were appended to (no filter or sub-slice between parse and release). Does not decide injectivity over all DNS-1123 names, nor the sorting part of the paging clause (a law over runtime slices and comparators). (R7) in ByKeyword, ByPrefix and listIPs no append to the result is followed by a second one within the same iteration. (R8) in convert, Namespace / AppName / PodName / PoolName are plain reads of ParseKey(key) and AppType is GetAppType(<its prefix>), without a case distinction on the owner kind. (R9) in ListIPs the sort precedes Pagination on every path and does not sort a sub-slice. (R10) no argument of NewKeyObj in ReleaseIPs derives from an IPAM lookup or from convert(). (R11) Pagination never merges the page parameter with another value. (R12 = C04.R1) the release API re-reads the ip under the pod lock. (R13) the comparators of the list API (closures of sortFunc and the helpers they call) contain no positional comparison that tests one direction only. (R14) in genKey a KeyInDB without pod name is stored only behind `AppName == \"\"`. (R15 = C03.R9) key-wide release only from unbind. (R17) the loop of ReleaseIPs around releaseFunc is left only when the posted requests are exhausted (no break / return out of its body).",
		Assumptions: []string{"GetAppType/GetAppTypePrefix stay loop-free pure string functions (otherwise the rule reports undecided)"},
		Run: func(c *Ctx) {
			c.Rule("C11.R17", "every posted entry reaches the releaser", 1)
			ruleReleaseLoopExhaustive(c, "C11.R17")
			c.Rule("C11.R16", "the release API frees the posted ip and nothing else", 1)
			ruleReleaseAPIFreesPostedIP(c, "C11.R16")
			c.Rule("C11.R15", "the release API frees the posted ip only (no key-wide release outside unbind)", 4)
			ruleWhoMayUnbind(c, "C11.R15")
			c.Rule("C11.R14", "a key without pod name is produced only for an empty app name", 1)
			rulePoolKeyOnlyWithoutApp(c, "C11.R14")
			c.Rule("C11.R1", "sibling agreement of the appType default", 2)
			ruleAppTypeDefault(c, "C11.R1")
			c.Rule("C11.R2", "list->release closure of app-type prefixes", 2)
			rulePrefixRoundTrip(c, "C11.R2")
			c.Rule("C11.R5", "one size per page window; every posted entry reaches the releaser", 1)
			rulePageWindowOneSize(c, "C11.R5")
			ruleEveryPostedEntryReleased(c, "C11.R5")
			c.Rule("C11.R7", "a listing shows every entry at most once", 2)
			ruleListedOnce(c, "C11.R7")
			c.Rule("C11.R12", "the release API judges the record it re-read under the pod lock", 1)
			ruleReleasers(c, "C11.R12", "reread")
			c.Rule("C11.R13", "the orderings offered by the list API compare positions both ways", 3)
			ruleSortComparatorsTwoSided(c, "C11.R13")
			c.Rule("C11.R11", "the page number is used as given", 1)
			rulePageNumberAsGiven(c, "C11.R11")
			c.Rule("C11.R9", "pages are windows of one sorted list", 1)
			ruleSortBeforePaging(c, "C11.R9")
			c.Rule("C11.R10", "the release key is built from the posted entry alone", 1)
			ruleReleaseKeyFromPostedEntry(c, "C11.R10")
			c.Rule("C11.R8", "a listed entry shows the parts of its key unconditionally", 3)
			ruleConvertShowsKeyParts(c, "C11.R8")
			c.Rule("C11.R6", "the release API frees an ip only for the exact key it was posted for (key unchanged, not running)", 8)
			ruleReleasers(c, "C11.R6", "guards")
			c.Rule("C11.R3", "single key codec", 4)
			ruleKeyCodec(c, "C11.R3")
		}})
}
