package main

// Engine self-tests: tiny positive and negative examples in /verif/checker/testdata are analysed on every run.
// Every Bad* example must be flagged and every Good* example must stay silent; a failure is reported as an
// undecided obligation of the property being checked (the checker is broken, nothing it says is to be believed).

import (
	"fmt"
	"os"
	"path/filepath"
	"strings"
	"sync"

	"golang.org/x/tools/go/ssa"
)

var (
	selfOnce sync.Once
	selfErrs []string
	selfN    int
)

func testdataDir() string {
	if d := os.Getenv("GALAXYCHECK_TESTDATA"); d != "" {
		return d
	}
	return filepath.Join(verifDir, "checker", "testdata")
}

func init() {
	selfTestHook = func(c *Ctx, prop string) {
		selfOnce.Do(runEngineSelfTests)
		if len(selfErrs) > 0 {
			c.add(&Obligation{Rule: prop + ".selftest", Func: "-", Construct: "engine self-test", Status: Undecided,
				Detail: "engine self-test failed (" + strings.Join(selfErrs, "; ") + "): the checker is broken"})
		}
		c.note("engine self-tests: %d expectations on %s, %d failed", selfN, testdataDir(), len(selfErrs))
	}
}

func runEngineSelfTests() {
	specs := []guardSpec{{Pkg: "cases", Type: "Store", Fields: []string{"m", "list"}, Lock: "Store.mu", ResidentElem: "Obj",
		ResidentFields: []string{"Key"}, WriteOnce: []string{"id"}}}
	t, err := LoadMod(testdataDir(), nil, false, "selftest/", []string{"./..."}, specs)
	if err != nil {
		selfErrs = append(selfErrs, "cannot load testdata: "+err.Error())
		return
	}
	expect := func(what string, got, want bool) {
		selfN++
		if got != want {
			selfErrs = append(selfErrs, fmt.Sprintf("%s: got %v want %v", what, got, want))
		}
	}
	fn := func(name string) *ssa.Function {
		f := t.Fn("cases", name)
		if f == nil {
			selfErrs = append(selfErrs, "testdata function missing: "+name)
		}
		return f
	}
	// E1
	la := t.locks()
	for name, bad := range map[string]bool{"(*Store).GoodRead": false, "(*Store).BadRead": true, "(*Store).BadWriteUnderR": true,
		"(*Store).BadDeferOrder": true, "(*Store).GoodHelper": false, "(*Store).GoodSliceReplace": false} {
		if f := fn(name); f != nil {
			_, has := la.info[f].req["Store.mu"]
			expect("E1 requires "+name, has, bad)
		}
	}
	if f := fn("(*Store).put"); f != nil {
		_, isRoot := la.roots[f]
		_, has := la.info[f].req["Store.mu"]
		expect("E1 helper put requires the lock and is not a root", has && !isRoot, true)
	}
	if f := fn("(*Store).BadLeakLock"); f != nil {
		expect("E1 pairing BadLeakLock", len(la.info[f].kept) > 0, true)
	}
	if f := fn("(*Store).GoodRead"); f != nil {
		expect("E1 pairing GoodRead", len(la.info[f].kept) > 0, false)
	}
	{
		tmp := &Ctx{Mod: t.Mod, GuardSpecs: t.GuardSpecs, RepoDir: t.RepoDir, Pkgs: t.Pkgs, byPath: t.byPath, Prog: t.Prog, Fset: t.Fset,
			SrcFns: t.SrcFns, ruleDocs: map[string]string{}, ruleMin: map[string]int{}, idx: t.idx, lockA: la}
		la.c = tmp
		ruleNoInPlaceSliceReuse(tmp, "self")
		bad, good := false, true
		for _, o := range tmp.Obls {
			if strings.Contains(o.Func, "BadSliceReuse") && o.Status == Violated {
				bad = true
			}
			if strings.Contains(o.Func, "GoodSliceReplace") && o.Status != Discharged {
				good = false
			}
		}
		expect("E1 in-place slice reuse flagged", bad, true)
		expect("E1 wholesale slice replace silent", good, true)
		la.c = t
	}
	// E2
	for name, want := range map[string]bool{"GoodOrder": true, "BadOrder": false, "BadSwallow": false} {
		if f := fn(name); f != nil {
			s := calls(f, "cases.save")
			u := calls(f, "cases.use")
			if len(s) == 1 && len(u) == 1 {
				ok, dec := onlyAfterSuccess(f, s[0], u[0])
				expect("E2 onlyAfterSuccess "+name, ok && dec, want)
			} else {
				selfErrs = append(selfErrs, "E2 testdata shape "+name)
			}
		}
	}
	if f := fn("BadSwallow"); f != nil {
		ok, _, _ := onErrorReturnsErr(f, calls(f, "cases.save")[0])
		expect("E2 onErrorReturnsErr BadSwallow", ok, false)
	}
	if f := fn("GoodOrder"); f != nil {
		ok, _, _ := onErrorReturnsErr(f, calls(f, "cases.save")[0])
		expect("E2 onErrorReturnsErr GoodOrder", ok, true)
		expect("E2 precedes(save,use) GoodOrder", precedes(f, toInstrs(calls(f, "cases.save")), calls(f, "cases.use")[0]), true)
	}
	if f := fn("BadOrder"); f != nil {
		expect("E2 precedes(save,use) BadOrder", precedes(f, toInstrs(calls(f, "cases.save")), calls(f, "cases.use")[0]), false)
	}
	for name, want := range map[string]bool{"GoodGuard": true, "BadGuard": false} {
		if f := fn(name); f != nil {
			found := guardEdges(f, predBool(func(v ssa.Value) bool { ex, ok := v.(*ssa.Extract); return ok && ex.Index == 1 }))
			expect("E2 guardedBy "+name, guardedBy(f, calls(f, "cases.use")[0], found), want)
		}
	}
	// E3
	srcs := nilNilFuncs(t)
	expect("E3 finds the (nil,nil) source", len(srcs) == 1, true)
	for name, want := range map[string]bool{"GoodNil": true, "GoodNilDefault": true, "BadNil": false} {
		if f := fn(name); f != nil {
			tmp := &Ctx{Mod: t.Mod, Fset: t.Fset, RepoDir: t.RepoDir, ruleDocs: map[string]string{}, ruleMin: map[string]int{}, idx: t.idx}
			var v ssa.Value
			for _, call := range calls(f, "cases.find") {
				for _, ref := range *call.Value().Referrers() {
					if ex, ok := ref.(*ssa.Extract); ok && ex.Index == 0 {
						v = ex
					}
				}
			}
			if v == nil {
				selfErrs = append(selfErrs, "E3 testdata shape "+name)
				continue
			}
			tmp.checkOptional("self", f, v, "find", func(x ssa.Value) bool { return x == v })
			all := true
			for _, o := range tmp.Obls {
				if o.Status != Discharged {
					all = false
				}
			}
			expect("E3 "+name, all, want)
		}
	}
	// E1: residency through results
	if f := fn("(*Store).BadEscape"); f != nil {
		_, has := la.info[f].req["Store.mu"]
		expect("E1 resident pointer returned out of the critical section (BadEscape)", has, true)
	}
	// E3b
	{
		tmp := &Ctx{Mod: t.Mod, GuardSpecs: t.GuardSpecs, RepoDir: t.RepoDir, Pkgs: t.Pkgs, byPath: t.byPath, Prog: t.Prog, Fset: t.Fset,
			SrcFns: t.SrcFns, ruleDocs: map[string]string{}, ruleMin: map[string]int{}, idx: t.idx, lockA: la}
		la.c = tmp
		na := &nullAnalysis{c: tmp, la: la, rule: "self", seen: map[nkey]bool{}, nn: map[ssa.Value]string{}, reported: map[ssa.Instruction]bool{}}
		na.run()
		flagged := map[string]bool{}
		for _, o := range tmp.Obls {
			if o.Status == Violated {
				for _, w := range []string{"BadDecodeElems", "GoodDecodeElems", "BadDecodePtr", "GoodDecodePtr", "BadDecodeField"} {
					if strings.Contains(o.Detail, "cases."+w+")") {
						flagged[w] = true
					}
				}
			}
		}
		for w, want := range map[string]bool{"BadDecodeElems": true, "GoodDecodeElems": false, "BadDecodePtr": true, "GoodDecodePtr": false, "BadDecodeField": true} {
			expect("E3b "+w, flagged[w], want)
		}
		la.c = t
	}
	// stepped index
	for name, want := range map[string]bool{"BadStep": false, "GoodStep": true} {
		if f := fn(name); f != nil {
			sites := steppedIndexSites(f)
			if len(sites) != 1 {
				selfErrs = append(selfErrs, "stepped index testdata shape "+name)
				continue
			}
			ia := sites[0].(*ssa.IndexAddr)
			expect("stepped index "+name, indexGuarded(f, ia, nil, ia.Index), want)
		}
	}
	// E2 through helpers: the equality test lives in lookupChecked; the caller only tests the returned error
	for name, want := range map[string]bool{"GoodHelperGuard": true, "BadHelperGuard": false} {
		if f := fn(name); f != nil {
			eq := guardEdgesX(f, predEq(func(v ssa.Value) bool { _, ok := v.(*ssa.Extract); return ok }, func(v ssa.Value) bool { p, ok := v.(*ssa.Parameter); return ok && p.Name() == "want" }))
			ef := callsLocal(f, "cases.effect")
			if len(ef) != 1 || len(eq) != 1 {
				selfErrs = append(selfErrs, fmt.Sprintf("E2 helper testdata shape %s (%d effect calls, %d equality edges)", name, len(ef), len(eq)))
				continue
			}
			expect("E2 guardedBy through a helper and its returned error "+name, guardedBy(f, ef[0], eq), want)
		}
	}
	// control dependence: which non-nil tests decide a registration
	for name, want := range map[string]int{"GoodRegister": 0, "BadRegister": 1} {
		if f := fn(name); f != nil {
			n := 0
			allInstrs(f, func(in ssa.Instruction) {
				if mu, ok := in.(*ssa.MapUpdate); ok {
					for _, iff := range controllingIfs(mu) {
						if !isNilTest(iff.Cond) {
							n++
						}
					}
				}
			})
			expect("controllingIfs non-nil conditions of the map update in "+name, n == want, true)
		}
	}
	// phi inputs along the reached edges: a named error result merged from several branches
	for name, want := range map[string]bool{"GoodLookupErr": true, "BadLookupErr": false} {
		if f := fn(name); f != nil {
			lk := callsLocal(f, "cases.lookupChecked")
			nf := guardEdges(f, predCall("cases.isMissing", nil))
			if len(lk) != 1 {
				selfErrs = append(selfErrs, "phi-input testdata shape "+name)
				continue
			}
			ok := true
			for _, t := range errTests(lk[0]) {
				cu := newCut().edge(nf...)
				r := reachFromEdge(t.ErrEdge, cu)
				for _, ret := range returns(f) {
					if !r.has(ret) {
						continue
					}
					for _, v := range reachedPhiInputs(retVal(ret, 2), r, t.ErrEdge, cu, 0) {
						if !nonNilErrOperand(v, errValues(lk[0])) {
							ok = false
						}
					}
				}
			}
			expect("reachedPhiInputs: error kept on the not-missing path "+name, ok, want)
		}
	}
	// a self-recursive closure is recognised through the cell it is stored in
	if f := fn("GoodSearch"); f != nil {
		n := 0
		for _, a := range f.AnonFuncs {
			allInstrs(a, func(in ssa.Instruction) {
				if call, ok := in.(*ssa.Call); ok {
					if ld, ok := call.Call.Value.(*ssa.UnOp); ok {
						if fv, ok := ld.X.(*ssa.FreeVar); ok && cellHoldsClosure(a, fv) {
							n++
						}
					}
				}
			})
		}
		expect("cellHoldsClosure finds the recursive call of GoodSearch", n == 1, true)
	}
	// in-place mutation of a map read from a field
	for name, want := range map[string]bool{"GoodRelabel": false, "BadRelabel": true} {
		if f := fn(name); f != nil {
			hit := false
			allInstrs(f, func(in ssa.Instruction) {
				if call, ok := isBuiltinCall(in, "delete"); ok {
					hit = dependsOn(call.Call.Args[0], func(x ssa.Value) bool { _, n, ok := fieldLoad(x); return ok && n == "Labels" })
				}
			})
			expect("delete on a map read from a Labels field "+name, hit, want)
		}
	}
	// bool flags in SSA form, slice literals
	for name, want := range map[string]bool{"FlagConst": true, "FlagComputed": false} {
		if f := fn(name); f != nil {
			got := false
			for _, b := range f.Blocks {
				if iff, ok := lastInstr(b).(*ssa.If); ok {
					if tr, fa, ok := flagEdges(iff.Cond); ok && len(tr) == 1 && len(fa) == 1 {
						got = true
					}
				}
			}
			expect("flagEdges: phi over the constants true / false "+name, got, want)
		}
	}
	if f := fn("LitPair"); f != nil {
		rets := returns(f)
		if len(rets) == 1 && len(rets[0].Results) == 3 {
			expect("sameLiteral: equal slice literals", sameLiteral(rets[0].Results[0], rets[0].Results[1]), true)
			expect("sameLiteral: literals differing in one element", sameLiteral(rets[0].Results[0], rets[0].Results[2]), false)
		} else {
			expect("sameLiteral: test function shape", false, true)
		}
	}
	// one-sided positional comparison
	for name, want := range map[string]bool{"GoodLexLess": false, "GoodLexLessNeq": false, "BadLexLess": true} {
		if f := fn(name); f != nil {
			expect("one-sided positional comparison "+name, len(oneSidedPositional(f)) > 0, want)
		}
	}
	// listed once: a second append reachable within the same iteration
	for name, want := range map[string]bool{"GoodListOnce": false, "BadListTwice": true} {
		if f := fn(name); f != nil {
			var apps []ssa.Instruction
			allInstrs(f, func(in ssa.Instruction) {
				if call, ok := isBuiltinCall(in, "append"); ok {
					apps = append(apps, call)
				}
			})
			again := false
			for _, a := range apps {
				if hdr := loopHeaderOf(a); hdr != nil {
					r := t.reachAfter(a, newCut().instr(hdr.Instrs[0]))
					for _, b := range apps {
						if r.has(b) {
							again = true
						}
					}
				}
			}
			expect("second append within one iteration "+name, again, want)
		}
	}
	// value-form `a == 0 || b` of a switch case: from the a == 0 edge only the case body is possible
	if f := fn("GoodSwitchOr"); f != nil {
		z := guardEdges(f, predEq(func(v ssa.Value) bool { p, ok := v.(*ssa.Parameter); return ok && p.Name() == "a" }, func(v ssa.Value) bool { n, ok := constIntVal(v); return ok && n == 0 }))
		ef := callsLocal(f, "cases.effect")
		if len(z) != 1 || len(ef) != 1 {
			selfErrs = append(selfErrs, "E2 switch-or testdata shape")
		} else {
			r := reachFromEdge(z[0], newCut().callInstrs(ef))
			reachesRet := false
			for _, ret := range returns(f) {
				if r.has(ret) {
					reachesRet = true
				}
			}
			expect("E2 value-form ||: the a == 0 edge always reaches the case body", reachesRet, false)
		}
	}
	// E4
	for name, want := range map[string]int{"BadLoop": 1, "GoodLoop": 0, "GoodConstLoop": 0} {
		if f := fn(name); f != nil {
			expect("E4 inclusiveLoops "+name, len(inclusiveLoops(f)) == want, true)
		}
	}
	for name, want := range map[string]int{"BadWrapCmp": 1, "GoodWrapCmp": 0} {
		if f := fn(name); f != nil {
			expect("E4 narrowArithInOrdering "+name, len(narrowArithInOrdering(f)) == want, true)
		}
	}
	// E5
	res := runSharedMapTaint(t, []taintSrc{{Type: "Srv", Field: "conf"}})
	badSink, goodSink := false, false
	for _, s := range res.sinks {
		if s.Parent().Name() == "BadUse" {
			badSink = true
		}
		if s.Parent().Name() == "GoodUse" || s.Parent().Name() == "GoodGet" {
			goodSink = true
		}
	}
	expect("E5 write to the shared map flagged (BadUse)", badSink, true)
	expect("E5 write to a copy silent (GoodUse)", goodSink, false)
}
