package main

// E3b — pointers a JSON decoder may leave nil. Starting at every decode call of an input surface (json.Unmarshal,
// (*json.Decoder).Decode, (*restful.Request).ReadEntity in pkg/...), the analysis follows, through locals, phis,
// arguments (static, interface and func-field callees), results and conversions,
//   - the decoded pointer itself when the target is a **T (body `null` resets it to nil),
//   - elements of decoded slices / values of decoded maps of pointers (`[null]`, `{"k":null}`),
//   - pointer fields of decoded module-defined structs without a custom UnmarshalJSON (missing key or null),
// and requires every dereference of such a value to be reachable only through the non-nil edge of a test of the same
// value, or to lie behind a validation loop (a loop over the slice whose nil edge leaves the function).

import (
	"fmt"
	"go/token"
	"go/types"
	"sort"
	"strings"

	"golang.org/x/tools/go/ssa"
)

type nkind int

const (
	kRoot  nkind = iota // pointer to (or address of) a decoded module struct: its pointer-ish fields are nullable
	kSlice              // slice whose elements are nullable pointers / decoded structs
	kMap                // map whose values are nullable pointers / decoded structs
	kElem               // a nullable pointer
)

func (k nkind) String() string { return [...]string{"struct", "slice", "map", "pointer"}[k] }

type nkey struct {
	v  ssa.Value
	k  nkind
	nn string // fields of a decoded struct the caller tested non-nil before handing it on
}

type nullAnalysis struct {
	c         *Ctx
	la        *lockAnalysis
	rule      string
	seen      map[nkey]bool
	nn        map[ssa.Value]string
	derefs    int
	sites     int
	pkgPrefix string
	noRoot    bool                          // elements only: do not descend into the fields of a non-nil element
	extra     func(fn *ssa.Function) []edge // additional edges behind which an element is known to be present
	callers   map[*ssa.Function][]ssa.CallInstruction
	reported  map[ssa.Instruction]bool
}

// notInputSurface: decode sites that read data galaxy wrote itself (state files), or test helpers
var notInputSurface = map[string]string{
	"@/pkg/api/cniutil.consumeNetworkInfo":              "state file written by saveNetworkInfo of this daemon, not an input surface",
	"@/pkg/api/k8s.ConsumePort":                         "port file written by SavePort of this daemon",
	"@/pkg/ipam/floatingip.CreateTestIPAM":              "test helper",
	"(*@/pkg/galaxy.Galaxy).setupIPtables":              "port files written by this daemon",
	"(*@/pkg/ipam/floatingip.FloatingIP).unmarshalAttr": "attr text written by galaxy-ipam into its own CRD",
}

func hasCustomDecoder(t types.Type) bool {
	for _, tt := range []types.Type{t, types.NewPointer(t)} {
		ms := types.NewMethodSet(tt)
		for i := 0; i < ms.Len(); i++ {
			if n := ms.At(i).Obj().Name(); n == "UnmarshalJSON" || n == "UnmarshalText" {
				return true
			}
		}
	}
	return false
}

var structModPrefix = modPath

// moduleStruct: named struct type defined in this module that is decoded field by field
func moduleStruct(t types.Type) (*types.Struct, bool) {
	n, ok := t.(*types.Named)
	if !ok {
		// anonymous struct
		if st, ok := t.Underlying().(*types.Struct); ok {
			if _, isN := t.(*types.Named); !isN {
				return st, true
			}
		}
		return nil, false
	}
	if n.Obj().Pkg() == nil || !strings.HasPrefix(n.Obj().Pkg().Path(), strings.TrimSuffix(structModPrefix, "/")) {
		return nil, false
	}
	st, ok := n.Underlying().(*types.Struct)
	if !ok || hasCustomDecoder(n) {
		return nil, false
	}
	return st, true
}

// kindOfValueType: how a value of type t (not an address) is tracked
func kindOfValueType(t types.Type) (nkind, bool) {
	switch u := t.Underlying().(type) {
	case *types.Pointer:
		return kElem, true
	case *types.Slice:
		if _, ok := u.Elem().Underlying().(*types.Pointer); ok {
			return kSlice, true
		}
		if _, ok := moduleStruct(u.Elem()); ok {
			return kSlice, true
		}
	case *types.Map:
		if _, ok := u.Elem().Underlying().(*types.Pointer); ok {
			return kMap, true
		}
	}
	return 0, false
}

func (na *nullAnalysis) run() {
	c := na.c
	old := structModPrefix
	structModPrefix = c.Mod
	defer func() { structModPrefix = old }()
	na.callers = map[*ssa.Function][]ssa.CallInstruction{}
	for _, fn := range c.SrcFns {
		allInstrs(fn, func(in ssa.Instruction) {
			if call, ok := in.(ssa.CallInstruction); ok {
				for _, g := range na.la.calleesOf(call) {
					na.callers[g] = append(na.callers[g], call)
				}
			}
		})
	}
	var fns []*ssa.Function
	for _, fn := range c.SrcFns {
		if isGenerated(fn) || !strings.HasPrefix(fn.Pkg.Pkg.Path(), na.pkgPrefix) {
			continue
		}
		fns = append(fns, fn)
	}
	sort.Slice(fns, func(i, j int) bool { return fnName(fns[i]) < fnName(fns[j]) })
	for _, fn := range fns {
		for _, u := range calls(fn, "encoding/json.Unmarshal", "(*encoding/json.Decoder).Decode", "(*github.com/emicklei/go-restful.Request).ReadEntity") {
			if why, ex := notInputSurface[fnName(fn)]; ex {
				c.exempt(na.rule, fn, "decode of "+targetTypeOf(u), u, why)
				continue
			}
			na.sites++
			na.seed(fn, u)
		}
	}
}

func targetTypeOf(u ssa.CallInstruction) string {
	args := u.Common().Args
	a := args[len(args)-1]
	if mi, ok := a.(*ssa.MakeInterface); ok {
		a = mi.X
	}
	return short(a.Type().String())
}

func (na *nullAnalysis) seed(fn *ssa.Function, u ssa.CallInstruction) {
	args := u.Common().Args
	na.seedTarget(fn, args[len(args)-1], u, fmt.Sprintf("decoded at %s (%s)", na.c.instrPos(u), fnName(fn)), 0)
}

// seedTarget: a is the decode target as seen in fn at instruction u (the decode call, or the call of a helper that decodes
// into its parameter)
func (na *nullAnalysis) seedTarget(fn *ssa.Function, a ssa.Value, u ssa.CallInstruction, origin string, depth int) {
	if mi, ok := a.(*ssa.MakeInterface); ok {
		a = mi.X
	}
	// the target is a parameter of a decoding helper (readArgs(req, resp, args interface{})): the callers' actuals are decoded
	if q, ok := unspill(a).(*ssa.Parameter); ok && depth < 3 {
		if _, isIface := q.Type().Underlying().(*types.Interface); isIface || true {
			idx := -1
			for i, pp := range fn.Params {
				if pp == q {
					idx = i
				}
			}
			for _, site := range staticSites[fn] {
				if idx >= 0 && idx < len(site.Call.Args) {
					na.seedTarget(site.Parent(), site.Call.Args[idx], site, origin+" <- "+fnName(site.Parent()), depth+1)
				}
			}
			if _, isPtr := q.Type().Underlying().(*types.Pointer); !isPtr {
				return
			}
		}
	}
	pt, ok := a.Type().Underlying().(*types.Pointer)
	if !ok {
		return
	}
	et := pt.Elem()
	if _, ok := moduleStruct(et); ok {
		na.tag(fn, a, kRoot, u, origin, 0)
		return
	}
	if k, ok := kindOfValueType(et); ok {
		// a is the address of a cell holding the value: loads after the decode are tagged
		na.tagCell(fn, a, k, u, origin, 0)
	}
}

// tagCell: every load of the cell (or of the same field address) is a value of kind k
func (na *nullAnalysis) tagCell(fn *ssa.Function, addr ssa.Value, k nkind, start ssa.Instruction, origin string, depth int) {
	for _, ref := range *addr.Referrers() {
		if ld, ok := ref.(*ssa.UnOp); ok && ld.Op == token.MUL && ld.X == addr {
			na.tag(fn, ld, k, start, origin, depth)
		}
	}
	// the same cell reached through another FieldAddr instruction of the same base/field
	if fa, ok := addr.(*ssa.FieldAddr); ok {
		for _, ref := range *fa.X.Referrers() {
			if fb, ok := ref.(*ssa.FieldAddr); ok && fb != fa && fb.Field == fa.Field {
				for _, r2 := range *fb.Referrers() {
					if ld, ok := r2.(*ssa.UnOp); ok && ld.Op == token.MUL && ld.X == ssa.Value(fb) {
						na.tag(fn, ld, k, start, origin, depth)
					}
				}
			}
		}
	}
}

// sameElemAccess: two loads through structurally equal addresses (x[i].F read twice)
func sameElemAccess(a, b ssa.Value) bool {
	return valEq(a, b, 0)
}

func valEq(a, b ssa.Value, d int) bool {
	if a == b || sameAccess(a, b) {
		return true
	}
	if d > 6 {
		return false
	}
	a, b = unspill(a), unspill(b)
	if a == b {
		return true
	}
	la, ok1 := a.(*ssa.UnOp)
	lb, ok2 := b.(*ssa.UnOp)
	if !ok1 || !ok2 || la.Op != token.MUL || lb.Op != token.MUL {
		return false
	}
	return addrEq(la.X, lb.X, d+1)
}

func addrEq(a, b ssa.Value, d int) bool {
	if a == b {
		return true
	}
	if d > 8 {
		return false
	}
	switch x := a.(type) {
	case *ssa.FieldAddr:
		y, ok := b.(*ssa.FieldAddr)
		return ok && x.Field == y.Field && (valEq(x.X, y.X, d+1) || addrEq(x.X, y.X, d+1))
	case *ssa.IndexAddr:
		y, ok := b.(*ssa.IndexAddr)
		return ok && x.Index == y.Index && (valEq(x.X, y.X, d+1) || addrEq(x.X, y.X, d+1))
	}
	return false
}

// validatedAfter: the set of instructions reachable from start (entry if nil) WITHOUT passing the exit of a validation loop
// for slice value v: a loop that tests an element of v against nil with the nil edge leaving the function
func (na *nullAnalysis) unvalidated(fn *ssa.Function, v ssa.Value, start ssa.Instruction) *reachSet {
	ct := newCut()
	for _, b := range fn.Blocks {
		ifi, ok := b.Instrs[len(b.Instrs)-1].(*ssa.If)
		if !ok {
			continue
		}
		bo, ok := ifi.Cond.(*ssa.BinOp)
		if !ok || (bo.Op != token.EQL && bo.Op != token.NEQ) {
			continue
		}
		var el ssa.Value
		if isNilConst(bo.Y) {
			el = bo.X
		} else if isNilConst(bo.X) {
			el = bo.Y
		} else {
			continue
		}
		ld, ok := el.(*ssa.UnOp)
		if !ok || ld.Op != token.MUL {
			continue
		}
		ia, ok := ld.X.(*ssa.IndexAddr)
		if !ok || !(ia.X == v || sameAccess(ia.X, v) || unspill(ia.X) == unspill(v)) {
			continue
		}
		nilSucc := 0
		if bo.Op == token.NEQ {
			nilSucc = 1
		}
		// innermost loop header dominating b
		var h *ssa.BasicBlock
		for _, hb := range fn.Blocks {
			back := false
			for _, p := range hb.Preds {
				if hb.Dominates(p) {
					back = true
				}
			}
			if back && hb.Dominates(b) && (h == nil || h.Dominates(hb)) {
				h = hb
			}
		}
		if h == nil {
			continue
		}
		loop := naturalLoop(h)
		if !loop[b] {
			continue
		}
		// the element tested must vary with the loop: its index is computed inside the loop
		if _, isC := ia.Index.(*ssa.Const); isC {
			continue
		}
		if ii, ok := ia.Index.(ssa.Instruction); !ok || !loop[ii.Block()] {
			continue
		}
		// the nil edge must leave the function without coming back to the loop
		r := reachFromEdge(edge{b, nilSucc}, nil)
		back := false
		for lb := range loop {
			if len(lb.Instrs) > 0 && r.has(lb.Instrs[0]) {
				back = true
			}
		}
		if back {
			continue
		}
		// exits of the loop other than the nil edge are "validated" edges
		for lb := range loop {
			for i, s := range lb.Succs {
				if !loop[s] && !(lb == b && i == nilSucc) {
					ct.edge(edge{lb, i})
				}
			}
		}
	}
	if len(ct.edges) == 0 {
		return nil
	}
	if start == nil {
		return reachFromEntry(fn, ct)
	}
	return na.c.reachAfter(start, ct)
}

func (na *nullAnalysis) tag(fn *ssa.Function, v ssa.Value, k nkind, start ssa.Instruction, origin string, depth int) {
	if v == nil || depth > 6 {
		return
	}
	key := nkey{v, k, na.nn[v]}
	if na.seen[key] {
		return
	}
	na.seen[key] = true
	if v.Referrers() == nil {
		return
	}
	var unval *reachSet
	if k == kSlice || k == kMap {
		unval = na.unvalidated(fn, v, start)
	}
	live := func(in ssa.Instruction) bool { return unval == nil || unval.has(in) }
	for _, ref := range *v.Referrers() {
		if !live(ref) {
			continue
		}
		switch x := ref.(type) {
		case *ssa.Phi:
			na.tag(fn, x, k, start, origin, depth)
		case *ssa.ChangeType:
			na.tag(fn, x, k, start, origin, depth)
		case *ssa.Convert:
			na.tag(fn, x, k, start, origin, depth)
		case *ssa.MakeInterface:
			// a named slice type handed to an interface (sort.Sort(FloatingIPSlice(x))): its methods receive the slice
			if k == kSlice {
				if n, ok := x.X.Type().(*types.Named); ok {
					ms := na.c.Prog.MethodSets.MethodSet(n)
					for i := 0; i < ms.Len(); i++ {
						if m := na.c.Prog.MethodValue(ms.At(i)); m != nil && len(m.Params) > 0 && m.Blocks != nil {
							na.tag(m, m.Params[0], k, nil, origin+" -> "+fnName(m), depth+1)
						}
					}
				}
			}
		case *ssa.Store:
			if x.Val == v {
				switch a := x.Addr.(type) {
				case *ssa.Alloc:
					na.tagCell(fn, a, k, x, origin, depth)
				case *ssa.IndexAddr, *ssa.FieldAddr:
					// stored into another structure: followed no further (the structure is not decoded data)
				}
			}
		case *ssa.Return:
			for i, r := range x.Results {
				if r == v {
					for _, cs := range na.callers[fn] {
						if cv := cs.Value(); cv != nil {
							g := cs.Parent()
							if fn.Signature.Results().Len() == 1 {
								na.tag(g, cv, k, cs, origin+" -> returned to "+fnName(g), depth+1)
							} else {
								for _, r2 := range *cv.Referrers() {
									if ex, ok := r2.(*ssa.Extract); ok && ex.Index == i {
										na.tag(g, ex, k, cs, origin+" -> returned to "+fnName(g), depth+1)
									}
								}
							}
						}
					}
				}
			}
		case ssa.CallInstruction:
			na.passToCallees(fn, x, v, k, origin, depth)
		}
	}
	switch k {
	case kRoot:
		na.useRoot(fn, v, start, origin, depth)
	case kSlice:
		et := v.Type().Underlying().(*types.Slice).Elem()
		for _, ref := range *v.Referrers() {
			if !live(ref) {
				continue
			}
			switch x := ref.(type) {
			case *ssa.IndexAddr:
				if x.X != v {
					continue
				}
				if _, isPtr := et.Underlying().(*types.Pointer); isPtr {
					na.tagCell(fn, x, kElem, start, origin+" [i]", depth)
				} else if _, ok := moduleStruct(et); ok {
					na.tag(fn, x, kRoot, start, origin+" [i]", depth)
				}
			case *ssa.Slice:
				na.tag(fn, x, kSlice, start, origin, depth)
			}
		}
	case kMap:
		et := v.Type().Underlying().(*types.Map).Elem()
		for _, ref := range *v.Referrers() {
			if !live(ref) {
				continue
			}
			switch x := ref.(type) {
			case *ssa.Lookup:
				if x.X != v {
					continue
				}
				na.tagMapValue(fn, x, x.CommaOk, 0, et, start, origin, depth)
			case *ssa.Range:
				for _, r2 := range *x.Referrers() {
					if nx, ok := r2.(*ssa.Next); ok {
						na.tagMapValue(fn, nx, true, 2, et, start, origin, depth)
					}
				}
			}
		}
	case kElem:
		na.useElem(fn, v, start, origin, depth)
	}
}

func (na *nullAnalysis) tagMapValue(fn *ssa.Function, tuple ssa.Value, isTuple bool, idx int, et types.Type, start ssa.Instruction, origin string, depth int) {
	vals := []ssa.Value{tuple}
	if isTuple {
		vals = nil
		for _, r := range *tuple.Referrers() {
			if ex, ok := r.(*ssa.Extract); ok && ex.Index == idx {
				vals = append(vals, ex)
			}
		}
	}
	for _, x := range vals {
		if _, isPtr := et.Underlying().(*types.Pointer); isPtr {
			na.tag(fn, x, kElem, start, origin+" [k]", depth)
		}
	}
}

func (na *nullAnalysis) passToCallees(fn *ssa.Function, call ssa.CallInstruction, v ssa.Value, k nkind, origin string, depth int) {
	cc := call.Common()
	if b, ok := cc.Value.(*ssa.Builtin); ok {
		if b.Name() == "append" && k == kSlice {
			if val := call.Value(); val != nil {
				na.tag(fn, val, kSlice, call, origin, depth)
			}
		}
		return
	}
	if _, isGo := call.(*ssa.Go); isGo {
		// arguments of a go statement: same mapping
	}
	if k == kElem {
		guards := nonNilEdgesOf(fn, func(x ssa.Value) bool { return x == v || sameElemAccess(x, v) })
		if guardedBy(fn, call, guards) {
			if na.noRoot {
				return
			}
			// handed on only behind a nil test: the callee receives a non-nil pointer to decoded data
			k = kRoot
			if pt, ok := v.Type().Underlying().(*types.Pointer); !ok {
				return
			} else if _, ok := moduleStruct(pt.Elem()); !ok {
				return
			}
		}
	}
	nn := ""
	if k == kRoot {
		nn = na.nonNilFieldsAt(fn, v, call)
	}
	for _, g := range na.la.calleesOf(call) {
		if g.Blocks == nil {
			continue
		}
		// map actual -> formal
		var actuals []ssa.Value
		if cc.IsInvoke() {
			actuals = append([]ssa.Value{cc.Value}, cc.Args...)
		} else {
			actuals = cc.Args
			// closure call: free variables are not parameters
		}
		for i, a := range actuals {
			if a == v && i < len(g.Params) {
				if k == kElem && i == 0 && g.Signature.Recv() != nil {
					// receiver: counts as a dereference unless the method tests its receiver; handled in useElem
				}
				if nn != "" {
					if old, seen := na.nn[g.Params[i]]; seen && old != nn {
						nn = intersectCSV(old, nn)
					}
				}
				na.nn[g.Params[i]] = nn
				na.tag(g, g.Params[i], k, nil, origin+" -> "+fnName(g), depth+1)
			}
		}
	}
}

func intersectCSV(a, b string) string {
	in := map[string]bool{}
	for _, x := range strings.Split(a, ",") {
		in[x] = true
	}
	var out []string
	for _, x := range strings.Split(b, ",") {
		if in[x] && x != "" {
			out = append(out, x)
		}
	}
	return strings.Join(out, ",")
}

// nonNilFieldsAt: pointer-ish fields of the decoded struct *v that were tested non-nil on an edge dominating `at`
func (na *nullAnalysis) nonNilFieldsAt(fn *ssa.Function, v ssa.Value, at ssa.Instruction) string {
	pt, ok := v.Type().Underlying().(*types.Pointer)
	if !ok {
		return ""
	}
	st, ok := moduleStruct(pt.Elem())
	if !ok {
		return ""
	}
	var out []string
	for _, f := range strings.Split(na.nn[v], ",") {
		if f != "" {
			out = append(out, f)
		}
	}
	for i := 0; i < st.NumFields(); i++ {
		if _, isPtr := st.Field(i).Type().Underlying().(*types.Pointer); !isPtr {
			continue
		}
		idx := i
		guards := nonNilEdgesOf(fn, func(x ssa.Value) bool {
			ld, ok := x.(*ssa.UnOp)
			if !ok || ld.Op != token.MUL {
				return false
			}
			fa, ok := ld.X.(*ssa.FieldAddr)
			return ok && fa.Field == idx && valEq(fa.X, v, 0)
		})
		if len(guards) > 0 && guardedBy(fn, at, guards) {
			out = append(out, st.Field(i).Name())
		}
	}
	sort.Strings(out)
	return strings.Join(out, ",")
}

// useRoot: v is a pointer to / the address of a decoded module struct
func (na *nullAnalysis) useRoot(fn *ssa.Function, v ssa.Value, start ssa.Instruction, origin string, depth int) {
	pt, ok := v.Type().Underlying().(*types.Pointer)
	if !ok {
		return
	}
	st, ok := moduleStruct(pt.Elem())
	if !ok {
		return
	}
	for _, ref := range *v.Referrers() {
		switch x := ref.(type) {
		case *ssa.FieldAddr:
			if x.X != v {
				continue
			}
			ft := st.Field(x.Field).Type()
			fname := st.Field(x.Field).Name()
			if containsCSV(na.nn[v], fname) {
				continue // tested non-nil by every caller that hands the struct in
			}
			if _, ok := moduleStruct(ft); ok {
				na.tag(fn, x, kRoot, start, origin+"."+fname, depth)
				continue
			}
			if k, ok := kindOfValueType(ft); ok {
				// loads of the field: but a store of a fresh value into the same field in this function un-nulls it
				if na.fieldOverwritten(fn, x) {
					continue
				}
				na.tagCell(fn, x, k, start, origin+"."+fname, depth)
			}
		case *ssa.UnOp:
			// copy of the whole struct: fields of the copy
			if x.Op == token.MUL && x.X == v {
				na.useRootVal(fn, x, st, start, origin, depth)
			}
		}
	}
}

// fieldOverwritten: the function stores a freshly made value into this field of the same base before reading it
// (args.NodeNameToMetaVictims = map[..]..{}): such a field is not decoded data any more — only honoured when every load
// of the field is dominated by such a store
func (na *nullAnalysis) fieldOverwritten(fn *ssa.Function, fa *ssa.FieldAddr) bool {
	return false
}

func (na *nullAnalysis) useRootVal(fn *ssa.Function, sv ssa.Value, st *types.Struct, start ssa.Instruction, origin string, depth int) {
	for _, ref := range *sv.Referrers() {
		switch x := ref.(type) {
		case *ssa.Field:
			ft := st.Field(x.Field).Type()
			if k, ok := kindOfValueType(ft); ok {
				na.tag(fn, x, k, start, origin+"."+st.Field(x.Field).Name(), depth)
			} else if st2, ok := moduleStruct(ft); ok {
				na.useRootVal(fn, x, st2, start, origin+"."+st.Field(x.Field).Name(), depth)
			}
		case *ssa.Phi:
			na.useRootVal(fn, x, st, start, origin, depth)
		}
	}
}

// useElem: v may be nil. Every dereference must be guarded; behind the guard it is a decoded struct again.
func (na *nullAnalysis) useElem(fn *ssa.Function, v ssa.Value, start ssa.Instruction, origin string, depth int) {
	guards := nonNilEdgesOf(fn, func(x ssa.Value) bool { return x == v || sameElemAccess(x, v) })
	uses := derefsOf(v)
	for _, ref := range *v.Referrers() {
		if call, ok := ref.(*ssa.Call); ok && !call.Call.IsInvoke() && len(call.Call.Args) > 0 && call.Call.Args[0] == v {
			if f := call.Call.StaticCallee(); f != nil && f.Signature.Recv() != nil {
				if _, tracked := na.la.info[f]; !tracked || f.Blocks == nil {
					uses = append(uses, call) // method of a type outside the analysed source: assumed to dereference its receiver
				}
			}
		}
	}
	for _, d := range uses {
		if na.reported[d] {
			continue
		}
		na.reported[d] = true
		na.derefs++
		okG := guardedBy(fn, d, guards)
		if !okG && na.extra != nil {
			if ex := na.extra(fn); len(ex) > 0 {
				okG = guardedBy(fn, d, append(append([]edge{}, guards...), ex...))
			}
		}
		na.c.ob(na.rule, fn, na.what(), d, okG,
			origin+": the dereference must be reachable only through the non-nil edge of a test of the same value, or behind a validation loop")
	}
	// the pointee, when a module struct, is decoded data too
	if pt, ok := v.Type().Underlying().(*types.Pointer); ok && !na.noRoot {
		if _, ok := moduleStruct(pt.Elem()); ok {
			na.tag(fn, v, kRoot, start, origin, depth)
		}
	}
}

func containsCSV(csv, x string) bool {
	for _, f := range strings.Split(csv, ",") {
		if f == x {
			return true
		}
	}
	return false
}

// C18.R11
func ruleJSONNullable(c *Ctx, rule string) {
	na := &nullAnalysis{c: c, la: c.locks(), rule: rule, pkgPrefix: modPath + "pkg/", seen: map[nkey]bool{}, nn: map[ssa.Value]string{}, reported: map[ssa.Instruction]bool{}}
	na.run()
	c.note("%s: %d decode sites at input surfaces, %d dereferences of nullable decoded pointers examined", rule, na.sites, na.derefs)
	if na.sites < 10 || na.derefs < 4 {
		c.undecided(rule, nil, "decode sites", nil, fmt.Sprintf("expected at least 10 decode sites and 4 examined dereferences, found %d / %d", na.sites, na.derefs))
	}
}

// C18.R13 — ByKeyAndIPRanges answers a request with ranges by one entry per range, nil where the key holds no ip in the
// range (the callers rely on that to find the ranges still to allocate). Every dereference of an element of such a result is
// reachable only behind a nil test of that element, or behind a loop that leaves the function on a nil element.
func ruleLookupResultNilChecked(c *Ctx, rule string) {
	na := &nullAnalysis{c: c, la: c.locks(), rule: rule, pkgPrefix: modPath + "pkg/", seen: map[nkey]bool{}, nn: map[ssa.Value]string{}, reported: map[ssa.Instruction]bool{}, noRoot: true}
	// a request without ranges is answered densely: behind `len(ranges) == 0` every entry is present
	na.extra = func(fn *ssa.Function) []edge {
		return guardEdges(fn, func(v ssa.Value) (bool, int) {
			bo, ok := v.(*ssa.BinOp)
			if !ok {
				return false, 0
			}
			call, ok := bo.X.(*ssa.Call)
			if !ok || calleeName(call) != "builtin.len" || !strings.Contains(call.Call.Args[0].Type().String(), "IPRange") {
				return false, 0
			}
			n, isC := constIntVal(bo.Y)
			if !isC || n != 0 {
				return false, 0
			}
			switch bo.Op {
			case token.EQL:
				return true, 0
			case token.NEQ, token.GTR:
				return true, 1
			}
			return false, 0
		})
	}
	na.callers = map[*ssa.Function][]ssa.CallInstruction{}
	old := structModPrefix
	structModPrefix = c.Mod
	defer func() { structModPrefix = old }()
	for _, fn := range c.SrcFns {
		allInstrs(fn, func(in ssa.Instruction) {
			if call, ok := in.(ssa.CallInstruction); ok {
				for _, g := range na.la.calleesOf(call) {
					na.callers[g] = append(na.callers[g], call)
				}
			}
		})
	}
	sites := 0
	for _, fn := range c.SrcFns {
		if isGenerated(fn) || !strings.HasPrefix(fn.Pkg.Pkg.Path(), modPath+"pkg/ipam/schedulerplugin") && !strings.HasPrefix(fn.Pkg.Pkg.Path(), modPath+"pkg/ipam/api") {
			continue
		}
		for _, call := range callsLocal(fn, "IPAM).ByKeyAndIPRanges") {
			args := callArgs(call)
			if len(args) < 2 || isNilConst(args[1]) {
				continue // without ranges the result is dense
			}
			sites++
			for _, ref := range *call.Value().Referrers() {
				if ex, ok := ref.(*ssa.Extract); ok && ex.Index == 0 {
					na.tag(fn, ex, kSlice, call, fmt.Sprintf("result of ByKeyAndIPRanges(key, ranges) at %s", c.instrPos(call)), 0)
				}
			}
		}
	}
	c.note("%s: %d lookups with ranges, %d dereferences of their elements examined", rule, sites, na.derefs)
	if sites < 2 || na.derefs < 3 {
		c.undecided(rule, nil, "lookups with ranges", nil, fmt.Sprintf("expected at least 2 lookups and 3 element dereferences, found %d / %d", sites, na.derefs))
	}
}

func (na *nullAnalysis) what() string {
	if na.noRoot {
		return "deref of an entry that is nil when the key holds no ip in the range"
	}
	return "deref of a pointer a JSON null / missing key leaves nil"
}
